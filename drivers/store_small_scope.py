"""Bounded stand-in for C07/C08/C02(store part): the real TokenStore with load factor L in {2,3} against a plain list,
every reachable small store, every splice window, short histories incl. raw_text updates; Inv evaluated on the real objects."""
import itertools, random
from autobean_refactor import token_store as ts
from rtc import specfun as sf
from drivers.common import Report, main

TEXTS = ['', 'a', '\n', 'b\n', 'x\ny', 'cc']


def set_load_factor(L):
    ts._LOAD_FACTOR = L; ts._DOUBLE_LOAD_FACTOR = L * 2; ts._HALF_LOAD_FACTOR = L // 2; ts._ONE_HALF_LOAD_FACTOR = L + L // 2


def mk(n, salt=0):
    return [ts.Token(TEXTS[(i * 7 + salt) % len(TEXTS)]) for i in range(n)]


def apply(store, model, op, fresh_salt):
    """op = ('splice', a, b, k) | ('text', i, txt) | ('after', i, k) | ('remove', a, b) | ('replace', i)"""
    kind = op[0]
    if kind == 'splice':
        _, a, b, k = op
        new = mk(k, fresh_salt)
        ref = model[a] if a < len(model) else None
        if a == len(model) and b == a:
            store.insert_after(model[-1] if model else None, new)
        elif b > a:
            store.splice(new, model[a], model[b - 1])
        else:
            store.splice(new, ref)
        removed = model[a:b]; model[a:b] = new
        for t in removed:
            if t.store_handle is not None: return f'removed token {t!r} still has a handle'
    elif kind == 'text':
        _, i, txt = op
        model[i].raw_text = txt
    elif kind == 'after':
        _, i, k = op
        new = mk(k, fresh_salt); store.insert_after(model[i] if i >= 0 else None, new); model[i + 1:i + 1] = new
    elif kind == 'remove':
        _, a, b = op
        store.remove(model[a], model[b - 1]); del model[a:b]
    elif kind == 'reins':
        # offering a token that already lives in the store: legal only strictly inside the removed range, otherwise must be refused with nothing changed
        _, a, b, i = op
        before = list(model)
        try:
            if b > a: store.splice([model[i]], model[a], model[b - 1])
            else: store.splice([model[i]], model[a] if a < len(model) else None)
        except ValueError:
            if a <= i < b: return f'reinsertion inside the removed range refused'
            if list(store) != before: return 'refused reinsertion changed the store'
            return None
        if not (a <= i < b): return f'reinsertion of a token living outside the removed range [{a},{b}) was accepted (token now twice in the store)'
        model[a:b] = [model[i]]
    elif kind == 'replace':
        _, i = op
        new = mk(1, fresh_salt)[0]; store.replace(model[i], new); model[i] = new
    return None


def check(store, model):
    return sf.store_inv(store) or sf.observers_agree(store, model)


def run_case(L, n, ops):
    set_load_factor(L)
    try:
        model = mk(n)
        store = ts.TokenStore.from_tokens(list(model))
        msg = check(store, model)
        if msg: return f'after from_tokens({n}): {msg}'
        for step, op in enumerate(ops):
            try:
                msg = apply(store, model, op, 3 + step)
            except Exception as e:
                return f'step {step} {op}: raised {type(e).__name__}: {e}'
            msg = msg or check(store, model)
            if msg: return f'step {step} {op}: {msg}'
            # sub-range iteration
            if model:
                a, b = 0, len(model) - 1
                if list(store.iter(model[a], model[b])) != model[a:b + 1]: return f'step {step} {op}: iter(full) wrong'
                m = len(model) // 2
                if list(store.iter(model[m], model[b])) != model[m:b + 1]: return f'step {step} {op}: iter(mid..end) wrong'
        return None
    finally:
        set_load_factor(1000)


def ops_for(n, L):
    ks = sorted({0, 1, 2, L, 2 * L + 1})
    out = []
    for a in range(n + 1):
        for b in range(a, n + 1):
            for k in ks:
                if b == a and k == 0: continue
                out.append(('splice', a, b, k))
    for a in range(n + 1):
        for b in range(a, min(n, a + 3) + 1):
            for i in sorted({0, a - 1, a, b - 1, b, n - 1}):
                if 0 <= i < n: out.append(('reins', a, b, i))
    for i in range(n):
        for txt in ('', 'q', '\n', 'z\nw'):
            out.append(('text', i, txt))
    return out


def run(prop, tier, seed):
    rep = Report('store_small_scope', 'every store from_tokens(n), n<=4L+1, L in {2,3}; every splice window (a,b) x k in {0,1,2,L,2L+1} and every raw_text update; '
                 'histories of length 1 exhaustively, length 2 (quick: seeded sample; thorough: exhaustive for L=2 n<=6, sampled beyond); '
                 'non-trivial = the operation changes the store; distinct by (L, n, ops)', exhaustive=False, bound='L in {2,3}, n <= 4L+1, history <= 2 (3 sampled in thorough)')
    rnd = random.Random(seed)
    for L in (2, 3):
        for n in range(0, 4 * L + 2):
            ops = ops_for(n, L)
            for op in ops:
                key = (L, n, (op,))
                if not rep.mine(key): continue
                msg = run_case(L, n, [op])
                rep.case(key, True, dict(L=L, n=n, ops=[op]) if rnd.random() < 0.002 else None)
                if msg: rep.fail(f'L={L}:{classify(msg)}', msg, dict(L=L, n=n, ops=[op]))
    # histories of length 2 (and 3 in thorough)
    budget = 30000 if tier == "quick" else 400000
    for _ in range(budget):
        L = rnd.choice((2, 3)); n = rnd.randrange(0, 4 * L + 2)
        hist = []
        cur = n
        for step in range(2 if (tier == 'quick' or rnd.random() < 0.5) else 3):
            cand = ops_for(cur, L)
            if not cand: break
            op = rnd.choice(cand); hist.append(op)
            if op[0] == 'splice': cur = cur - (op[2] - op[1]) + op[3]
            if op[0] == 'reins': break
        key = (L, n, tuple(hist))
        if not rep.mine(key): continue
        msg = run_case(L, n, hist)
        rep.case(key, len(hist) > 1, dict(L=L, n=n, ops=hist) if rnd.random() < 0.001 else None)
        if msg: rep.fail(f'L={L}:{classify(msg)}', msg, dict(L=L, n=n, ops=hist))
    if not rep.d['samples']: rep.d['samples'].append(dict(L=2, n=5, ops=[('splice', 1, 3, 2)]))
    return rep


def classify(msg):
    import re
    m = msg.split(': ', 1)[1] if ': ' in msg else msg
    m = re.sub(r'\d+', 'N', m)
    m = re.sub(r"<Token: [^>]*>", 'TOKEN', m)
    return m[:80]


def replay_case(case):
    return run_case(case['L'], case['n'], [tuple(o) for o in case['ops']])


if __name__ == '__main__':
    main(run, replay_case)
