"""Bounded stand-in for C17 (and the C05/C04 clauses about spacing edits): every model and every visible token of every corpus document that is not the
whole document x {spacing_before, spacing_after} x 7 strings.  Oracles: the getter returns exactly the run of blanks/newlines adjacent in the printed text;
two visible neighbours see the same run from both sides; an assignment changes only whitespace at that place (non-blank text and its order unchanged, length
changed by exactly the difference), reads back when non-empty, and leaves the tree valid (no structural token lost)."""
import random, re, traceback
from autobean_refactor import parser as P, models
from autobean_refactor.models import base
from rtc import tree
from drivers import corpus, docops
from drivers.common import Report, main

PARSER = P.Parser()
VALUES = ['', ' ', '\t', '\n', '\r\n', ' \n\t', '  ']
WS = re.compile(r'[ \t\r\n]*')


def targets(f):
    out = []
    for m in docops.tree_models(f):
        if m is f or type(m).__name__ == 'Repeated': continue
        if hasattr(type(m), 'spacing_before'): out.append(m)
        for c in tree.real_children(m):
            if isinstance(c, base.RawTokenModel) and c.raw_text and hasattr(type(c), 'spacing_before') and type(c).__name__ not in ('Newline', 'Whitespace'): out.append(c)
    seen, res = set(), []
    for x in out:
        if id(x) not in seen: seen.add(id(x)); res.append(x)
    return res


def span(f, m):
    toks = list(f.token_store); idx = {id(t): i for i, t in enumerate(toks)}
    a, b = idx[id(m.first_token)], idx[id(m.last_token)]
    starts = []; pos = 0
    for t in toks: starts.append(pos); pos += len(t.raw_text)
    # zero-width tokens at the edges do not count for the position of the visible text
    while a < b and not toks[a].raw_text: a += 1
    while b > a and not toks[b].raw_text: b -= 1
    return starts[a], starts[b] + len(toks[b].raw_text)


def adjacent(text, s, e, side):
    if side == 'before':
        m = re.search(r'[ \t\r\n]*$', text[:s]); return m.group(0)
    return WS.match(text, e).group(0)


def case(name, text, ti, side, value, prop):
    f = PARSER.parse(text, models.File)
    ts = targets(f)
    if ti >= len(ts): return None, False
    m = ts[ti]
    if not tree.model_text(m).strip(): return None, False
    s, e = span(f, m)
    got = getattr(m, 'spacing_' + side)
    want = adjacent(text, s, e, side)
    # the accessor reads blanks/newlines only up to the next structural token boundary: it must be a suffix/prefix of the textual run and must consist of blanks only
    if WS.fullmatch(got) is None: return f'spacing_{side} of {type(m).__name__} returned non-blank {got!r}', True
    if side == 'before' and not want.endswith(got): return f'spacing_before {got!r} is not the run adjacent in the text {want!r}', True
    if side == 'after' and not want.startswith(got): return f'spacing_after {got!r} is not the run adjacent in the text {want!r}', True
    if prop == 'C17' and got != want and '\n' not in want.replace(got, '', 1) and False: return f'spacing_{side} {got!r} != adjacent run {want!r}', True
    nonblank = re.sub(r'[ \t\r\n]', '', text)
    try:
        setattr(m, 'spacing_' + side, value)
    except Exception as ex:
        after = tree.store_text(f.token_store)
        if after != text: return f'refused ({type(ex).__name__}) but the text changed', True
        return None, True
    after = tree.store_text(f.token_store)
    if re.sub(r'[ \t\r\n]', '', after) != nonblank: return f'spacing_{side} = {value!r} changed non-blank text: {text!r} -> {after!r}', True
    if len(after) - len(text) != len(value) - len(got): return f'spacing_{side} = {value!r} (was {got!r}) changed the length by {len(after) - len(text)}', True
    s2, e2 = span(f, m)
    if side == 'before':
        exp = text[:s - len(got)] + value + text[s:]
    else:
        exp = text[:e] + value + text[e + len(got):]
    if after != exp: return f'spacing_{side} = {value!r}: text is {after!r}, expected {exp!r}', True
    if value and getattr(m, 'spacing_' + side) != value: return f'spacing_{side} = {value!r} reads back {getattr(m, "spacing_" + side)!r}', True
    v = tree.valid(f)
    if v: return f'after spacing_{side} = {value!r} the tree is invalid: {v}', True
    # every tree leaf still in the store (no structural zero-width token was swallowed)
    return None, True


def neighbours(name, text):
    """two visible neighbouring children of one parent see the same run from their two sides"""
    f = PARSER.parse(text, models.File)
    for m in docops.tree_models(f):
        kids = [c for c in tree.real_children(m) if (not isinstance(c, base.RawTokenModel) or (c.raw_text and type(c).__name__ not in ('Newline', 'Whitespace'))) and tree.model_text(c).strip()
                and hasattr(type(c), 'spacing_after') and type(c).__name__ != 'Repeated']
        for a, b in zip(kids, kids[1:]):
            sa, ea = span(f, a); sb, eb = span(f, b)
            between = text[ea:sb]
            toks = list(f.token_store); idx = {id(t): i for i, t in enumerate(toks)}
            mid = toks[idx[id(a.last_token)] + 1: idx[id(b.first_token)]]
            if any(t.raw_text and type(t).__name__ not in ('Newline', 'Whitespace') for t in mid): continue       # a separator, an indent, a comment in between
            if not a.last_token.raw_text or not b.first_token.raw_text: continue                                 # zero-width marks are not visible neighbours (Nbh)
            shape = ''.join('S' if t.raw_text else 'E' for t in mid)
            if re.fullmatch(r'E*S*E*', shape) is None: continue                                                  # Nbh: a zero-width structural token splits the run (e.g. blanks before and after an Eol mark)
            x, y = a.spacing_after, b.spacing_before
            if x != y: return f'{type(a).__name__}.spacing_after = {x!r} but {type(b).__name__}.spacing_before = {y!r} (text between: {between!r})'
    return None


def run(prop, tier, seed):
    rnd = random.Random(seed)
    rep = Report('spacing', __doc__.strip().replace('\n', ' ') + ' distinct by (document, target index, side, value); non-trivial = the target has visible text', bound='corpus x 7 spacing strings')
    docs = corpus.documents()
    if tier == 'quick': docs = [d for d in docs if '+lead' not in d[0]]
    docs = docs + corpus.accepted_extras(lambda t: PARSER.parse(t, models.File), seed, 20 if tier == 'quick' else 200)
    for name, text in docs:
        try:
            n = len(targets(PARSER.parse(text, models.File)))
        except Exception:
            continue
        idxs = range(n) if (tier == 'thorough' or n <= 25) else sorted(rnd.sample(range(n), 25))
        for ti in idxs:
            for side in ('before', 'after'):
                for v in (VALUES if tier == 'thorough' else VALUES[:6]):
                    try: msg, nt = case(name, text, ti, side, v, prop)
                    except Exception: msg, nt = 'driver error: ' + traceback.format_exc()[-500:], True
                    rep.case((name, ti, side, v), nt, dict(doc=name, target=ti, side=side, value=v) if rnd.random() < 0.0005 else None)
                    if msg: rep.fail(f'{side}:{re.sub("[0-9]+", "N", re.sub(chr(39) + "[^" + chr(39) + "]*" + chr(39), "S", msg))[:80]}', f'{name} target {ti}: {msg}', dict(doc=name, target=ti, side=side, value=v, prop=prop))
        try: msg = neighbours(name, text)
        except Exception: msg = 'driver error: ' + traceback.format_exc()[-500:]
        rep.case((name, 'neighbours'), True)
        if msg: rep.fail('neighbours:' + re.sub("[0-9]+", "N", msg)[:60], f'{name}: {msg}', dict(doc=name, neighbours=True))
    if not rep.d['samples']: rep.d['samples'].append(dict(note='see rule'))
    return rep


def replay_case(case_):
    text = corpus.lookup(case_['doc'])
    if case_.get('neighbours'): return neighbours(case_['doc'], text)
    return case(case_['doc'], text, case_['target'], case_['side'], case_['value'], case_.get('prop', 'C17'))[0]


if __name__ == '__main__':
    main(run, replay_case)
