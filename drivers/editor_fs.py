"""Bounded stand-in for C16 on a real directory: include graphs with <= 4 files (nesting, glob, cycle, diamond) x LF/CRLF x path spellings
(absolute, relative, bare, ./x, a/../x) x which files are edited / removed / added x body raising.
Oracles (bytes and mtime_ns before/after): edited files contain exactly the printed model; unedited files are not rewritten; removed keys are deleted, new keys created;
each reachable file appears exactly once in the mapping; nothing is touched if the block raises."""
import os, random, re, shutil, tempfile, traceback, io
from autobean_refactor import editor as E, models, printer
from drivers.common import Report, main
from autobean_refactor import parser as _P
_PARSER = _P.Parser()

BASE = os.path.join(os.path.dirname(os.path.dirname(os.path.abspath(__file__))), '.work', 'editor_fs')

GRAPHS = {
    'single': {'main.bean': ['D']},
    'chain': {'main.bean': ['I:a.bean', 'D'], 'a.bean': ['D', 'I:sub/b.bean'], 'sub/b.bean': ['D']},
    'glob': {'main.bean': ['I:inc/*.bean', 'D'], 'inc/x.bean': ['D'], 'inc/y.bean': ['D']},
    'cycle': {'main.bean': ['I:a.bean', 'D'], 'a.bean': ['I:main.bean', 'D']},
    'diamond': {'main.bean': ['I:a.bean', 'I:b.bean'], 'a.bean': ['I:c.bean', 'D'], 'b.bean': ['I:c.bean', 'D'], 'c.bean': ['D']},
    'updir': {'main.bean': ['I:sub/a.bean'], 'sub/a.bean': ['I:../c.bean', 'D'], 'c.bean': ['D']},
}


def content(lines, nl):
    out = []
    for i, l in enumerate(lines):
        if l == 'D': out.append(f'2000-01-0{i + 1} open Assets:A{i} ; keep')
        else: out.append(f'include "{l[2:]}"')
    return nl.join(out) + nl


def build(graph, nl):
    shutil.rmtree(BASE, ignore_errors=True); os.makedirs(BASE)
    root = tempfile.mkdtemp(dir=BASE)
    for rel, lines in GRAPHS[graph].items():
        p = os.path.join(root, rel); os.makedirs(os.path.dirname(p), exist_ok=True)
        with open(p, 'wb') as f: f.write(content(lines, nl).encode())
    return root


def snapshot(root):
    snap = {}
    for d, _, fs in os.walk(root):
        for fn in fs:
            p = os.path.join(d, fn)
            with open(p, 'rb') as f: snap[os.path.relpath(p, root)] = (f.read(), os.stat(p).st_mtime_ns)
    return snap


def spell(root, how):
    """-> (cwd, path argument)"""
    if how == 'absolute': return None, os.path.join(root, 'main.bean')
    if how == 'bare': return root, 'main.bean'
    if how == 'dot': return root, './main.bean'
    if how == 'updown': return root, 'x/../main.bean' if os.path.isdir(os.path.join(root, 'x')) or not os.makedirs(os.path.join(root, 'x')) else 'main.bean'
    if how == 'relative': return os.path.dirname(root), os.path.join(os.path.basename(root), 'main.bean')
    raise ValueError(how)


def case(graph, nl, how, action, recursive):
    root = build(graph, nl)
    cwd0 = os.getcwd()
    try:
        cwd, arg = spell(root, how)
        if cwd: os.chdir(cwd)
        before = snapshot(root)
        ed = E.Editor(_PARSER)
        reach = set(GRAPHS[graph]) if recursive else {'main.bean'}
        edited, removed, added, raised = set(), set(), set(), False
        try:
            if recursive:
                with ed.edit_file_recursive(arg) as files:
                    keys = {os.path.relpath(os.path.abspath(k), root): k for k in files}
                    if len(keys) != len(files): return 'two keys of the mapping name the same file'
                    if set(keys) != reach: return f'visited {sorted(keys)} but the include graph reaches {sorted(reach)}'
                    if action == 'edit-all':
                        for rel, k in keys.items():
                            ds = [d for d in files[k].raw_directives if isinstance(d, models.Open)]
                            if ds: ds[0].account = 'Assets:Edited'; edited.add(rel)
                    elif action == 'edit-one':
                        rel = sorted(keys)[-1]; ds = [d for d in files[keys[rel]].raw_directives if isinstance(d, models.Open)]
                        if ds: ds[0].account = 'Assets:Edited'; edited.add(rel)
                    elif action == 'remove-one' and len(keys) > 1:
                        rel = sorted(keys)[-1]; del files[keys[rel]]; removed.add(rel)
                    elif action == 'add-one':
                        newk = os.path.join(os.path.dirname(keys['main.bean']) or '', 'newdir', 'new.bean') if how != 'bare' else 'new.bean'
                        files[newk] = ed._parser.parse('2000-01-01 open Assets:New' + nl, models.File); added.add(os.path.relpath(os.path.abspath(newk), root))
                    elif action in ('add-empty', 'add-empty-parsed'):
                        # a new entry whose model prints to the empty string still has to be created (as an empty file)
                        newk = os.path.join(os.path.dirname(keys['main.bean']) or '', 'newdir', 'empty.bean') if how != 'bare' else 'empty.bean'
                        files[newk] = models.File.from_children([]) if action == 'add-empty' else ed._parser.parse('', models.File); added.add(os.path.relpath(os.path.abspath(newk), root))
                    elif action == 'respell' and len(keys) > 1:
                        # remove an entry and put the (edited) model back under another spelling of the same path: the file must end up with the new content
                        rel = sorted(keys)[-1]; k = keys[rel]; model = files.pop(k)
                        ds = [d for d in model.raw_directives if isinstance(d, models.Open)]
                        if ds: ds[0].account = 'Assets:Edited'
                        k2 = os.path.join(os.path.dirname(k), '.', os.path.basename(k)) if os.path.dirname(k) else './' + k
                        k2 = os.path.join(os.path.dirname(k) or '.', 'zz', '..', os.path.basename(k))
                        os.makedirs(os.path.join(os.path.dirname(os.path.abspath(k)), 'zz'), exist_ok=True)
                        files[k2] = model; edited.add(rel)
                        keys[rel] = k2
                    elif action == 'raise':
                        for rel, k in keys.items():
                            ds = [d for d in files[k].raw_directives if isinstance(d, models.Open)]
                            if ds: ds[0].account = 'Assets:Edited'
                        raise RuntimeError('body failed')
                    printed = {rel: printer.print_model(files[k], io.StringIO()).getvalue() for rel, k in keys.items() if k in files}
                    printed.update({rel: printer.print_model(files[k], io.StringIO()).getvalue() for rel in added for k in files if os.path.relpath(os.path.abspath(k), root) == rel})
            else:
                with ed.edit_file(arg) as f:
                    if action in ('edit-all', 'edit-one'):
                        ds = [d for d in f.raw_directives if isinstance(d, models.Open)]
                        if ds: ds[0].account = 'Assets:Edited'; edited.add('main.bean')
                    elif action == 'raise':
                        ds = [d for d in f.raw_directives if isinstance(d, models.Open)]
                        if ds: ds[0].account = 'Assets:Edited'
                        raise RuntimeError('body failed')
                    printed = {'main.bean': printer.print_model(f, io.StringIO()).getvalue()}
        except RuntimeError:
            raised = True
        except Exception as e:
            return f'editor raised {type(e).__name__}: {e}'
        after = snapshot(root)
        if raised:
            if after != before: return f'the block raised but files were touched: {[k for k in set(after) | set(before) if after.get(k) != before.get(k)]}'
            return None
        for rel in set(before) | set(after) | added | removed:
            b, a = before.get(rel), after.get(rel)
            if rel in removed:
                if a is not None: return f'{rel} was removed from the mapping but still exists'
                continue
            if rel in added:
                if a is None: return f'{rel} was added to the mapping but not created'
                if a[0] != printed[rel].encode(): return f'new file {rel} contains {a[0]!r}, printed model is {printed[rel]!r}'
                continue
            if a is None: return f'{rel} disappeared'
            if b is None: return f'unexpected new file {rel}'
            if rel in edited:
                if a[0] != printed[rel].encode(): return f'{rel} contains {a[0]!r} but the printed model is {printed[rel]!r}'
                # characters outside the edited fragment, including carriage returns, as on disk
                exp = b[0].replace(b'Assets:A', b'Assets:Edited', 1) if False else None
                old_lines, new_lines = b[0].split(b'\n'), a[0].split(b'\n')
                if len(old_lines) != len(new_lines): return f'{rel}: line structure changed {b[0]!r} -> {a[0]!r}'
                diff = [i for i, (x, y) in enumerate(zip(old_lines, new_lines)) if x != y]
                if len(diff) > 1: return f'{rel}: more than the edited line changed: {b[0]!r} -> {a[0]!r}'
                if (b'\r' in b[0]) != (b'\r' in a[0]) or b[0].count(b'\r') != a[0].count(b'\r'): return f'{rel}: carriage returns changed: {b[0]!r} -> {a[0]!r}'
            else:
                if a[0] != b[0]: return f'{rel} was not edited but its bytes changed'
                if a[1] != b[1]: return f'{rel} was not edited but was rewritten (mtime changed)'
        return None
    finally:
        os.chdir(cwd0); shutil.rmtree(BASE, ignore_errors=True)


def run(prop, tier, seed):
    rnd = random.Random(seed)
    rep = Report('editor_fs', __doc__.strip().replace('\n', ' ') + ' distinct by (graph, newline, spelling, action, recursive); all non-trivial', bound='6 include graphs, <= 4 files', exhaustive=True)
    for graph in GRAPHS:
        for nl in ('\n', '\r\n'):
            for how in ('absolute', 'relative', 'bare', 'dot', 'updown'):
                for action in ('none', 'edit-all', 'edit-one', 'remove-one', 'add-one', 'add-empty', 'add-empty-parsed', 'respell', 'raise'):
                    for recursive in (True, False):
                        if not recursive and (graph != 'single' or action in ('remove-one', 'add-one', 'add-empty', 'add-empty-parsed', 'respell')): continue
                        key = (graph, nl, how, action, recursive)
                        try: msg = case(*key)
                        except Exception: msg = 'driver error: ' + traceback.format_exc()[-600:]
                        rep.case(key, True, dict(graph=graph, nl=nl, spelling=how, action=action, recursive=recursive) if rnd.random() < 0.01 else None)
                        if msg: rep.fail(f'{action}:{how}:{"crlf" if nl != chr(10) else "lf"}:{re.sub("[0-9]+", "N", msg)[:60]}', f'{key}: {msg}', dict(key=list(key)))
    if not rep.d['samples']: rep.d['samples'].append(dict(graph='chain', nl='\n', spelling='bare', action='edit-one'))
    return rep


def replay_case(c):
    return case(*c['key'])


if __name__ == '__main__':
    main(run, replay_case)
