"""Bounded stand-in for C18: entries and postings x existing meta layouts {none, 2 spaces, tab, 4 spaces} x indent_by in {'', ' ', '  ', tab, 8 spaces}
x routes {meta[key] = value, raw item with its own indent, leading/trailing comment from a value} x histories of two steps with a layout change in between.
Oracle: an item created from a value takes the indent shared by the existing sibling items, else parent indent + indent_by (postings) / indent_by (entries);
a raw item keeps its indent verbatim; no existing line changes its indentation."""
import itertools, random, re, traceback
from autobean_refactor import parser as P, models
from rtc import tree
from drivers.common import Report, main

PARSER = P.Parser()
LAYOUTS = {'none': None, 'two': '  ', 'tab': '\t', 'four': '    '}
INDENT_BY = ['', ' ', '  ', '\t', ' ' * 8]


def doc(kind, layout, posting_indent='    '):
    ind = LAYOUTS[layout]
    if kind == 'entry':
        t = '2000-01-01 open Assets:Foo\n'
        if ind is not None: t += f'{ind}aa: 1\n{ind}bb: 2\n'
        return t
    t = f'2000-01-01 *\n{posting_indent}Assets:Foo  1 USD\n'
    if ind is not None: t += f'{posting_indent}{ind}aa: 1\n{posting_indent}{ind}bb: 2\n'
    t += f'{posting_indent}Assets:Bar\n'
    return t


def target(f, kind):
    d = f.raw_directives[0]
    return d if kind == 'entry' else d.raw_postings[0]


def line_indents(text):
    return [(re.match(r'[ \t]*', l).group(0), l.strip()) for l in text.split('\n') if l.strip()]


def expected_indent(m, kind):
    items = [x for x in m.raw_meta]
    if items:
        inds = {x.indent for x in items}
        if len(inds) == 1: return inds.pop()
        return None       # siblings do not share one indentation: the statement does not say which
    if kind == 'posting': return m.indent + m.indent_by
    return m.indent_by


def step(f, m, kind, action, k):
    """performs one step; returns error message or None"""
    before = line_indents(tree.store_text(f.token_store))
    if action == 'set-key':
        exp = expected_indent(m, kind)
        key = f'kx{k}'
        m.meta[key] = 'v'
        new = [x for x in m.raw_meta if x.key == key]
        if len(new) != 1: return f'meta[{key!r}] created {len(new)} items'
        if exp is not None and new[0].indent != exp: return f'new item created from a value has indent {new[0].indent!r}, expected {exp!r}'
    elif action.startswith('raw-'):
        ind = {'raw-tab': '\t', 'raw-three': '   ', 'raw-six': ' ' * 6}[action]
        item = models.MetaItem.from_value(f'kr{k}', 'r', indent=ind)
        m.raw_meta.append(item)
        if item.indent != ind: return f'inserted raw item changed its indent {ind!r} -> {item.indent!r}'
    elif action == 'clear':
        m.raw_meta.clear()
    elif action == 'indent-by':
        m.indent_by = INDENT_BY[k % len(INDENT_BY)]
    elif action == 'reindent' and kind == 'posting':
        m.indent = '  '
    elif action in ('leading', 'trailing'):
        existed = getattr(m, f'raw_{action}_comment') is not None
        setattr(m, action + '_comment', 'note')
        c = getattr(m, f'raw_{action}_comment')
        want = m.indent if kind == 'posting' else ''
        if c is not None and not existed and c.indent != want: return f'{action} comment created from a value has indent {c.indent!r}, expected {want!r}'
    after = line_indents(tree.store_text(f.token_store))
    # no existing line changes its indentation (lines are identified by their stripped text)
    bmap = {}
    for ind, body in before: bmap.setdefault(body, []).append(ind)
    amap = {}
    for ind, body in after: amap.setdefault(body, []).append(ind)
    for body, inds in bmap.items():
        if body in amap and action not in ('reindent', 'clear') and sorted(amap[body])[:len(inds)] != sorted(inds) and len(amap[body]) == len(inds):
            return f'existing line {body!r} changed its indentation {inds} -> {amap[body]}'
    v = tree.valid(f)
    if v: return 'tree invalid: ' + v
    return None


def case(kind, layout, indent_by, seq):
    pi = '    '
    if kind.startswith('posting:'): kind, pi = 'posting', kind.split(':', 1)[1]
    f = PARSER.parse(doc(kind, layout, pi), models.File)
    m = target(f, kind)
    m.indent_by = indent_by
    for k, action in enumerate(seq):
        try:
            msg = step(f, m, kind, action, k)
        except Exception as e:
            return f'{kind}/{layout}/{indent_by!r} {seq[:k + 1]}: raised {type(e).__name__}: {e}'
        if msg: return f'{kind}/{layout}/{indent_by!r} {seq[:k + 1]}: {msg}'
    # the result still parses and the new items are meta of the same parent
    text = tree.store_text(f.token_store)
    if m.indent_by != '' and indent_by != '' and 'raw' not in ''.join(seq) and 'indent-by' not in seq:
        try:
            g = PARSER.parse(text, models.File)
            if len(target(g, kind).raw_meta) != len(m.raw_meta): return f'{kind}/{layout}/{indent_by!r} {seq}: re-parse sees {len(target(g, kind).raw_meta)} meta items, model has {len(m.raw_meta)}; text {text!r}'
        except Exception as e:
            return f'{kind}/{layout}/{indent_by!r} {seq}: printed text does not parse ({type(e).__name__}); text {text!r}'
    return None


ACTIONS = ['set-key', 'raw-tab', 'raw-three', 'clear', 'indent-by', 'reindent', 'leading', 'trailing', 'raw-six']


def run(prop, tier, seed):
    rnd = random.Random(seed)
    rep = Report('indent', __doc__.strip().replace('\n', ' ') + ' distinct by (kind, layout, indent_by, action sequence); all non-trivial', bound='sequences of <= 3 steps (quick), <= 4 (thorough)')
    L = 3 if tier == 'quick' else 4
    for kind in ('entry', 'posting', 'posting:\t', 'posting: \t', 'posting:\t\t'):      # postings indented by blanks, a tab, mixed, two tabs
        for layout in LAYOUTS:
            for ib in INDENT_BY:
                seqs = [s for n in range(1, L + 1) for s in itertools.product(ACTIONS, repeat=n) if s[-1] in ('set-key', 'leading', 'trailing') or n == 1]
                if tier == 'quick': seqs = [s for s in seqs if len(s) <= 2 or rnd.random() < (0.25 if ':' not in kind else 0.05)]
                elif len(seqs) > 1500: seqs = rnd.sample(seqs, 1500)
                for seq in seqs:
                    key = (kind, layout, ib, seq)
                    try: msg = case(kind, layout, ib, seq)
                    except Exception: msg = 'driver error: ' + traceback.format_exc()[-500:]
                    rep.case(key, True, dict(kind=kind, layout=layout, indent_by=ib, seq=list(seq)) if rnd.random() < 0.0005 else None)
                    if msg: rep.fail(f'{kind}:{seq[-1]}:{re.sub("[0-9]+", "N", re.sub(chr(39) + "[^" + chr(39) + "]*" + chr(39), "S", msg.split(": ", 1)[-1]))[:70]}', msg, dict(key=[kind, layout, ib, list(seq)]))
    if not rep.d['samples']: rep.d['samples'].append(dict(note='see rule'))
    return rep


def replay_case(c):
    k = c['key']; return case(k[0], k[1], k[2], tuple(k[3]))


if __name__ == '__main__':
    main(run, replay_case)
