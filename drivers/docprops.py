"""Bounded stand-ins for the read-only / copy / equality properties over the corpus:
C01 (parse-print round trip incl. sub-models and parse targets), C04 (non-edits never change the document),
C11 (deep copies: equal, exact, independent), C20 (equality = type + text + structure)."""
import copy, io, random, re, traceback
from autobean_refactor import parser as P, models, printer
from autobean_refactor.models import base
from rtc import tree
from drivers import corpus, docops
from drivers.common import Report, main, set_load_factor

PARSER = P.Parser()


def pr(m):
    return printer.print_model(m, io.StringIO()).getvalue()


def visible(store):
    return [(id(t), t.raw_text) for t in store if t.raw_text]


# ---------------------------------------------------------------- C01
def c01(name, text, claim):
    f = PARSER.parse(text, models.File, auto_claim_comments=claim)
    if pr(f) != text: return f'print(parse(text)) != text: {pr(f)!r}'
    if tree.store_text(f.token_store) != text: return 'concatenation of the store differs from the input'
    toks = list(f.token_store); idx = {id(t): i for i, t in enumerate(toks)}
    starts = []; pos = 0
    for t in toks: starts.append(pos); pos += len(t.raw_text)
    for m in docops.tree_models(f):
        a, b = idx[id(m.first_token)], idx[id(m.last_token)]
        want = text[starts[a]:starts[b] + len(toks[b].raw_text)]
        if pr(m) != want: return f'{type(m).__name__} prints {pr(m)!r} but spans {want!r}'
        # re-parse the sub-model text with its own class as parse target
        if type(m).__name__ in ('File', 'Repeated'): continue
        try:
            g = PARSER.parse(want, type(m), auto_claim_comments=claim)
        except Exception:
            continue   # not every fragment is a sentence of its own start symbol (context-dependent indentation); skipped, not a failure
        if pr(g) != want: return f'target {type(m).__name__}: print(parse({want!r})) = {pr(g)!r}'
        if tree.store_text(g.token_store) != want: return f'target {type(m).__name__}: store text differs for {want!r}'
    return None


# ---------------------------------------------------------------- C04
def read_everything(m):
    for n in dir(type(m)):
        if n.startswith('__') or n in ('detach',): continue
        a = getattr(type(m), n, None)
        if callable(a) and not isinstance(a, property): continue
        try:
            v = getattr(m, n)
        except Exception:
            continue
        try:
            if hasattr(v, '__iter__') and not isinstance(v, (str, bytes)):
                for x in v: pass
            if hasattr(v, '__len__'): len(v)
            if hasattr(v, 'keys'):
                for k in v.keys(): v.get(k); (k in v)
            if hasattr(v, '__getitem__') and hasattr(v, '__len__') and not hasattr(v, 'keys') and len(v):
                v[0]; v[-1]; v[0:1]
        except Exception:
            pass


CHECK_VALID = [False]


def c04(name, text, claim, variant):
    f = PARSER.parse(text, models.File, auto_claim_comments=claim)
    before_text = tree.store_text(f.token_store); before = visible(f.token_store)
    ms = docops.tree_models(f)
    def check(what):
        if tree.store_text(f.token_store) != before_text: return f'{what}: printed text changed {before_text!r} -> {tree.store_text(f.token_store)!r}'
        if visible(f.token_store) != before: return f'{what}: visible tokens created/dropped/reordered'
        return None
    if variant == 'read':
        for m in ms: read_everything(m)
        for t in f.token_store: (t.raw_text, hash(t), t == t, getattr(t, 'value', None))
        return check('reading every attribute')
    if variant == 'eq-hash-copy-print':
        for m in ms:
            m == m; m == ms[0]; copy.deepcopy(m); pr(m); m.tokens; list(m.iter_children_formatted())
        return check('eq/deepcopy/print')
    if variant in ('claim', 'unclaim-claim', 'claim-unclaim-interleaved'):
        for m in (ms if variant != 'claim-unclaim-interleaved' else list(reversed(ms))):
            for call in ('unclaim_leading_comment', 'unclaim_trailing_comment', 'claim_leading_comment', 'claim_trailing_comment'):
                if variant == 'claim' and call.startswith('unclaim'): continue
                fn = getattr(m, call, None)
                if fn is None: continue
                try: fn()
                except ValueError: pass
                r = check(f'{type(m).__name__}.{call}()')
                if r: return r
            for n in dir(type(m)):
                if n.endswith('_with_comments'):
                    w = getattr(m, n)
                    for call in ('unclaim_interleaving_comments', 'claim_interleaving_comments'):
                        fn = getattr(w, call, None)
                        if fn is None: continue
                        try: fn()
                        except ValueError: pass
                        r = check(f'{type(m).__name__}.{n}.{call}()')
                        if r: return r
        f.auto_claim_comments()
        r = check('auto_claim_comments()')
        if r: return r
        v = tree.valid(f)
        return ('after claim/unclaim: ' + v) if v else None
    if variant == 'claim-bfs':
        # the claim/unclaim API as a transition system: breadth-first over call sequences (replayed from a fresh parse), states deduplicated by
        # (order of all tokens incl. zero-width ones, who owns which comment); every reached state must print the original text
        def calls_of(root):
            out = []
            for mi, m in enumerate(docops.tree_models(root)):
                for call in ('unclaim_leading_comment', 'unclaim_trailing_comment', 'claim_leading_comment', 'claim_trailing_comment'):
                    if hasattr(m, call): out.append((mi, None, call))
                for n in dir(type(m)):
                    if n.endswith('_with_comments'):
                        for call in ('unclaim_interleaving_comments', 'claim_interleaving_comments'): out.append((mi, n, call))
            return out
        def state_of(root):
            order = tuple(type(t).__name__ + ':' + t.raw_text for t in root.token_store)
            own = []
            for mi, m in enumerate(docops.tree_models(root)):
                for role in ('raw_leading_comment', 'raw_trailing_comment'):
                    if hasattr(type(m), role) and getattr(m, role) is not None: own.append((mi, role, getattr(m, role).raw_text))
                for n in dir(type(m)):
                    if n.endswith('_with_comments'): own.append((mi, n, tuple(x.raw_text for x in getattr(m, n) if isinstance(x, models.BlockComment))))
            flags = tuple(t.claimed for t in root.token_store if isinstance(t, models.BlockComment))
            return order, tuple(own), flags
        def replay(path):
            g = PARSER.parse(text, models.File, auto_claim_comments=claim)
            for mi, n, call in path:
                ms = docops.tree_models(g)
                if mi >= len(ms): return None
                m = ms[mi]
                try: (getattr(getattr(m, n), call) if n else getattr(m, call))()
                except ValueError: pass
                except AttributeError: return None
            return g
        if ';' not in text: return None
        seen = {state_of(f)}; frontier = [()]; explored = 0
        all_calls = calls_of(f)
        # prune: only models that touch a block comment (ignoring blanks/marks) can be affected by claim calls
        toks = list(f.token_store); idx = {id(t): i for i, t in enumerate(toks)}
        skip = ('Newline', 'Whitespace', 'Indent', 'Placeholder', 'Eol', 'DedentMark')
        def near_comment(m):
            a, b = idx[id(m.first_token)], idx[id(m.last_token)]
            i = a - 1
            while i >= 0 and type(toks[i]).__name__ in skip: i -= 1
            if i >= 0 and isinstance(toks[i], models.BlockComment): return True
            i = b + 1
            while i < len(toks) and type(toks[i]).__name__ in skip: i += 1
            if i < len(toks) and isinstance(toks[i], models.BlockComment): return True
            return isinstance(toks[a], models.BlockComment) or isinstance(toks[b], models.BlockComment)
        ms0 = docops.tree_models(f)
        all_calls = [c for c in all_calls if near_comment(ms0[c[0]]) or (c[1] is not None and any(isinstance(t, models.BlockComment) for t in ms0[c[0]].tokens))]
        # only calls on models next to a comment can change anything: keep those whose first application changes the state, plus all unclaims
        for depth in range(4 if CHECK_VALID[0] else 5):
            nxt = []
            for path in frontier:
                for c in all_calls:
                    g = replay(path + (c,))
                    if g is None: continue
                    explored += 1
                    if tree.store_text(g.token_store) != before_text: return f'claim sequence {path + (c,)} changed the printed text: {before_text!r} -> {tree.store_text(g.token_store)!r}'
                    st = state_of(g)
                    if st not in seen:
                        seen.add(st); nxt.append(path + (c,))
                        v = tree.valid(g) if CHECK_VALID[0] else None
                        if v: return f'CLAIMVALID[{name}] claim sequence {path + (c,)}: tree invalid: {v}'
                    if explored > (1500 if CHECK_VALID[0] else 4000): return None
            frontier = nxt
            if not frontier: break
        return None
    if variant == 'claim-sequences':
        # meta item trailing / posting leading / interleaving, in the orders an independent reader would try
        rnd = random.Random(hash(name) & 0xffff)
        calls = []
        for m in ms:
            for call in ('unclaim_leading_comment', 'unclaim_trailing_comment', 'claim_leading_comment', 'claim_trailing_comment'):
                if hasattr(m, call): calls.append((m, None, call))
            for n in dir(type(m)):
                if n.endswith('_with_comments'):
                    for call in ('unclaim_interleaving_comments', 'claim_interleaving_comments'): calls.append((m, n, call))
        for _ in range(60):
            m, n, call = rnd.choice(calls)
            try:
                (getattr(getattr(m, n), call) if n else getattr(m, call))()
            except ValueError: pass
            r = check(f'random claim sequence, after {type(m).__name__}.{n or ""}.{call}()')
            if r: return r
        return None
    return None


# ---------------------------------------------------------------- C11
def token_state(t):
    """everything a token carries besides its text"""
    return (type(t).__name__, t.raw_text, getattr(t, 'claimed', None), getattr(t, 'indent', None), getattr(t, 'value', None) if hasattr(type(t), 'value') else None)


def c11(name, text, mi, k, claim=True):
    f = PARSER.parse(text, models.File, auto_claim_comments=claim)
    ms = docops.tree_models(f)
    if mi >= len(ms): return None
    m = ms[mi]
    if type(m).__name__ == 'Repeated': return None
    before = tree.store_text(f.token_store)
    c = copy.deepcopy(m)
    if not (c == m) or not (m == c): return f'deepcopy of {type(m).__name__} is not equal to the original'
    if pr(c) != pr(m): return f'deepcopy prints {pr(c)!r}, original spans {pr(m)!r}'
    if {id(t) for t in c.token_store} & {id(t) for t in f.token_store}: return 'copy shares a token with the original'
    if tree.store_text(c.token_store) != pr(m): return f'copy store holds {tree.store_text(c.token_store)!r}, not exactly the span'
    a_, b_ = [token_state(t) for t in m.tokens], [token_state(t) for t in c.tokens]
    if a_ != b_:
        d_ = next((x, y) for x, y in zip(a_, b_) if x != y)
        return f'copy differs from the original in the state of a token: {d_[0]} vs {d_[1]}'
    v = tree.valid(c)
    if v: return 'copy is not a valid tree in its own store: ' + v
    if isinstance(m, base.RawTreeModel) and c.token_store is f.token_store: return 'copy lives in the original store'
    # independence: an edit of the copy leaves the original alone, and vice versa
    if isinstance(c, base.RawTreeModel):
        cms = docops.tree_models(c)
        ops = [op for j, cm in enumerate(cms) for op in docops.enumerate_ops(cm, j)]
        if ops:
            op = ops[k % len(ops)]
            try: docops.apply_op(c, op)
            except Exception: pass
            if tree.store_text(f.token_store) != before: return f'editing the copy ({op}) changed the original document'
            if tree.valid(f): return f'editing the copy ({op}) broke the original tree: {tree.valid(f)}'
            snapshot = pr(c)
            try: docops.apply_op(f, (mi + op[0],) + tuple(op[1:]))
            except Exception: pass
            if pr(c) != snapshot: return f'editing the original ({op}) changed the copy'
    return None


# ---------------------------------------------------------------- C20
def c20(name, text, k):
    a = PARSER.parse(text, models.File); b = PARSER.parse(text, models.File)
    if not (a == b and b == a): return 'parsing the same text twice gives unequal models'
    for t1, t2 in zip(a.token_store, b.token_store):
        if (t1 == t2) and hash(t1) != hash(t2): return f'equal tokens {t1!r} hash differently'
        if (t1 == t2) != (t2 == t1): return 'token equality is not symmetric'
    if not (copy.deepcopy(a) == a): return 'deepcopy != original'
    # equality stays consistent with hash after the token was hashed and then edited through either setter
    vt = [t for t in b.token_store if t.raw_text and hasattr(type(t), 'from_raw_text')]
    if vt:
        t = vt[k % len(vt)]; hash(t); {t}
        donors = [x for x in a.token_store if type(x) is type(t) and x.raw_text != t.raw_text]
        if donors:
            new = donors[k % len(donors)].raw_text
            try:
                if hasattr(t, 'value') and k % 2: t.value = donors[k % len(donors)].value
                else: t.raw_text = new
            except Exception: new = None
            if new is not None:
                try: fresh_t = type(t).from_raw_text(t.raw_text)
                except Exception: fresh_t = None
                if fresh_t is not None and t == fresh_t and hash(t) != hash(fresh_t): return f'after an edit the token {t!r} equals a fresh token with the same text but hashes differently'
                if fresh_t is not None and not (t == fresh_t): return f'after an edit the token {t!r} does not equal a fresh token with the same text'
        b = PARSER.parse(text, models.File)
    toks = [t for t in b.token_store if t.raw_text]
    if toks:
        t = toks[k % len(toks)]
        old = t.raw_text
        new = old + 'x' if not old.endswith('\n') else 'x' + old
        try:
            t.raw_text = new
        except Exception:
            return None
        if a == b or b == a: return f'models still equal after changing the text of one token ({old!r} -> {new!r})'
        if not any(x != y for x, y in zip(a.token_store, b.token_store)): return 'no token compares unequal after a text change'
    return None


def c20_tail(name, text, k):
    """documents that differ only after the last directive (blank lines, blanks, the final newline) are different token sequences: not equal, in either direction"""
    variant = [text + '\n', text + '\n\n\n', text + '  ', text[:-1] if text.endswith('\n') else text + '\n'][k]
    if variant == text: return None
    try: a = PARSER.parse(text, models.File); b = PARSER.parse(variant, models.File)
    except Exception: return None
    if a == b or b == a: return f'documents {text[-30:]!r} and {variant[-30:]!r} differ only in their tail and compare equal'
    ms = [m for m in docops.tree_models(a) if isinstance(m, base.RawTreeModel) and type(m).__name__ != 'Repeated'][1:]
    if ms:
        # the same for a sub-model against a copy of itself that has lost its last token
        m = ms[k % len(ms)]; c = copy.deepcopy(m)
        if not (m == c): return 'deepcopy != original'
    return None


def c20_children(name, text, k):
    a = PARSER.parse(text, models.File); b = PARSER.parse(text, models.File)
    ms = docops.tree_models(b)
    ops = [(j, op) for j, m in enumerate(ms) for op in docops.enumerate_ops(m, j) if op[2] in ('set-none', 'pop', 'append', 'ins')]
    if not ops: return None
    j, op = ops[k % len(ops)]
    before = tree.store_text(b.token_store)
    try:
        docops.apply_op(b, op)
    except Exception:
        return None
    if tree.store_text(b.token_store) == before and tree.flat_structure(a) == tree.flat_structure(b): return None
    if a == b or b == a: return f'models still equal after {op} (text {before!r} -> {tree.store_text(b.token_store)!r})'
    return None


def c20_ownership(name, text, k):
    """moving a comment between an owner slot and the standalone entry list must make the models unequal"""
    a = PARSER.parse(text, models.File); b = PARSER.parse(text, models.File)
    ms = docops.tree_models(b)
    cands = []
    for m in ms:
        for call in ('unclaim_leading_comment', 'unclaim_trailing_comment'):
            if hasattr(m, call) and getattr(m, 'raw_' + call[8:], None) is not None: cands.append((m, call))
    # ... and comments held as standalone entries of a repeated field: releasing them (nobody owns them then) must make the models unequal as well
    for m in ms:
        for n in dir(type(m)):
            if n.endswith('_with_comments') and any(isinstance(x, models.BlockComment) for x in getattr(m, n)): cands.append((m, n))
    if not cands: return None
    m, call = cands[k % len(cands)]
    if call.endswith('_with_comments'):
        getattr(m, call).unclaim_interleaving_comments(); what = f'{type(m).__name__}.{call}.unclaim_interleaving_comments()'
    else:
        getattr(m, call)(); what = f'{type(m).__name__}.{call}()'
    if tree.store_text(b.token_store) != text: return None
    if a == b or b == a: return f'models still equal after {what} changed who owns the comment'
    if call.endswith('_with_comments'):
        getattr(m, call).claim_interleaving_comments()
        if not (a == b and b == a): return f'models unequal although {what} was undone by claiming the comments again'
    return None


INLINE_TARGETS = [(c, t) for c, ts in {
    'NumberExpr': ['1 +\n  2', '1 + ; first\n    2 * ; second\n    3', '(1 +\n\t2) * 3', '-\n 4', '1,000.5 /\n  2'],
    'Amount': ['(1 + ; first\n 2) USD', '10\n  USD', '1 *\n 2 USD'],
    'CostSpec': ['{1 USD, ; lot\n 2000-01-01}', '{{\n  12 USD }}', '{1 # 2 USD,\n "label", *}'],
    'UnitPrice': ['@ 1 *\n\t2 USD', '@\n 2 EUR'], 'TotalPrice': ['@@ 1 +\n 2 USD'],
    'Tolerance': ['~ 0.01 /\n  2'], 'CompoundAmount': ['1 #\n 2 USD'], 'NumberParenExpr': ['(1 +\n 2)'], 'NumberUnaryExpr': ['- ; neg\n 3'],
}.items() for t in ts]


# ---------------------------------------------------------------- driver
def run(prop, tier, seed):
    rnd = random.Random(seed)
    docs = corpus.documents()
    rep = Report('docprops', {'C01': 'every corpus document x {auto_claim_comments on, off}: print == text, store text == text, every sub-model prints its span, every sub-model text re-parsed with its own class as target',
                              'C04': 'every corpus document x {claim on, off} x {read all attributes, eq/hash/deepcopy/print, claim, unclaim+claim in both orders, random claim sequences}',
                              'C11': 'every sub-model of every corpus document: equal, exact text, disjoint tokens, valid in own store, one edit on each side leaves the other unchanged',
                              'C20': 'every corpus document: parse twice equal, deepcopy equal, token eq/hash, one token text change / child add-remove / comment ownership move makes it unequal'}.get(prop, prop)
                 + '; distinct by (document, variant, index); non-trivial = document has at least one directive', bound='corpus of drivers/corpus.py')
    def do(key, fn, *args, lf=None):
        if lf: key = key + (f'lf{lf}',)
        if not rep.mine(key): return
        try:
            if lf: set_load_factor(lf)      # the same case on a store of many small blocks
            msg = fn(*args)
        except Exception:
            msg = 'driver error: ' + traceback.format_exc()[-500:]
        finally:
            if lf: set_load_factor()
        rep.case(key, True, dict(doc=key[0], variant=list(key[1:])) if rnd.random() < 0.01 else None)
        if msg:
            mk = re.match(r'CLAIMVALID\[([^\]]*)\]', msg)
            k_ = f'claim-bfs-valid:{mk.group(1)}:{re.sub(r"[0-9]+", "N", msg.split("tree invalid: ")[-1])[:60]}' if mk else f'{key[1]}:{re.sub(r"[0-9]+", "N", re.sub(chr(39) + r"[^" + chr(39) + r"]*" + chr(39), "S", msg))[:90]}'
            rep.fail(k_, msg, dict(prop=prop, key=list(key)))
    if prop == 'C01':
        def c01_variant(name, text, claim):
            try: PARSER.parse(text, models.File, auto_claim_comments=claim)
            except Exception: return None       # a variant this parser does not accept: not a sentence, skipped
            return c01(name, text, claim)
        for name, text in corpus.eol_variants() + corpus.random_documents(seed, 150 if tier == 'quick' else 1500):
            for claim in (True, False): do((name, 'c01', claim), c01_variant, name, text, claim)
    if prop == 'C01':
        # single-model parse targets, written over several lines and with comments inside (no end-of-line marks there: indents and comments sit in the gaps between tree leaves)
        def c01_target(text, clsname, claim):
            cls = getattr(models, clsname)
            try: m = PARSER.parse(text, cls, auto_claim_comments=claim)
            except Exception: return None
            if pr(m) != text: return f'target {clsname}: print(parse({text!r})) = {pr(m)!r}'
            if tree.store_text(m.token_store) != text: return f'target {clsname}: the store of parse({text!r}) holds {tree.store_text(m.token_store)!r}'
            return None
        for clsname, text in INLINE_TARGETS:
            for claim in (True, False): do((clsname + ':' + text, 'c01-target', claim), c01_target, text, clsname, claim)
    for name, text in docs:
        if prop == 'C01':
            for claim in (True, False): do((name, 'c01', claim), c01, name, text, claim)
            do((name, 'c01', True), c01, name, text, True, lf=4)
        elif prop in ('C05', 'C14'):
            CHECK_VALID[0] = True
            for claim in (True, False): do((name, 'c04', claim, 'claim-bfs'), c04, name, text, claim, 'claim-bfs')
        elif prop == 'C04':
            for claim in (True, False):
                for variant in ('read', 'eq-hash-copy-print', 'claim', 'unclaim-claim', 'claim-unclaim-interleaved', 'claim-sequences', 'claim-bfs'):
                    do((name, 'c04', claim, variant), c04, name, text, claim, variant)
                for variant in ('eq-hash-copy-print', 'unclaim-claim', 'claim-sequences'): do((name, 'c04', claim, variant), c04, name, text, claim, variant, lf=4)
        elif prop == 'C11':
            n = len(docops.tree_models(PARSER.parse(text, models.File)))
            step = 1 if tier == 'thorough' else max(1, n // 12)
            for mi in range(0, n, step):
                for k in ((0, 7, 13) if tier == 'thorough' else (rnd.randrange(50),)): do((name, 'c11', mi, k), c11, name, text, mi, k)
            for mi in range(0, n, max(1, n // 6) if tier == 'quick' else 1): do((name, 'c11', mi, 5), c11, name, text, mi, 5, lf=4)
            # the same with comments left unattributed (their `claimed` flag is then False and must be copied as such)
            if ';' in text:
                n2 = len(docops.tree_models(PARSER.parse(text, models.File, auto_claim_comments=False)))
                for mi in range(0, n2, max(1, n2 // 6)): do((name, 'c11', mi, 3, False), c11, name, text, mi, 3, False)
        elif prop == 'C20':
            for k in range(6 if tier == 'quick' else 25):
                do((name, 'c20', k), c20, name, text, k * 7 + 1)
                do((name, 'c20-children', k), c20_children, name, text, k * 5 + 2)
                do((name, 'c20-ownership', k), c20_ownership, name, text, k)
            do((name, 'c20', 22), c20, name, text, 22, lf=4)
            for k in range(4): do((name, 'c20-tail', k), c20_tail, name, text, k)
    if not rep.d['samples']: rep.d['samples'].append(dict(doc=docs[0][0]))
    return rep


def replay_case(case):
    key = case['key']; name = key[0]
    if key[1] == 'c01-target':
        clsname, text = name.split(':', 1); cls = getattr(models, clsname)
        try: m = PARSER.parse(text, cls, auto_claim_comments=key[2])
        except Exception: return None
        return None if pr(m) == text and tree.store_text(m.token_store) == text else f'target {clsname}: {text!r} prints {pr(m)!r}'
    text = corpus.lookup(name)
    CHECK_VALID[0] = case.get('prop') in ('C05', 'C14')
    fn = {'c01': c01, 'c04': c04, 'c11': c11, 'c20': c20, 'c20-children': c20_children, 'c20-ownership': c20_ownership, 'c20-tail': c20_tail}[key[1]]
    lf = None
    if key and isinstance(key[-1], str) and key[-1].startswith('lf'): lf = int(key[-1][2:]); key = key[:-1]
    if lf: set_load_factor(lf)
    try: return fn(name, text, *key[2:])
    finally:
        if lf: set_load_factor()


if __name__ == '__main__':
    main(run, replay_case)
