"""Bounded stand-in for C15: every tree-model class with from_value: all subsets of the optional arguments (exhaustive per class up to 256 subsets, sampled beyond)
with representative in-domain values (strings needing escapes, negative numbers, consecutive custom numbers, empty and 2-element lists, meta, comments).
Oracle: the constructed model prints to text that parse(target=class) accepts; the parsed model equals the constructed one (same fields/values/structure: == and flat structure);
the constructed tree is Valid; assembled into a File the document parses back to the same directives."""
import datetime, decimal, inspect, itertools, random, re, traceback, typing
from decimal import Decimal as D
from autobean_refactor import parser as P, models
from autobean_refactor.models import base
from rtc import tree
from drivers.common import Report, main

PARSER = P.Parser()


def posting(i=0):
    return models.Posting.from_value('Assets:Foo' if i == 0 else 'Assets:Bar', D('-1.5') if i else D('10'), 'USD')


VALUES = {
    'date': [datetime.date(2000, 1, 2)], 'account': ['Assets:Foo'], 'source_account': ['Equity:Open'], 'currency': ['USD'], 'currencies': [[], ['USD', 'EUR']],
    'number': [D('12.50'), D('-3')], 'number_per': [D('2')], 'number_total': [D('20')], 'tolerance': [D('0.01')], 'booking': ['STRICT'],
    'comment': ['he said "hi"\\'], 'narration': ['narr "q"'], 'payee': ['payee'], 'description': ['desc'], 'name': ['name'], 'query_string': ['SELECT 1'],
    'type': ['budget'], 'filename': ['/a b.pdf'], 'config': ['cfg'], 'key': ['title'], 'value': ['val'], 'tag': ['trip'], 'tags': [[], ['t1', 't2']], 'links': [[], ['l1']],
    'leading_comment': ['lead', 'a\n \nb'], 'trailing_comment': ['trail', 'x\n\t\ny'], 'inline_comment': ['inline', 'to do ', 'aligned\t'], 'flag': ['*', '!'], 'indent_by': ['    ', '\t'],
    'meta': [{}, {'aa': 'v', 'bb': D('1.5'), 'cc': datetime.date(2000, 1, 1)}], 'postings': [[posting(0), posting(1)]], 'label': ['lbl'], 'merge': [True, False],
    'values': [[], [D('1'), D('-2'), 'Assets:Foo', True, 's'], [D('10'), D('-2'), D('-3')], [D('1'), D('-2'), models.Amount.from_value(D('-3'), 'USD')]], 'amount': None, 'indent': ['    '], 'cost': None, 'price': None, 'total_price': None, 'unit_price': None,
    'inner_expr': None, 'operand': None, 'unary_op': ['-'], 'components': None, 'directives': None,
}


def candidates(cls):
    try: sig = inspect.signature(cls.from_value)
    except (TypeError, ValueError): return None
    params = []
    for n, p in sig.parameters.items():
        vals = VALUES.get(n)
        optional = p.default is not inspect.Parameter.empty or 'Optional' in str(p.annotation)
        if vals is None:
            if n == 'cost': vals = [models.CostSpec.from_value(D('2'), None, 'GBP')]
            elif n == 'price': vals = [models.UnitPrice.from_value(D('3'), 'GBP'), models.TotalPrice.from_value(D('30'), 'GBP')]
            elif n == 'amount': vals = [models.Amount.from_value(D('1.2'), 'EUR')]
            elif p.default is not inspect.Parameter.empty: vals = [p.default]
            else: return None
        params.append((n, p, vals, optional))
    return params


def fresh(v):
    """values holding models must be rebuilt for every construction (a model can be used once)"""
    if isinstance(v, list) and v and isinstance(v[0], base.RawModel): return [posting(i) for i in range(len(v))]
    if isinstance(v, list) and any(isinstance(x, models.Amount) for x in v): return [models.Amount.from_value(x.number, x.currency) if isinstance(x, models.Amount) else x for x in v]
    if isinstance(v, models.CostSpec): return models.CostSpec.from_value(D('2'), None, 'GBP')
    if isinstance(v, models.UnitPrice): return models.UnitPrice.from_value(D('3'), 'GBP')
    if isinstance(v, models.TotalPrice): return models.TotalPrice.from_value(D('30'), 'GBP')
    if isinstance(v, models.Amount): return models.Amount.from_value(D('1.2'), 'EUR')
    return v


def build(cls, params, choice):
    kwargs = {}
    for (n, p, vals, optional), c in zip(params, choice):
        if c == 'none':
            if p.default is inspect.Parameter.empty: kwargs[n] = None
            continue
        kwargs[n] = fresh(vals[c])
    return cls.from_value(**kwargs), kwargs


def case(cls, params, choice):
    try:
        m, kwargs = build(cls, params, choice)
    except ValueError as e:
        return None, False      # documented rejection of an argument combination
    except TypeError as e:
        return None, False
    text = tree.model_text(m)
    desc = f'{cls.__name__}.from_value({ {k: v for k, v in kwargs.items() if not isinstance(v, (list, dict)) or v} !r:.300})'
    v = tree.valid(m)
    if v: return f'{desc}: constructed tree invalid: {v}', True
    try:
        g = PARSER.parse(text, cls)
    except Exception as e:
        return f'{desc}: printed text {text!r} is not accepted by parse(target={cls.__name__}): {type(e).__name__}: {str(e)[:100]}', True
    if tree.model_text(g) != text: return f'{desc}: re-parse prints differently', True
    if tree.flat_structure(g) != tree.flat_structure(m): return f'{desc}: parsed structure differs from the constructed one; text {text!r}', True
    # value-level fields read the same
    for n in kwargs:
        if n in ('indent_by', 'meta', 'postings', 'cost', 'price', 'values', 'amount'): continue
        if hasattr(type(m), n):
            try: a, b = getattr(m, n), getattr(g, n)
            except Exception: continue
            la = list(a) if hasattr(a, '__iter__') and not isinstance(a, str) else a
            lb = list(b) if hasattr(b, '__iter__') and not isinstance(b, str) else b
            if la != lb: return f'{desc}: field {n} reads {la!r} on the constructed model but {lb!r} after re-parse', True
            if not isinstance(kwargs[n], (list, dict)) and kwargs[n] is not None and la != kwargs[n] and n not in ('flag',): return f'{desc}: field {n} reads {la!r}, constructed from {kwargs[n]!r}', True
    # assembled into a file
    if cls.__name__ not in ('File',) and hasattr(models, 'File') and isinstance(m, tuple(models.Directive.__args__ if hasattr(models, 'Directive') and hasattr(models.Directive, '__args__') else ())):
        try:
            f = models.File.from_children([m])
            ft = tree.model_text(f)
            h = PARSER.parse(ft, models.File)
            if tree.flat_structure(h) != tree.flat_structure(f): return f'{desc}: assembled into a File the re-parse differs; text {ft!r}', True
            vv = tree.valid(f)
            if vv: return f'{desc}: File assembled from it is invalid: {vv}', True
        except Exception as e:
            return f'{desc}: assembling into a File failed: {type(e).__name__}: {str(e)[:120]}', True
    return None, True


def rebuild_case(docname, mi):
    """from_children of the class of an existing model, fed with deep copies of that model's own children: the result is a valid tree of one store, every child
    lives in that store, and it prints to text that parses back to the same structure as the original model (spacing aside)"""
    import copy
    from drivers import docops, corpus
    f = PARSER.parse(corpus.lookup(docname), models.File)
    ms = docops.tree_models(f)
    if mi >= len(ms): return None, False
    m = ms[mi]; cls = type(m)
    fc = getattr(cls, 'from_children', None)
    if fc is None or cls.__name__ in ('File', 'Repeated'): return None, False
    try: sig = inspect.signature(fc)
    except (TypeError, ValueError): return None, False
    kwargs = {}
    for n, p in sig.parameters.items():
        if n == 'indent_by':
            kwargs[n] = getattr(m, 'indent_by', '    '); continue
        if not hasattr(cls, 'raw_' + n): 
            if p.default is inspect.Parameter.empty: return None, False
            continue
        v = getattr(m, 'raw_' + n)
        if v is None: kwargs[n] = None
        elif isinstance(v, base.RawModel): kwargs[n] = copy.deepcopy(v)
        else:
            try: kwargs[n] = [copy.deepcopy(x) for x in v]
            except TypeError: return None, False
    desc = f'{cls.__name__}.from_children(<copies of the children of {tree.model_text(m)!r:.80}>)'
    try: r = fc(**kwargs)
    except (ValueError, TypeError, AssertionError): return None, False
    v = tree.valid(r)
    if v: return f'{desc}: constructed tree invalid: {v}', True
    for n, a in kwargs.items():
        for x in (a if isinstance(a, list) else [a]):
            if isinstance(x, base.RawTreeModel) and x.token_store is not r.token_store: return f'{desc}: child {n} ({type(x).__name__}) was not moved into the store of the new model', True
            if isinstance(x, base.RawTreeModel) and tree.valid(x, r.token_store, n): return f'{desc}: child {n} is not a valid subtree of the new store: {tree.valid(x, r.token_store, n)}', True
    text = tree.model_text(r)
    if tree.store_text(r.token_store) != text: return f'{desc}: the new store holds other text than the model prints', True
    if tree.flat_structure(r) != tree.flat_structure(m): return f'{desc}: structure differs from the model the children were copied from; text {text!r}', True
    try: g = PARSER.parse(text, cls)
    except Exception: return None, True      # not every class is a start symbol of its own (checked through from_value / File assembly elsewhere)
    if tree.flat_structure(g) != tree.flat_structure(r): return f'{desc}: parsed structure differs from the constructed one; text {text!r}', True
    return None, True


def run(prop, tier, seed):
    rnd = random.Random(seed)
    rep = Report('constructors', __doc__.strip().replace('\n', ' ') + ' distinct by (class, argument choice); non-trivial = the argument combination is accepted', bound='representative values, all presence subsets (<= 256 per class in quick)')
    covered, skipped = [], []
    for name, cls in sorted(models.TREE_MODELS.items(), key=lambda kv: kv[1].__name__):
        if not hasattr(cls, 'from_value'): skipped.append(cls.__name__); continue
        params = candidates(cls)
        if params is None: skipped.append(cls.__name__); continue
        covered.append(cls.__name__)
        options = []
        for n, p, vals, optional in params:
            o = list(range(len(vals)))
            if optional and n not in ('indent_by', 'flag', 'merge'): o = ['none'] + o
            options.append(o)
        allc = list(itertools.product(*options))
        cap = 256 if tier == 'quick' else 4096
        if len(allc) > cap: allc = rnd.sample(allc, cap)
        for choice in allc:
            key = (cls.__name__, choice)
            try: msg, nt = case(cls, params, choice)
            except Exception: msg, nt = 'driver error: ' + traceback.format_exc()[-600:], True
            rep.case(key, nt, dict(cls=cls.__name__, choice=[str(c) for c in choice]) if rnd.random() < 0.002 else None)
            if msg: rep.fail(f'{cls.__name__}:{re.sub("[0-9]+", "N", re.sub(chr(39) + "[^" + chr(39) + "]*" + chr(39), "S", msg.split(": ", 1)[-1]))[:80]}', msg, dict(cls=cls.__name__, choice=list(choice)))
    # from_children over copies of the children of every model of a few corpus documents (incl. the hand-written number expression classes)
    from drivers import docops, corpus
    names = ['txn2', 'txn3', 'open3', 'balance1', 'custom1', 'zero-numbers', 'bare-costs', 'meta-amount', 'document1', 'note1'] if tier == 'quick' else [d[0] for d in corpus.documents() if '+lead' not in d[0]]
    for dn in names:
        try: n_models = len(docops.tree_models(PARSER.parse(corpus.lookup(dn), models.File)))
        except Exception: continue
        for mi in range(n_models):
            key = ('rebuild', dn, mi)
            if not rep.mine(key): continue
            try: msg, nt = rebuild_case(dn, mi)
            except Exception: msg, nt = 'driver error: ' + traceback.format_exc()[-600:], True
            rep.case(key, nt)
            if msg: rep.fail('rebuild:' + re.sub("[0-9]+", "N", re.sub(chr(39) + "[^" + chr(39) + "]*" + chr(39), "S", msg.split(": ", 1)[-1]))[:80], msg, dict(rebuild=[dn, mi]))
    rep.d['classes_covered'] = covered; rep.d['classes_without_from_value_or_values'] = skipped
    if not rep.d['samples']: rep.d['samples'].append(dict(note='see rule'))
    return rep


def replay_case(c):
    if 'rebuild' in c: return rebuild_case(*c['rebuild'])[0]
    cls = getattr(models, c['cls']); params = candidates(cls)
    return case(cls, params, tuple(c['choice']))[0]


if __name__ == '__main__':
    main(run, replay_case)
