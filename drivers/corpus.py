"""Grammar-directed corpus of small beancount documents: every directive kind, optional parts present/absent,
comments in several positions, meta, LF/CRLF."""
import itertools

DIRECTIVES = {
 'option': ['option "title" "Ledger"\n'],
 'include': ['include "a.bean"\n'],
 'plugin': ['plugin "mod"\n', 'plugin "mod" "cfg"\n'],
 'pushtag': ['pushtag #trip\n'], 'poptag': ['poptag #trip\n'],
 'pushmeta': ['pushmeta kk: "v"\n', 'pushmeta kk:\n'], 'popmeta': ['popmeta kk:\n'],
 'open': ['2000-01-01 open Assets:Foo\n', '2000-01-01 open Assets:Foo USD\n', '2000-01-01 open Assets:Foo USD, EUR "STRICT" ; c\n',
          '2000-01-01 open Assets:Foo USD,EUR\n    kk: "v"\n    ; mc\n    nn: 1.5 USD\n'],
 'close': ['2000-01-02 close Assets:Foo\n', '2000-01-02 close Assets:Foo ; bye\n    kk: TRUE\n'],
 'commodity': ['2000-01-01 commodity USD\n', '2000-01-01 commodity USD\n    name: "Dollar"\n'],
 'pad': ['2000-01-03 pad Assets:Foo Equity:Open\n'],
 'balance': ['2000-01-04 balance Assets:Foo 10.00 USD\n', '2000-01-04 balance Assets:Foo 10 * 2.5 ~ 0.01 USD ; chk\n    kk: 2000-01-01\n'],
 'price': ['2000-01-05 price USD 1.2 EUR\n'],
 'event': ['2000-01-06 event "location" "Paris"\n'],
 'query': ['2000-01-07 query "q" "SELECT 1"\n'],
 'note': ['2000-01-08 note Assets:Foo "hello"\n', '2000-01-08 note Assets:Foo "hello" #t1 ^l1 #t2\n'],
 'document': ['2000-01-09 document Assets:Foo "/a.pdf"\n', '2000-01-09 document Assets:Foo "/a.pdf" ^l1 #t1\n    kk: "v"\n'],
 'custom': ['2000-01-10 custom "budget"\n', '2000-01-10 custom "budget" Assets:Foo "x" 12.5 USD TRUE 2000-01-01\n'],
 'txn': ['2000-01-11 *\n    Assets:Foo  1 USD\n    Assets:Bar\n',
         '2000-01-11 * "narr"\n    Assets:Foo  1.50 USD\n    Assets:Bar  -1.50 USD\n',
         '2000-01-11 ! "payee" "narr" #t1 ^l1\n    kk: "v"\n    Assets:Foo  10 USD {1.2 GBP} @ 1.3 GBP\n        pk: 1\n    ! Assets:Bar  -10 USD {{12 GBP, 2000-01-01, "lbl"}} @@ 13 GBP ; pc\n    Assets:Baz\n',
         '2000-01-11 txn "n"\n    Assets:Foo  (1 + 2) * 3 USD {}\n    Assets:Bar  -9 USD {*, 1 # 2 GBP}\n'],
}

COMMENT = '; standalone comment\n'


def documents(tier='quick'):
    """-> list of (name, text)"""
    docs = []
    # 1. each directive variant alone, alone with leading/trailing comments, and between two neighbours
    for kind, variants in DIRECTIVES.items():
        for vi, v in enumerate(variants):
            docs.append((f'{kind}{vi}', v))
            docs.append((f'{kind}{vi}+lead', '; lead\n' + v))
            docs.append((f'{kind}{vi}+mid', '2000-01-01 open Assets:A\n\n' + v + '\n; tail\n2000-12-31 close Assets:A\n'))
    # 2. a long mixed file
    allv = [vs[-1] for vs in DIRECTIVES.values()]
    docs.append(('mixed', '\n'.join(allv)))
    docs.append(('mixed-comments', COMMENT + ('\n' + COMMENT).join(allv) + COMMENT))
    docs.append(('mixed-crlf', '\n'.join(allv).replace('\n', '\r\n')))
    docs.append(('no-final-newline', '2000-01-01 open Assets:Foo USD'))
    docs.append(('empty', ''))
    docs.append(('only-comment', '; just a comment'))
    docs.append(('blank-lines', '\n\n2000-01-01 open Assets:Foo\n\n\n2000-01-02 close Assets:Foo\n\n'))
    docs.append(('indented-comments', '2000-01-11 * "n"\n    ; before\n    Assets:Foo  1 USD\n    ; between\n    Assets:Bar\n    ; after\n; dedented\n'))
    docs.append(('zero-numbers', '2000-01-11 * "z"\n    Assets:Foo  0 USD @ 0\n    Assets:Bar  1 USD @@ 0.00\n    Assets:Baz  0 USD {0 # 5 GBP} @ (1 - 1)\n    Assets:Qux  2 USD {{0}}\n'))
    docs.append(('bare-costs', '2000-01-11 * "c"\n    Assets:Foo  1 USD {{12.34}}\n    Assets:Bar  1 USD {12.34}\n    Assets:Baz  1 USD {GBP}\n    Assets:Qux  1 USD {2000-01-01, "l", *}\n'))
    docs.append(('mixed-tags-links', '2000-01-11 * "p" "n" #aaa ^bbb #ccc ^ddd #eee\n    Assets:Foo  1 USD\n2000-01-12 note Assets:Foo "n" ^l0 #t0 ^l1 #t1\n'))
    docs.append(('meta-comments-postings', '2000-01-11 * "m"\n    foo: 1\n    ; c1\n    Assets:Foo  1 USD\n    ; c2\n    bar: 2\n    Assets:Bar\n'))
    docs.append(('trailing-ws', '2000-01-02 close Assets:Foo  \n2000-01-03 * "groceries" \n    Assets:Cash  1 USD \n    Assets:B\t\n2000-01-04 open Assets:X USD \n    kk: 1 \n'))
    docs.append(('claim-shift', '2000-01-01 *\n    foo: 1\n    ; c1\n    Assets:Foo  100.00 USD\n    Assets:Bar\n'))
    docs.append(('crcrlf', '2000-01-01 open Assets:Foo\r\r\n; c\r\r\n\r\r\n2000-01-02 close Assets:Foo\r\r\n'))
    docs.append(('crcrlf-end', '2000-01-01 open Assets:Foo\r\r\n'))
    docs.append(('standalone-comments', '2000-01-01 open Assets:Foo\n\n; s1\n\n; s2\n; s2b\n\n2000-01-02 * "t"\n    Assets:Foo  1 USD\n    Assets:Bar\n\n; s3\n\n2000-01-03 close Assets:Foo\n'))
    docs.append(('meta-amount', '2000-01-01 *\n    note: "n"\n    price: 10.00 USD\n    acct: Assets:Foo\n    Assets:Foo  1 STOCK\n        cost: 2 USD\n    Assets:Bar\n'))
    docs.append(('para-comments', '2000-01-01 *\n    ; p1\n    ;\n    ; p2\n    Assets:Foo  1 USD\n    ; q1\n    ;\n    ; q2\n    Assets:Bar\n'))
    docs.append(('glued', '2000-01-01 open Assets:Foo USD;c\n2000-01-02 * "p""n"\n    Assets:Foo  10USD;pc\n    Assets:Bar  -10USD{1.5 EUR}@ 2 EUR\n2000-01-03 close Assets:Foo;bye\n2000-01-04 balance Assets:Foo 10~0.01 USD\n'))
    docs.append(('products', '2000-01-01 *\n    Assets:A   6 * 2 / 3 USD\n    Assets:B   1 / 2 / 5 USD @ 2 * 3 * 4 EUR\n    Assets:C   -(1 + 2) * 3 / -4 - 5 * 6 + 7 USD\n    Assets:D\n'))
    docs.append(('empty-strings', '2000-01-01 * "" "Lunch"\n    Assets:Foo  1 USD\n    Assets:Bar\n2000-01-02 * "Cafe" ""\n    Assets:Foo  1 USD {0 EUR, ""}\n    Assets:Bar\n2000-01-03 note Assets:Foo ""\n2000-01-04 custom "" "" FALSE 0\n2000-01-05 open Assets:Foo USD ""\n'))
    docs.append(('org-headings', '* Heading\n** Sub\n2000-01-01 open Assets:Foo\n'))
    return docs


def eol_variants():
    """line-terminator variants of a few documents (C01): CRLF, CR CR LF, no final newline, a bare CR at the end, ignored (org-mode / flag) lines with those endings.
    Variants the parser does not accept are skipped by the driver, they are not failures."""
    d = dict(documents())
    base = [(k, d[k]) for k in ('open2', 'txn2', 'org-headings', 'only-comment', 'indented-comments', 'standalone-comments')]
    base += [('ignored-lines', '* Heading\n** Sub\n2000-01-01 open Assets:Foo\n* Notes\n'), ('ignored-only', '* Heading'), ('flag-line', '! something\n2000-01-01 open Assets:Foo\n# hash\n')]
    out = []
    for name, text in base:
        crlf = text.replace('\n', '\r\n')
        for tag, v in (('crlf', crlf), ('crcrlf', text.replace('\n', '\r\r\n')), ('noeol', text.rstrip('\n')), ('crlf-noeol', crlf.rstrip('\n').rstrip('\r')),
                       ('cr-end', text.rstrip('\n') + '\r'), ('crlf-cr-end', crlf.rstrip('\n')), ('crcr-end', text.rstrip('\n') + '\r\r'), ('ws-end', text.rstrip('\n') + '  ')):
            if v != text: out.append((f'{name}~{tag}', v))
    return out


def random_documents(seed, n):
    """n pseudo-random documents (deterministic in seed) composed from the directive variants: random order, blank lines and comments in between, widened / tabbed
    separators outside strings, inline comments, other indentation widths, a multi-line string, unusual numbers, LF / CRLF, with or without final newline.
    Not every result is a sentence of the grammar; consumers skip what the parser rejects."""
    import random, re
    rnd = random.Random(seed)
    pool = [v for vs in DIRECTIVES.values() for v in vs] + [
        '2000-02-01 * "multi\nline" "x\\"y"\n    Assets:Foo  1,000.50 USD\n    Assets:Bar  -1,000.50 USD\n',
        '2000-02-02 balance Assets:Foo -.5 USD\n', '2000-02-03 price USD 1.2e0 EUR\n' , '2000-02-04 note Assets:Foo "tab\there"\n',
        '* org heading\n', '2000-02-05 *\n    Assets:Foo  1 USD @ 2 EUR\n    Assets:Bar  -2 EUR {{}}\n    ; trailing posting comment\n']
    out = []
    for i in range(n):
        parts = []
        for _ in range(rnd.randint(1, 4)):
            d = rnd.choice(pool)
            # widen single blanks outside strings
            segs = d.split('"')
            for j in range(0, len(segs), 2):
                segs[j] = re.sub(r'(?<=\S) (?=\S)', lambda m_: rnd.choice([' ', ' ', '  ', '\t', ' \t ']), segs[j])
            d = '"'.join(segs)
            if rnd.random() < 0.3: d = d.replace('\n    ', '\n' + rnd.choice(['  ', '\t', '      ']))
            if rnd.random() < 0.25 and '\n' in d and '"' not in d.split('\n')[0][-1:]:
                first, rest = d.split('\n', 1)
                if ';' not in first and not first.startswith('*'): d = first + rnd.choice([' ; ic', '  ;ic', ' ;', ';glued', ';']) + '\n' + rest
            parts.append(d)
            r = rnd.random()
            if r < 0.25: parts.append('\n')
            elif r < 0.4: parts.append('; c%d\n' % i)
            elif r < 0.5: parts.append('\n; c%d\n\n' % i)
        text = ''.join(parts)
        r = rnd.random()
        if r < 0.25: text = text.replace('\n', '\r\n')
        if rnd.random() < 0.25: text = text.rstrip('\r\n')
        out.append((f'rand{seed}-{i}', text))
    return out


def lookup(name):
    """text of a document by name, for replays: corpus, line-ending variant (name~tag) or random (rand<seed>-<i>)"""
    if name.startswith('rand'):
        sd = int(name[4:].split('-')[0]); return dict(random_documents(sd, 1500))[name]
    if '~' in name: return dict(eol_variants())[name]
    return dict(documents())[name]


def accepted_extras(parse, seed, n):
    """line-ending variants and n random documents that `parse` accepts (used to widen the input side of the document drivers)"""
    out = []
    for name, text in eol_variants() + random_documents(seed, n):
        try: parse(text)
        except Exception: continue
        out.append((name, text))
    return out


def small_documents():
    """a handful of documents used for the expensive (history) drivers"""
    d = dict(documents())
    return [(k, d[k]) for k in ('open2', 'open3+mid', 'txn2', 'txn1+mid', 'note1', 'custom1', 'balance1+mid', 'mixed')]
