"""Bounded stand-ins for the dependent property groups and arithmetic:
C09: CostSpec (number_per, number_total, currency) and Transaction (payee, narration) against the record-of-optionals model: every initial concrete form x every
     assignment sequence of length <= 2 (quick) / 3 (thorough) over the fields x {None, v1, v2}; documented rejections leave the state unchanged; date/label/merge are framed;
     the state survives print + re-parse.
C13: expression trees of depth <= 2 (quick) / 3 (thorough) x every operator (plain, reflected, in-place; int, Decimal, free expression, expression attached in a posting):
     value == independent evaluation, printed text re-parses to that value, non-in-place operators leave both operands and their documents unchanged.
C19 clauses of both."""
import copy, decimal, io, itertools, random, re, traceback
from decimal import Decimal as D
from autobean_refactor import parser as P, models, printer
from rtc import tree
from drivers.common import Report, main

PARSER = P.Parser()
pr = lambda m: printer.print_model(m, io.StringIO()).getvalue()

COST_FORMS = ['{}', '{1}', '{1 USD}', '{USD}', '{{1}}', '{{1 USD}}', '{{USD}}', '{{}}', '{1 # 2 USD}', '{# 2 USD}', '{1 # USD}', '{1 #}', '{# 2}', '{1 # 2}',
              '{1, 2000-01-01}', '{2000-01-01, 1 USD, "l"}', '{*, 1 # 2 USD}', '{{1 USD, *}}', '{"l"}', '{{2000-01-01}}']
FIELDS = ('number_per', 'number_total', 'currency')
VALS = {'number_per': [None, D('3'), D('4.5'), D('0')], 'number_total': [None, D('30'), D('7'), D('0.00')], 'currency': [None, 'EUR', 'GBP']}      # zero: in the domain, falsy in Python


def cost_doc(form):
    return f'2000-01-01 *\n    Assets:Foo  10 ABC {form}\n    Assets:Bar\n'


def read_cost(cs):
    return (cs.number_per, cs.number_total, cs.currency)


def model_set(rec, field, v):
    new = dict(zip(FIELDS, rec)); new[field] = v
    if new['number_per'] is not None and new['number_total'] is not None and new['currency'] is None: raise ValueError('both numbers without a currency')
    return tuple(new[f] for f in FIELDS)


def cost_case(form, seq):
    try:
        f = PARSER.parse(cost_doc(form), models.File)
    except Exception:
        return None, False
    cs = f.raw_directives[0].raw_postings[0].raw_cost
    if cs is None: return None, False
    rec = read_cost(cs)
    extra = (cs.date, cs.label, cs.merge)
    for step, (field, v) in enumerate(seq):
        before_text = tree.store_text(f.token_store); before_rec = read_cost(cs)
        try:
            want = model_set(rec, field, v); refused = False
        except ValueError:
            want = rec; refused = True
        try:
            setattr(cs, field, v); raised = None
        except ValueError as e:
            raised = e
        except Exception as e:
            return f'{form} {seq[:step + 1]}: raised {type(e).__name__}: {e}', True
        if raised is not None:
            if tree.store_text(f.token_store) != before_text or read_cost(cs) != before_rec:
                return f'{form} {seq[:step + 1]}: refused ({raised}) but the state changed: {before_text!r} -> {tree.store_text(f.token_store)!r}, reads {read_cost(cs)}', True
            if not refused: return f'{form} {seq[:step + 1]}: refused ({raised}) although the record model accepts it (state {rec})', True
            continue
        if refused: return f'{form} {seq[:step + 1]}: accepted although both numbers without currency must be rejected; reads {read_cost(cs)}; text {pr(cs)!r}', True
        rec = want
        if read_cost(cs) != rec: return f'{form} {seq[:step + 1]}: reads {read_cost(cs)}, record model says {rec}; text {pr(cs)!r}', True
        if (cs.date, cs.label, cs.merge) != extra: return f'{form} {seq[:step + 1]}: date/label/merge changed to {(cs.date, cs.label, cs.merge)}', True
        v_ = tree.valid(f)
        if v_: return f'{form} {seq[:step + 1]}: tree invalid: {v_}', True
        try:
            g = PARSER.parse(tree.store_text(f.token_store), models.File)
            cs2 = g.raw_directives[0].raw_postings[0].raw_cost
            got2 = read_cost(cs2) if cs2 is not None else (None, None, None)
        except Exception as e:
            return f'{form} {seq[:step + 1]}: printed text {tree.store_text(f.token_store)!r} does not re-parse: {type(e).__name__}', True
        if got2 != rec: return f'{form} {seq[:step + 1]}: after re-parse of {pr(cs)!r} reads {got2}, expected {rec}', True
    return None, True


TXN_FORMS = ['2000-01-01 *\n', '2000-01-01 * "n"\n', '2000-01-01 * "p" "n"\n', '2000-01-01 * "p" "n" #t ^l\n', '2000-01-01 * "n" #t\n', '2000-01-01 * #t\n']


def txn_case(form, seq):
    f = PARSER.parse(form + '    Assets:Foo  1 USD\n    Assets:Bar\n', models.File)
    t = f.raw_directives[0]
    rec = (t.payee, t.narration)
    tags = (list(t.tags), list(t.links))
    for step, (field, v) in enumerate(seq):
        payee, narr = rec
        if field == 'payee':
            payee = v
            if v is not None and narr is None: narr = ''
        else:
            narr = v
            if v is None and payee is not None: narr = ''
        rec = (payee, narr)
        try:
            setattr(t, field, v)
        except Exception as e:
            return f'{form!r} {seq[:step + 1]}: raised {type(e).__name__}: {e}', True
        if (t.payee, t.narration) != rec: return f'{form!r} {seq[:step + 1]}: reads {(t.payee, t.narration)}, model {rec}; text {pr(t)!r}', True
        if (list(t.tags), list(t.links)) != tags: return f'{form!r} {seq[:step + 1]}: tags/links changed', True
        try:
            g = PARSER.parse(tree.store_text(f.token_store), models.File); t2 = g.raw_directives[0]
        except Exception as e:
            return f'{form!r} {seq[:step + 1]}: printed text {tree.store_text(f.token_store)!r} does not re-parse', True
        if (t2.payee, t2.narration) != rec: return f'{form!r} {seq[:step + 1]}: after re-parse reads {(t2.payee, t2.narration)}, expected {rec}', True
    return None, True


# ---------------------------------------------------------------- C13
ATOMS = ['1', '2.5', '10']


def exprs(depth):
    if depth == 0: return list(ATOMS)
    sub = exprs(depth - 1)
    out = list(sub)
    small = sub[:6]
    for a in small:
        out.append(f'({a})'); out.append(f'-{a}' if not a.startswith(('-', '+')) else f'-({a})')
        for b in small[:4]:
            for op in '+-*/': out.append(f'{a} {op} {b}')
    seen, res = set(), []
    for e in out:
        if e not in seen: seen.add(e); res.append(e)
    return res


def evaluate(text):
    """independent evaluator: usual precedence/associativity over Decimal"""
    toks = re.findall(r'\d+\.?\d*|[-+*/()]', text.replace(',', ''))
    pos = [0]
    def peek(): return toks[pos[0]] if pos[0] < len(toks) else None
    def nxt(): pos[0] += 1; return toks[pos[0] - 1]
    def atom():
        t = nxt()
        if t == '(':
            v = add(); nxt(); return v
        if t == '-': return -atom()
        if t == '+': return +atom()
        return D(t)
    def mul():
        v = atom()
        while peek() in ('*', '/'):
            o = nxt(); w = atom(); v = v * w if o == '*' else v / w
        return v
    def add():
        v = mul()
        while peek() in ('+', '-'):
            o = nxt(); w = mul(); v = v + w if o == '+' else v - w
        return v
    return add()


OPS = ['+', '-', '*', '/']


def apply_py(op, a, b):
    return {'+': lambda: a + b, '-': lambda: a - b, '*': lambda: a * b, '/': lambda: a / b}[op]()


def c13_case(atext, btext, op, mode):
    """mode: plain | reflected-int | inplace | attached-right | attached-left-inplace | unary"""
    try:
        ea = evaluate(atext); eb = evaluate(btext)
    except (decimal.DivisionByZero, decimal.InvalidOperation, ZeroDivisionError):
        return None, False
    if op == '/' and eb == 0: return None, False
    a = PARSER.parse(atext, models.NumberExpr)
    if a.value != ea: return f'value of parsed {atext!r} is {a.value}, evaluation gives {ea}', True
    doc = None
    if mode in ('plain', 'inplace'):
        b = PARSER.parse(btext, models.NumberExpr)
    elif mode == 'reflected-int':
        b = int(eb) if eb == int(eb) else eb
        btext = str(b)
    elif mode == 'attached-right':
        doc = PARSER.parse(f'2000-01-01 *\n    Assets:Foo  {btext} USD\n    Assets:Bar\n', models.File)
        b = doc.raw_directives[0].raw_postings[0].raw_number
    elif mode == 'attached-left-inplace':
        doc = PARSER.parse(f'2000-01-01 *\n    Assets:Foo  {atext} USD\n    Assets:Bar\n', models.File)
        a = doc.raw_directives[0].raw_postings[0].raw_number
        b = PARSER.parse(btext, models.NumberExpr)
    a_before, b_before = pr(a), (pr(b) if hasattr(b, 'tokens') else None)
    doc_before = tree.store_text(doc.token_store) if doc is not None else None
    want = apply_py(op, ea, eb)
    try:
        if mode == 'reflected-int': r = apply_py(op, b, a); want = apply_py(op, eb, ea) if not (op == '/' and ea == 0) else None
        elif mode in ('inplace', 'attached-left-inplace'):
            r = a
            if op == '+': r += b
            elif op == '-': r -= b
            elif op == '*': r *= b
            else: r /= b
        else: r = apply_py(op, a, b)
    except (decimal.DivisionByZero, decimal.InvalidOperation, ZeroDivisionError):
        return None, False
    except Exception as e:
        # a refused operand must leave everything as it was (C19)
        if pr(a) != a_before or (b_before is not None and pr(b) != b_before) or (doc is not None and tree.store_text(doc.token_store) != doc_before):
            return f'{atext!r} {op} {btext!r} [{mode}]: raised {type(e).__name__} and changed an operand/document', True
        return f'{atext!r} {op} {btext!r} [{mode}]: raised {type(e).__name__}: {e}', True
    if want is None: return None, False
    if r.value != want: return f'{atext!r} {op} {btext!r} [{mode}]: value {r.value}, arithmetic says {want}; text {pr(r)!r}', True
    try:
        back = PARSER.parse(pr(r), models.NumberExpr).value
    except Exception as e:
        return f'{atext!r} {op} {btext!r} [{mode}]: result text {pr(r)!r} does not parse', True
    if back != want: return f'{atext!r} {op} {btext!r} [{mode}]: text {pr(r)!r} re-parses to {back}, expected {want}', True
    if evaluate(pr(r)) != want: return f'{atext!r} {op} {btext!r} [{mode}]: text {pr(r)!r} evaluates to {evaluate(pr(r))}, expected {want}', True
    if mode in ('plain', 'reflected-int', 'attached-right'):
        if pr(a) != a_before: return f'{atext!r} {op} {btext!r} [{mode}]: left operand changed to {pr(a)!r}', True
        if b_before is not None and pr(b) != b_before: return f'{atext!r} {op} {btext!r} [{mode}]: right operand changed {b_before!r} -> {pr(b)!r}', True
        if doc is not None and tree.store_text(doc.token_store) != doc_before: return f'{atext!r} {op} {btext!r} [{mode}]: the document of an operand changed', True
    if mode in ('inplace', 'attached-left-inplace'):
        if b_before is not None and pr(b) != b_before: return f'{atext!r} {op}= {btext!r} [{mode}]: right operand changed {b_before!r} -> {pr(b)!r}', True
        if doc is not None:
            v = tree.valid(doc)
            if v: return f'{atext!r} {op}= {btext!r}: document tree invalid: {v}', True
            try:
                g = PARSER.parse(tree.store_text(doc.token_store), models.File)
                if g.raw_directives[0].raw_postings[0].number != want: return f'in-place on a posting: document re-parses to {g.raw_directives[0].raw_postings[0].number}, expected {want}', True
            except Exception:
                return f'in-place on a posting: document {tree.store_text(doc.token_store)!r} does not re-parse', True
    return None, True


def c13_unary(atext, sign):
    try: ea = evaluate(atext)
    except Exception: return None, False
    a = PARSER.parse(atext, models.NumberExpr); before = pr(a)
    r = -a if sign == '-' else +a
    want = -ea if sign == '-' else +ea
    if r.value != want: return f'{sign}({atext!r}) value {r.value} != {want}; text {pr(r)!r}', True
    if PARSER.parse(pr(r), models.NumberExpr).value != want: return f'{sign}({atext!r}) text {pr(r)!r} re-parses to a different value', True
    if pr(a) != before: return f'{sign}({atext!r}) changed its operand', True
    return None, True


def run(prop, tier, seed):
    rnd = random.Random(seed)
    rep = Report('special', __doc__.strip().split('\n')[1 if prop in ('C09', 'C19') else 4].strip() + ' distinct by the full case; non-trivial = the initial form parses / the operation is defined', bound='see rule')
    def do(key, fn, *args):
        if not rep.mine(key): return
        try: msg, nt = fn(*args)
        except Exception: msg, nt = 'driver error: ' + traceback.format_exc()[-500:], True
        rep.case(key, nt, dict(case=[str(k) for k in key]) if rnd.random() < 0.001 else None)
        if msg: rep.fail(f'{key[0]}:{re.sub("[0-9]+", "N", re.sub(chr(39) + "[^" + chr(39) + "]*" + chr(39), "S", msg))[:90]}', msg, dict(fn=fn.__name__, args=[list(a) if isinstance(a, tuple) else a for a in args]))
    if prop in ('C09', 'C19'):
        steps = [(f, v) for f in FIELDS for v in VALS[f]]
        L = 2 if tier == 'quick' else 3
        for form in COST_FORMS:
            for n in range(1, L + 1):
                seqs = itertools.product(steps, repeat=n)
                for seq in seqs:
                    if n == 3 and rnd.random() > 0.25: continue
                    do(('cost', form, seq), cost_case, form, seq)
        tsteps = [(f, v) for f in ('payee', 'narration') for v in (None, 'x', 'y "q"', '')]
        for form in TXN_FORMS:
            for n in range(1, 4):
                for seq in itertools.product(tsteps, repeat=n): do(('txn', form, seq), txn_case, form, seq)
    else:
        es = exprs(1 if tier == 'quick' else 2)
        bs = es[:12] if tier == 'quick' else es[:40]
        for a in es:
            for b in bs:
                for op in OPS:
                    for mode in ('plain', 'inplace', 'reflected-int', 'attached-right', 'attached-left-inplace'):
                        if tier == 'quick' and rnd.random() > 0.35: continue
                        do(('expr', a, op, b, mode), c13_case, a, b, op, mode)
            for sign in '+-': do(('unary', a, sign), c13_unary, a, sign)
        for a in exprs(2)[:200] if tier == 'quick' else exprs(3)[:3000]:
            do(('parse-value', a), lambda t: ((None, True) if PARSER.parse(t, models.NumberExpr).value == evaluate(t) else (f'value of {t!r}: {PARSER.parse(t, models.NumberExpr).value} != {evaluate(t)}', True)), a)
    if not rep.d['samples']: rep.d['samples'].append(dict(note='see rule'))
    return rep


def replay_case(case):
    fn = {'cost_case': cost_case, 'txn_case': txn_case, 'c13_case': c13_case, 'c13_unary': c13_unary}.get(case['fn'])
    if fn is None: return None
    args = [tuple(tuple(x) if isinstance(x, list) else x for x in a) if isinstance(a, list) else a for a in case['args']]
    return fn(*args)[0]


if __name__ == '__main__':
    main(run, replay_case)
