"""Bounded stand-ins: run-time contracts on the real code, small-scope drivers.  Never counted as proved."""
REGISTRY = {
    'C07': ['store_small_scope'],
    'C08': ['store_small_scope'],
    'C01': ['docprops'],
    'C04': ['docprops'],
    'C11': ['docprops'],
    'C20': ['docprops'],
    'C03': ['docops'],
    'C10': ['docops'],
    'C05': ['docops'],
    'C06': ['docops'],
    'C09': ['docops'],
    'C19': ['docops', 'store_small_scope'],
}
