"""Bounded stand-ins: run-time contracts on the real code, small-scope drivers.  Never counted as proved."""
REGISTRY = {
}
