"""Bounded stand-in for C14: layouts of <= 3 comment blocks around <= 2 directives / postings / meta items
x {adjacent, blank line, indented, dedented, file start/end, CRLF}.
Oracles: every BlockComment has at most one owner (leading/trailing slot of one model, or one entry of one repeated field) and its `claimed` flag says whether
it has one; default parsing leaves no comment unowned; the owner is the one the documented rule names (independent line-based implementation);
attribution is idempotent and the same whether run by parse() or later; unclaim followed by claim restores it; all claim/unclaim sequences of length <= 3 keep
'at most one owner, flag consistent' and never change the text."""
import itertools, random, re, traceback
from autobean_refactor import parser as P, models
from autobean_refactor.models import base
from rtc import tree
from drivers import docops
from drivers.common import Report, main

PARSER = P.Parser()


# ---------------------------------------------------------------- layouts
def layouts(tier):
    gaps = ['', 'c', 'bc', 'cb', 'cbc', 'C'] if tier == 'quick' else ['', 'c', 'bc', 'cb', 'cbc', 'C', 'cc', 'bcb', 'cC']
    out = []
    # two top-level directives: gap0 D gap1 D gap2
    for g0, g1, g2 in itertools.product(gaps, repeat=3):
        if sum(x.count('c') + x.count('C') for x in (g0, g1, g2)) > 3: continue
        out.append(('dir', g0, g1, g2))
    # a transaction with two postings: T gap0 P gap1 P gap2 (comments indented 'c' or dedented 'C')
    for g0, g1, g2 in itertools.product(['', 'c', 'C', 'cc', 'bc'], repeat=3):
        if sum(x.count('c') + x.count('C') for x in (g0, g1, g2)) > 3: continue
        out.append(('txn', g0, g1, g2))
    # a directive with two meta items
    for g0, g1, g2 in itertools.product(['', 'c', 'C'], repeat=3):
        out.append(('meta', g0, g1, g2))
    return out


def render(layout, nl='\n'):
    """-> (text, lines) where lines = list of (kind, indent, text); kinds: D directive line, P posting, M meta, c comment, b blank"""
    kind, g0, g1, g2 = layout
    n = [0]
    def gap(g, indent):
        ls = []
        for ch in g:
            if ch == 'b': ls.append(('b', 0, ''))
            else:
                n[0] += 1
                ind = indent if ch == 'c' else (0 if indent else 4)
                ls.append(('c', ind, ' ' * ind + f'; c{n[0]}'))
        return ls
    lines = []
    if kind == 'dir':
        lines += gap(g0, 0) + [('D', 0, '2000-01-01 open Assets:A')] + gap(g1, 0) + [('D', 0, '2000-01-02 close Assets:A')] + gap(g2, 0)
    elif kind == 'txn':
        lines += [('D', 0, '2000-01-01 * "t"')] + gap(g0, 4) + [('P', 4, '    Assets:A  1 USD')] + gap(g1, 4) + [('P', 4, '    Assets:B')] + gap(g2, 4)
    else:
        lines += [('D', 0, '2000-01-01 open Assets:A')] + gap(g0, 4) + [('M', 4, '    aa: 1')] + gap(g1, 4) + [('M', 4, '    bb: 2')] + gap(g2, 4)
    return nl.join(l[2] for l in lines) + nl, lines


# ---------------------------------------------------------------- ownership on the real tree
def owners(f):
    """comment token id -> list of (owner description)"""
    own = {}
    for mi, m in enumerate(docops.tree_models(f)):
        for role in ('raw_leading_comment', 'raw_trailing_comment'):
            if hasattr(type(m), role):
                c = getattr(m, role)
                if c is not None: own.setdefault(id(c), []).append((type(m).__name__, mi, role[4:-8]))
        for n in dir(type(m)):
            if n.endswith('_with_comments'):
                for k, x in enumerate(getattr(m, n)):
                    if isinstance(x, models.BlockComment): own.setdefault(id(x), []).append((type(m).__name__, mi, 'entry'))
    return own


def ownership_ok(f):
    own = owners(f)
    for t in f.token_store:
        if isinstance(t, models.BlockComment):
            o = own.get(id(t), [])
            if len(o) > 1: return f'comment {t.raw_text!r} has {len(o)} owners: {o}'
            if bool(o) != bool(t.claimed): return f'comment {t.raw_text!r}: claimed={t.claimed} but owners={o}'
    return None


def attribution(f):
    """sorted list of (comment value, owner class, role) - comparable across parses"""
    own = owners(f)
    out = []
    for t in f.token_store:
        if isinstance(t, models.BlockComment):
            o = own.get(id(t), [])
            out.append((t.value, o[0][0] if o else None, o[0][2] if o else None))
    return out


def expected(lines, nl='\n'):
    """the documented rule on the line layout: -> list of (comment block value, role) with role leading|trailing|entry"""
    blocks = []      # (start, end, indent)
    i = 0
    while i < len(lines):
        if lines[i][0] == 'c':
            j = i
            while j + 1 < len(lines) and lines[j + 1][0] == 'c' and lines[j + 1][1] == lines[i][1]: j += 1
            blocks.append((i, j, lines[i][1])); i = j + 1
        else: i += 1
    res = []
    taken_trailing = set()
    for (s, e, ind) in blocks:
        value = nl.join(lines[k][2].strip()[2:] for k in range(s, e + 1))
        nxt = lines[e + 1] if e + 1 < len(lines) else None
        prv = lines[s - 1] if s > 0 else None
        role = 'entry'
        if nxt is not None and nxt[0] in 'DPM' and nxt[1] == ind: role = 'leading'
        elif prv is not None and prv[0] != 'b':
            # directly below a model of the same indentation: the model whose last line is just above and whose own indentation is `ind`
            k = s - 1
            while k >= 0 and lines[k][0] in 'cPM' and lines[k][1] > ind: k -= 1
            nxt_nb = next((lines[q] for q in range(e + 1, len(lines)) if lines[q][0] != 'b'), None)
            ended = not (nxt_nb is not None and nxt_nb[1] > ind)     # the model above is not continued (by a deeper-indented line) below the comment
            if k >= 0 and lines[k][0] in 'DPM' and lines[k][1] == ind and all(lines[q][0] != 'b' for q in range(k, s)) and ended:
                # comments already attributed in between do not block
                role = 'trailing'
        res.append((value, role))
    return res


def case(layout, nl, variant, seq_seed=0):
    text, lines = render(layout, nl)
    try:
        f = PARSER.parse(text, models.File)
    except Exception as e:
        return None, False
    if tree.store_text(f.token_store) != text: return 'parse/print changed the text', True
    msg = ownership_ok(f)
    if msg: return 'after default parse: ' + msg, True
    for t in f.token_store:
        if isinstance(t, models.BlockComment) and not t.claimed: return f'default parsing left comment {t.raw_text!r} unowned', True
    if variant == 'rule':
        got = [(v, r) for v, _, r in attribution(f)]
        exp = expected(lines, nl)
        if got != exp:
            d = next((i for i, (a, b) in enumerate(zip(got, exp)) if a != b), 0)
            # which gap and which kind of comment line ('c' = at the level's indentation, 'C' = the other indentation) the first deviating comment sits in
            seq = [(gi, ch) for gi, g in enumerate(layout[1:]) for ch in g if ch in 'cC']
            blk, prev = [], None
            for gi, ch in seq:
                if prev == (gi, ch): continue
                blk.append((gi, ch)); prev = (gi, ch)
            where = blk[d] if d < len(blk) else ('?', '?')
            return f'RULE[{layout[0]}:gap{where[0]}:{where[1]}:{got[d][1] if d < len(got) else None}!={exp[d][1] if d < len(exp) else None}] attribution {got} but the documented rule gives {exp} for {text!r}', True
    if variant == 'idempotent':
        a = attribution(f); f.auto_claim_comments(); b = attribution(f)
        if a != b: return f'auto_claim_comments is not idempotent: {a} -> {b}', True
        g = PARSER.parse(text, models.File, auto_claim_comments=False); g.auto_claim_comments()
        if attribution(g) != a: return f'attribution at parse time {a} differs from later attribution {attribution(g)}', True
        if not (f == g): return 'models differ between parse-time and later attribution', True
    if variant == 'unclaim-claim':
        a = attribution(f)
        for m in docops.tree_models(f):
            for side in ('leading', 'trailing'):
                if hasattr(m, f'unclaim_{side}_comment') and getattr(m, f'raw_{side}_comment') is not None:
                    c = getattr(m, f'unclaim_{side}_comment')()
                    if c is None or c.claimed: return f'unclaim_{side}_comment did not release the comment', True
                    msg = ownership_ok_partial(f)
                    if msg: return f'after unclaim_{side}: {msg}', True
                    getattr(m, f'claim_{side}_comment')()
                    if attribution(f) != a: return f'unclaim_{side} then claim_{side} on {type(m).__name__} does not restore the attribution: {a} -> {attribution(f)}', True
                    if tree.store_text(f.token_store) != text: return 'unclaim/claim changed the text', True
    if variant == 'refused-batch':
        # a batch naming a comment the field does not hold must be refused as a whole: owners and flags exactly as before (C14, C19)
        other = PARSER.parse('\n; foreign\n\n2000-01-01 open Assets:Zz\n', models.File)
        foreign = [t for t in other.token_store if isinstance(t, models.BlockComment)][0]
        for m in docops.tree_models(f):
            for n in dir(type(m)):
                if not n.endswith('_with_comments'): continue
                view = getattr(m, n)
                own = [x for x in view if isinstance(x, models.BlockComment)]
                if not own: continue
                before = (sorted((k, tuple(v)) for k, v in owners(f).items()), [(id(t), t.claimed) for t in f.token_store if isinstance(t, models.BlockComment)])
                try: view.unclaim_interleaving_comments(own + [foreign]); return f'{type(m).__name__}.{n}.unclaim_interleaving_comments accepted a foreign comment', True
                except ValueError: pass
                after = (sorted((k, tuple(v)) for k, v in owners(f).items()), [(id(t), t.claimed) for t in f.token_store if isinstance(t, models.BlockComment)])
                if after != before: return f'{type(m).__name__}.{n}.unclaim_interleaving_comments refused a batch but changed owners / claimed flags', True
                msg = ownership_ok(f)
                if msg: return f'after a refused unclaim: {msg}', True
                released = list(view.unclaim_interleaving_comments())
                before = (sorted((k, tuple(v)) for k, v in owners(f).items()), [(id(t), t.claimed) for t in f.token_store if isinstance(t, models.BlockComment)])
                try: view.claim_interleaving_comments(released + [foreign]); return f'{type(m).__name__}.{n}.claim_interleaving_comments accepted a foreign comment', True
                except ValueError: pass
                after = (sorted((k, tuple(v)) for k, v in owners(f).items()), [(id(t), t.claimed) for t in f.token_store if isinstance(t, models.BlockComment)])
                if after != before: return f'{type(m).__name__}.{n}.claim_interleaving_comments refused a batch but changed owners / claimed flags', True
                view.claim_interleaving_comments()
    if variant == 'sequences':
        rnd = random.Random(seq_seed)
        calls = []
        for m in docops.tree_models(f):
            for c in ('unclaim_leading_comment', 'unclaim_trailing_comment', 'claim_leading_comment', 'claim_trailing_comment'):
                if hasattr(m, c): calls.append((m, None, c))
            for n in dir(type(m)):
                if n.endswith('_with_comments'):
                    for c in ('unclaim_interleaving_comments', 'claim_interleaving_comments'): calls.append((m, n, c))
        for _ in range(3):
            m, n, c = rnd.choice(calls)
            try: (getattr(getattr(m, n), c) if n else getattr(m, c))()
            except ValueError: pass
            msg = ownership_ok_partial(f)
            if msg: return f'after {type(m).__name__}.{n or ""}.{c}(): {msg}', True
            if tree.store_text(f.token_store) != text: return f'{c} changed the text', True
    return None, True


def ownership_ok_partial(f):
    """<= 1 owner and flag consistent (unowned comments are allowed after an unclaim)"""
    own = owners(f)
    for t in f.token_store:
        if isinstance(t, models.BlockComment):
            o = own.get(id(t), [])
            if len(o) > 1: return f'comment {t.raw_text!r} has {len(o)} owners: {o}'
            if bool(o) != bool(t.claimed): return f'comment {t.raw_text!r}: claimed={t.claimed} but owners={o}'
    return None


def run(prop, tier, seed):
    rnd = random.Random(seed)
    rep = Report('comments', __doc__.strip().replace('\n', ' ') + ' distinct by (layout, newline, variant); non-trivial = the layout contains a comment', bound='<= 3 comment blocks, <= 2 models per level')
    for layout in layouts(tier):
        has_c = any('c' in g.lower() for g in layout[1:])
        for nl in ('\n', '\r\n'):
            if nl == '\r\n' and tier == 'quick' and rnd.random() > 0.3: continue
            for variant in ('rule', 'idempotent', 'unclaim-claim', 'sequences', 'refused-batch'):
                key = (layout, nl, variant)
                if not rep.mine(key): continue
                try: msg, nt = case(layout, nl, variant, seed + hash(layout) % 1000)
                except Exception: msg, nt = 'driver error: ' + traceback.format_exc()[-500:], True
                rep.case(key, nt and has_c, dict(layout=list(layout), nl=nl, variant=variant) if rnd.random() < 0.002 else None)
                if msg:
                    mk = re.match(r'RULE\[([^\]]*)\]', msg)
                    key = f'rule:{mk.group(1)}' if mk else f'{variant}:{re.sub("[0-9]+", "N", re.sub(chr(39) + "[^" + chr(39) + "]*" + chr(39), "S", msg))[:80]}'
                    rep.fail(key, f'{layout} {nl!r}: {msg}', dict(layout=list(layout), nl=nl, variant=variant, seq=seed + hash(layout) % 1000))
    if not rep.d['samples']: rep.d['samples'].append(dict(note='see rule'))
    return rep


def replay_case(c):
    return case(tuple(c['layout']), c['nl'], c['variant'], c.get('seq', 0))[0]


if __name__ == '__main__':
    main(run, replay_case)
