"""Bounded / exhaustive stand-ins for the token layer:
C12: for every token class with a value codec: from_value(v).value == v, the raw text is lexed back (real lexer, Parser.parse_token) as ONE token of the same
     class with the same value, lexemes are kept verbatim by from_raw_text, and after any sequence of value/raw_text/indent assignments value and text agree.
     Date is exhaustive over a sample of all calendar dates in quick (5 days + leap day of every 97th year and of the years where the width changes); thorough: those days of EVERY year 1..9999 and every day of every 20th year.
C02: every token of every corpus document x 5 replacement texts: the printed document is the input with exactly that span replaced; all other tokens keep identity/order/text.
C08 (document level): after each such edit every token position reported by the store equals its (line, column) in the printed text."""
import datetime, decimal, itertools, os, random, re, traceback
from autobean_refactor import parser as P, models
from autobean_refactor.models import base
from rtc import tree, specfun
from drivers import corpus
from drivers.common import Report, main

PARSER = P.Parser()
ALPHA = ['"', '\\', 'n', 't', ' ', ';', 'a', '\n', '\r', '\t', '\x0c', '\x85', '\u2028', 'é']


def strings(maxlen, alphabet):
    for n in range(maxlen + 1):
        for t in itertools.product(alphabet, repeat=n): yield ''.join(t)


def lex_back(cls, raw):
    """-> the token the real lexer makes of `raw` for terminal cls.RULE, or an error string"""
    try:
        t = PARSER.parse_token(raw, cls)
    except Exception as e:
        return None, f'{type(e).__name__}: {str(e)[:80]}'
    return t, None


def value_domain(cls, tier, rnd):
    n = cls.__name__
    if n == 'EscapedString': return list(strings(3 if tier == 'quick' else 4, ['"', '\\', 'n', ' ', 'a', '\n', '\t', '\r', '\x0c', '\b', 'é'])) + ['C:\\path\\file "q"', 'a\\nb', '\\\\', 'tab\there']
    if n == 'InlineComment': return [s for s in strings(3, [' ', ';', 'a', '\t', '"']) if not s.startswith(' ')] + ['comment text', 'trailing ', 'a  b']   # domain: no leading blank (the codec strips it), one line
    if n == 'Number': return [decimal.Decimal(x) for x in ('0', '1', '12', '123', '1234', '1234567', '0.5', '12.50', '100.000', '1.', '0.0001', '42.00')]
    if n == 'Date':
        out = []
        years = range(1, 10000) if tier == 'thorough' else list(range(1, 10000, 97)) + [1, 9, 10, 99, 100, 999, 1000, 1999, 2000, 2024, 9999]
        for y in years:
            every_day = tier != 'quick' and (bool(os.environ.get('VERIF_ALL_DATES')) or y % 20 == 0 or y in (1, 9, 10, 99, 100, 999, 1000, 1999, 2000, 2024, 9999))
            days = [(m, d) for m in range(1, 13) for d in range(1, 32)] if every_day else [(1, 1), (1, 15), (2, 28), (12, 31), (6, 30)]
            for m, d in days:
                try: out.append(datetime.date(y, m, d))
                except ValueError: pass
            try: out.append(datetime.date(y, 2, 29))
            except ValueError: pass
        return out
    if n == 'Bool': return [True, False]
    if n == 'Null': return [None]
    if n in ('Tag', 'Link'): return ['a', 'A-b_c/d.e', '0', 'x' * 30, 'trip-2020']
    if n == 'MetaKey': return ['aa', 'key', 'a-b_c9', 'kEY']
    if n == 'Currency': return ['USD', 'A1', "A'B.C_D-E", 'AB', 'X9']
    if n == 'Account': return ['Assets:Foo', 'Assets:Foo:Bar-9', 'Équity:Ünï', 'Assets:1Foo']
    if n == 'PostingFlag': return list('*!&#?%PSTCURM')
    if n == 'TransactionFlag': return list('*!&#?%PSTCURM')   # 'txn' is a lexeme whose value is '*', not a value
    if n == 'Indent': return [' ', '  ', '    ', '\t', ' \t ']
    return None


def c12_class(cls, tier, rnd, rep):
    dom = value_domain(cls, tier, rnd)
    if dom is None or not hasattr(cls, 'from_value'): return
    for v in dom:
        key = (cls.__name__, repr(v))
        def fail(msg): rep.fail(f'{cls.__name__}:{re.sub("[0-9]+", "N", msg)[:70]}', f'{cls.__name__} value {v!r}: {msg}', dict(mode='c12', cls=cls.__name__, value=repr(v)))
        try:
            t = cls.from_value(v)
        except Exception as e:
            rep.case(key, True); fail(f'from_value raised {type(e).__name__}: {e}'); continue
        rep.case(key, True, dict(cls=cls.__name__, value=repr(v), raw=t.raw_text) if rnd.random() < 0.003 else None)
        if t.value != v: fail(f'from_value(v).value = {t.value!r}'); continue
        back, err = lex_back(cls, t.raw_text) if cls.__name__ != 'Indent' else (cls.from_raw_text(t.raw_text), None)   # INDENT is a look-ahead terminal: not lexable in isolation
        if err: fail(f'raw text {t.raw_text!r} is not lexed back as one {cls.RULE} token ({err})'); continue
        if type(back) is not cls or back.value != v: fail(f'raw text {t.raw_text!r} lexes back to {type(back).__name__} value {back.value!r}'); continue
        if back.raw_text != t.raw_text: fail('from_raw_text does not keep the lexeme verbatim'); continue
        # assignment sequences keep value and text describing each other
        try:
            t2 = cls.from_value(dom[0]); t2.value = v
            if t2.value != v or t2.raw_text != t.raw_text: fail(f'value setter: value {t2.value!r} raw {t2.raw_text!r}'); continue
            t2.raw_text = t.raw_text
            if t2.value != v: fail(f'raw_text setter: value {t2.value!r}'); continue
        except Exception as e:
            fail(f'setter raised {type(e).__name__}: {e}')


def c12_block_comment(tier, rnd, rep):
    cls = models.BlockComment
    lines = ['', 'a', ' a', ';x', ' ', '\t', 'a ', 'é', 'a;b', 'a\x0cb', 'a\x85b', 'a\u2028b', 'a\rb']
    vals = set()
    for n in (1, 2, 3):
        for t in itertools.product(lines[:7] if tier == 'quick' and n == 3 else lines, repeat=n): vals.add('\n'.join(t))
    vals |= {'a\r\nb', 'a\r\n\r\nb', 'x\r'}
    for v in sorted(vals):
        for indent in ('', '    ', '\t'):
            key = ('BlockComment', repr(v), indent)
            def fail(msg): rep.fail(f'BlockComment:{re.sub("[0-9]+", "N", msg)[:70]}', f'BlockComment value {v!r} indent {indent!r}: {msg}', dict(mode='c12bc', value=v, indent=indent))
            try:
                t = cls.from_value(v, indent=indent)
            except Exception as e:
                rep.case(key, True); fail(f'from_value raised {type(e).__name__}: {e}'); continue
            rep.case(key, True)
            if t.value != v or t.indent != indent: fail(f'from_value(v).value = {t.value!r}, indent = {t.indent!r}'); continue
            try:
                back = cls.from_raw_text(t.raw_text)
            except Exception as e:
                fail(f'from_raw_text({t.raw_text!r}) raised {type(e).__name__}: {e}'); continue
            if back.value != v or back.indent != indent: fail(f'raw text {t.raw_text!r} reads back as value {back.value!r} indent {back.indent!r}'); continue
            # the real lexer must see one BLOCK_COMMENT (the line structure the grammar knows is \n only)
            if '\r' not in v:
                lexed, err = lex_back(cls, t.raw_text)
                if err: fail(f'raw text {t.raw_text!r} is not lexed back as one BLOCK_COMMENT ({err})'); continue
                if lexed.value != v: fail(f'lexed back with value {lexed.value!r}'); continue
            t.raw_text = t.raw_text
            if t.value != v: fail(f'raw_text = raw_text changed the value to {t.value!r}')


def c12_lexemes(tier, rnd, rep):
    """every lexeme of a terminal (as decided by the REAL lexer) is accepted by from_raw_text, kept verbatim, and survives a whole-file parse/print"""
    cands = {
        'BlockComment': [';' + s for s in strings(3, ['a', ' ', ';', '\x0c', '\x85', '\u2028', '\x1c', '\r\n;', '\n;', '\r\r\n;', '\n ;'])],
        'InlineComment': [';' + s for s in strings(3, ['a', ' ', ';', '\x0c', '\x85', '\u2028', '"'])],
        'EscapedString': ['"' + s + '"' for s in strings(3, ['a', '\\"', '\\\\', '\\n', '\n', '\x0c', ' ', "'"])],
        'Number': ['0', '1', '1.', '1.0', '1,000', '1,000.5', '12,345,678.90', '007'],
        'Date': ['2000-01-01', '2000/01/01', '0001-01-01', '1999-12-31'],
        'Account': ['Assets:A', 'Assets:A:B-1', 'Ébc:Üx'],
        'TransactionFlag': ['txn', '*', '!'],
    }
    for cname, lst in cands.items():
        cls = getattr(models, cname)
        for raw in lst:
            t, err = lex_back(cls, raw)
            if err is not None and 'Unexpected' in err: continue          # not a lexeme of this terminal
            key = (cname, 'lexeme', raw)
            rep.case(key, True)
            def fail(msg): rep.fail(f'{cname}.lexeme:{re.sub("[0-9]+", "N", msg)[:70]}', f'{cname} lexeme {raw!r}: {msg}', dict(mode='c12lex'))
            if err is not None: fail(f'the lexer accepts it as one {cls.RULE} but from_raw_text refuses: {err}'); continue
            if t.raw_text != raw: fail(f'text not kept verbatim: {t.raw_text!r}')
            if cname in ('BlockComment',) and '\n' not in raw.rstrip('\n'):
                text = raw + '\n2000-01-01 open Assets:Foo\n'
                try:
                    f = PARSER.parse(text, models.File)
                    if tree.store_text(f.token_store) != text: fail('file with this comment does not print back')
                except Exception as e:
                    fail(f'a file containing this comment line does not parse: {type(e).__name__}: {str(e)[:80]}')


# ---------------------------------------------------------------- C02 / C08 on documents
REPL = {'same': lambda s: s, 'longer': lambda s: s + 'xx', 'shorter': lambda s: s[:-1] if len(s) > 1 else s + 'y', 'multi': lambda s: s + '\nzz', 'empty': lambda s: ''}


def c02_doc(name, text, prop, rep, rnd, tier):
    f = PARSER.parse(text, models.File)
    n = len(list(f.token_store))
    idxs = range(n) if (tier == 'thorough' or n <= 60) else sorted(rnd.sample(range(n), 60))
    for i in idxs:
        for rname, fn in REPL.items():
            f = PARSER.parse(text, models.File)
            toks = list(f.token_store); t = toks[i]
            start = sum(len(x.raw_text) for x in toks[:i])
            new = fn(t.raw_text)
            key = (name, i, rname)
            rep.case(key, True, dict(doc=name, token=i, repl=rname) if rnd.random() < 0.001 else None)
            def fail(msg): rep.fail(f'{type(t).__name__}.{rname}:{re.sub("[0-9]+", "N", msg)[:60]}', f'{name} token #{i} {t!r} := {new!r}: {msg}', dict(mode='c02', doc=name, token=i, repl=rname, prop=prop))
            try:
                base.RawTokenModel.raw_text.fset(t, new) if False else setattr_raw(t, new)
            except Exception as e:
                # a refusal must leave everything unchanged
                if tree.store_text(f.token_store) != text: fail(f'refused ({type(e).__name__}) but text changed')
                continue
            after = list(f.token_store)
            if prop == 'C02':
                want = text[:start] + t.raw_text + text[start + len(toks[i].raw_text if False else text[start:start + len_old(toks, i, text)]):]
                got = tree.store_text(f.token_store)
                exp = text[:start] + t.raw_text + text[start + OLD_LEN[0]:]
                if got != exp: fail(f'printed {got!r}, expected {exp!r}')
                if len(after) != len(toks) or any(a is not b for a, b in zip(after, toks)): fail('token identity/order changed')
                if any(a.raw_text != b for k, (a, b) in enumerate(zip(after, OLD_TEXTS[0])) if k != i): fail('another token changed its text')
            else:
                msg = specfun.store_inv(f.token_store) or specfun.observers_agree(f.token_store, after)
                if msg: fail(msg)


OLD_LEN = [0]; OLD_TEXTS = [[]]
def len_old(toks, i, text): return OLD_LEN[0]
def setattr_raw(t, new):
    store = t.token_store
    OLD_TEXTS[0] = [x.raw_text for x in store] if store is not None else []
    OLD_LEN[0] = len(t.raw_text)
    t.raw_text = new


def run(prop, tier, seed):
    rnd = random.Random(seed)
    rep = Report('tokens', __doc__.strip().split('\n')[1 if prop == 'C12' else 4].strip() + '; distinct by (class, value) resp. (document, token index, replacement); non-trivial = the value is in the stated domain', bound='see rule')
    if prop == 'C12':
        for rule, cls in sorted(models.TOKEN_MODELS.items()):
            try: c12_class(cls, tier, rnd, rep)
            except Exception: rep.fail(f'{cls.__name__}:driver-error', traceback.format_exc()[-500:], dict(mode='c12', cls=cls.__name__))
        c12_block_comment(tier, rnd, rep)
        c12_lexemes(tier, rnd, rep)
    else:
        docs = corpus.documents()
        if tier == 'quick': docs = [d for d in docs if '+lead' not in d[0] and '+mid' not in d[0]] + [d for d in docs if d[0] in ('txn2+mid', 'open3+mid')]
        docs = docs + corpus.accepted_extras(lambda t: PARSER.parse(t, models.File), seed, 30 if tier == 'quick' else 300)
        for name, text in docs:
            try: c02_doc(name, text, prop, rep, rnd, tier)
            except Exception: rep.fail(f'{name}:driver-error', traceback.format_exc()[-500:], dict(mode='c02', doc=name))
    if not rep.d['samples']: rep.d['samples'].append(dict(note='see rule'))
    return rep


def replay_case(case):
    rep = Report('tokens', 'replay'); rnd = random.Random(0)
    if case['mode'] == 'c12':
        c12_class(getattr(models, case['cls']), 'thorough', rnd, rep)
    elif case['mode'] == 'c12lex':
        c12_lexemes('thorough', rnd, rep)
    elif case['mode'] == 'c12bc':
        c12_block_comment('thorough', rnd, rep)
    else:
        c02_doc(case['doc'], corpus.lookup(case['doc']), case.get('prop', 'C02'), rep, rnd, 'thorough')
    return '\n'.join(f['message'] for f in rep.d['failures'][:5]) or None


if __name__ == '__main__':
    main(run, replay_case)
