"""Bounded stand-in shared by C03, C04, C05, C06, C09, C11, C19, C20: every settable property of every model of every corpus
document, driven by reflection over the descriptor kinds, with run-time contracts (oracles) evaluated on the real objects.

Each case: parse the document afresh, locate the target model by DFS index, apply ONE operation (quick) or a short history
(thorough), then evaluate the oracles of the requested property.  Failures carry a replayable case."""
import copy, datetime, decimal, inspect, io, random, re, traceback
from autobean_refactor import parser as P, models, printer
from autobean_refactor.models import base
from rtc import tree
from drivers import corpus
from drivers.common import Report, main

PARSER = P.Parser()


def parse(text):
    return PARSER.parse(text, models.File)


def tree_models(root):
    out = []

    def go(m):
        if isinstance(m, base.RawTokenModel): return
        out.append(m)
        for c in tree.real_children(m): go(c)
    go(root)
    return out


def kind_of(cls, name):
    a = inspect.getattr_static(cls, name, None)
    return type(a).__name__ if a is not None else None


def props(cls):
    out = []
    for n in dir(cls):
        if n.startswith('_'): continue
        k = kind_of(cls, n)
        if k and (k.endswith('_property') or k == 'custom_property' or k == 'property'): out.append((n, k))
    return out


# ---------------------------------------------------------------- donors
_DONORS = None


def donors():
    """class name -> list of (document name, model index) of instances across the corpus"""
    global _DONORS
    if _DONORS is None:
        _DONORS = {}
        for name, text in corpus.documents():
            f = parse(text)
            for i, m in enumerate(tree_models(f)):
                _DONORS.setdefault(type(m).__name__, []).append((name, i))
    return _DONORS


_DOCS = dict(corpus.documents())


def donor_model(cls_name, k):
    lst = donors().get(cls_name, [])
    if not lst: return None
    name, i = lst[k % len(lst)]
    return tree_models(parse(_DOCS[name]))[i]


# ---------------------------------------------------------------- operations
def enumerate_ops(m, mi):
    """operations applicable to model m (index mi): tuples (mi, prop, action, arg)"""
    cls = type(m)
    ops = []
    for n, k in props(cls):
        if n in ('first_token', 'last_token', 'token_store', 'tokens'): continue
        if 'spacing' in n: continue
        try:
            cur = getattr(m, n)
        except Exception:
            continue
        if k == 'required_node_property':
            ops += [(mi, n, 'set-copy', 0), (mi, n, 'set-donor', 1), (mi, n, 'set-donor', 2), (mi, n, 'set-attached', 0), (mi, n, 'set-root', 0)]
        elif k == 'optional_node_property':
            ops += [(mi, n, 'set-none', 0), (mi, n, 'set-copy', 0), (mi, n, 'set-donor', 1), (mi, n, 'set-donor', 3), (mi, n, 'set-attached', 0), (mi, n, 'set-root', 0)]
        elif k in ('required_value_property',):
            ops += [(mi, n, 'val-donor', 1), (mi, n, 'val-donor', 2), (mi, n, 'val-same', 0)]
        elif k.startswith('optional_') and k.endswith('_property'):
            ops += [(mi, n, 'set-none', 0), (mi, n, 'val-donor', 1), (mi, n, 'val-donor', 3), (mi, n, 'val-same', 0)]
            if n in ('leading_comment', 'trailing_comment'): ops += [(mi, n, 'val-paragraphs', 0)]
            if k in ('optional_decimal_property', 'optional_meta_value_property') or n.endswith('_comment'): ops += [(mi, n, 'val-falsy', 0)]
            if k == 'optional_meta_value_property': ops += [(mi, n, 'val-falsy', 1)]
        elif k.startswith('repeated_') and k.endswith('_property') or k in ('repeated_raw_meta_item_property', 'repeated_meta_item_property'):
            try: ln = len(cur)
            except Exception: continue
            if is_mapping(cur):
                for i in sorted({0, ln - 1}):
                    if 0 <= i < ln: ops += [(mi, n, 'setkey', i), (mi, n, 'delkey', i), (mi, n, 'popkey', i)]
                ops += [(mi, n, 'setkey-new', 0), (mi, n, 'delkey-missing', 0), (mi, n, 'pop-default-missing', 0), (mi, n, 'setdefault-new', 0), (mi, n, 'update-two', 0),
                        (mi, n, 'map-read', 0)]
                if ln: ops += [(mi, n, 'setdefault-existing', 0), (mi, n, 'popitem', 0), (mi, n, 'pop-default-existing', ln - 1), (mi, n, 'map-clear', 0), (mi, n, 'pop-int', 0), (mi, n, 'del-int', ln - 1)]
                continue
            if n.endswith('_with_comments'): ops += [(mi, n, 'ins-comment', 0), (mi, n, 'ins-comment', ln), (mi, n, 'unclaim-foreign', 0), (mi, n, 'claim-foreign', 0)]
            for i in sorted({0, 1, ln - 1, ln, -1}):
                if -ln <= i <= ln: ops.append((mi, n, 'ins', i))
                if -ln <= i < ln:
                    ops += [(mi, n, 'pop', i), (mi, n, 'setitem', i)]
            if ln: ops += [(mi, n, 'remove', 0), (mi, n, 'remove', ln - 1), (mi, n, 'reverse', 0), (mi, n, 'list-read', 0), (mi, n, 'remove-missing', 0)]
            ops += [(mi, n, 'iadd2', 0), (mi, n, 'extend0', 0)]
            ops += [(mi, n, 'append', 0), (mi, n, 'extend2', 0), (mi, n, 'clear', 0), (mi, n, 'del-slice', (0, 2)), (mi, n, 'ins2-front', 0),
                    (mi, n, 'slice-set', (0, 1)), (mi, n, 'slice-set', (1, 1)), (mi, n, 'pop', ln), (mi, n, 'setitem', ln), (mi, n, 'ins-attached', 0)]
            if ln >= 2: ops += [(mi, n, 'step-set', (None, None, 2)), (mi, n, 'step-set', (None, None, -1)), (mi, n, 'step-set', (ln - 1, 0, -2)), (mi, n, 'step-set', (1, None, 2)),
                                (mi, n, 'step-del', (None, None, 2)), (mi, n, 'step-del', (None, None, -2)), (mi, n, 'step-set-badlen', (None, None, 2))]
            if n.startswith('raw_'): ops += [(mi, n, 'root-ins', 0), (mi, n, 'root-append', 0), (mi, n, 'root-setitem', 0), (mi, n, 'root-slice', 0), (mi, n, 'root-extend', 0)]
    return ops


def fresh_value_for(view, k):
    """an in-domain value that can be inserted into the repeated view `view` (taken from a donor view of the same property)"""
    raise NotImplementedError


class Refused(Exception):
    pass


def apply_op(f, op):
    """returns (target model, parent of the change (model), description); raises whatever the API raises"""
    mi, n, action, arg = op
    ms = tree_models(f)
    m = ms[mi]
    cls = type(m)
    k = kind_of(cls, n)
    cur = getattr(m, n)
    if action == 'set-none':
        setattr(m, n, None); return m, (('set' if k == 'optional_node_property' else 'val'), n, None)
    if action == 'set-copy':
        if cur is None:
            d = pick_donor_value(m, n, 1, raw=True)
            if d is None: raise Refused('no donor')
            setattr(m, n, d); return m, ('set', n, d)
        c = copy.deepcopy(cur); setattr(m, n, c); return m, ('set', n, c)
    if action == 'set-donor':
        d = pick_donor_value(m, n, arg, raw=True)
        if d is None: raise Refused('no donor')
        setattr(m, n, d); return m, ('set', n, d)
    if action == 'set-attached':
        # a node that lives in ANOTHER document must be refused (C19) -- it is not copied first
        dm = donor_model(cls.__name__, 1)
        d = getattr(dm, n, None) if dm is not None else None
        if d is None or isinstance(d, (str, int)): raise Refused('no donor')
        before = tree.store_text(dm.token_store)
        try:
            setattr(m, n, d)
        except Exception:
            if tree.store_text(dm.token_store) != before: raise AssertionError('C19: refusal changed the donor document')
            raise
        if isinstance(d, base.RawTokenModel) or d.token_store is not m.token_store: pass
        if tree.store_text(dm.token_store) != before and d is not getattr(m, n):
            raise AssertionError('donor document changed although node was not moved')
        raise AssertionError(f'C19: node attached elsewhere was accepted (donor text before {before!r}, after {tree.store_text(dm.token_store)!r})') if tree.store_text(dm.token_store) == before and len(before) > len(tree.model_text(d)) else Refused('whole-document donor')
    if action == 'set-root':
        # the root of this very document (a node that contains the target): must be refused without touching the document (C19)
        if m is f: raise Refused('root property')
        setattr(m, n, f)
        raise AssertionError('C19: the root of the same document was accepted as a child')
    if action == 'val-paragraphs':
        setattr(m, n, 'p1\n\np2'); return m, ('val', n, 'p1\n\np2')       # a comment of two paragraphs: an empty comment line in between
    if action == 'val-falsy':
        # in-domain values that are falsy in Python: zero, the empty string, False (a guard written `if value:` instead of `if value is not None:` drops them)
        import decimal
        k_ = dict(props(type(m)))[n]
        v = '' if n.endswith('_comment') else (False if arg else decimal.Decimal('0'))
        setattr(m, n, v); return m, ('val', n, v)
    if action == 'val-same':
        setattr(m, n, cur); return m, ('val', n, cur)
    if action == 'val-donor':
        d = pick_donor_value(m, n, arg, raw=False)
        if d is None: raise Refused('no donor')
        setattr(m, n, d); return m, ('val', n, d)
    # repeated views
    view = cur
    def item(j=1):
        dv = pick_donor_item(m, n, j)
        if dv is None: raise Refused('no donor item')
        return dv
    if action in ('pop-default-missing', 'setdefault-new', 'setdefault-existing', 'update-two', 'popitem', 'pop-default-existing', 'map-clear', 'map-read', 'pop-int', 'del-int'):
        keys = list(view.keys()); sentinel = object()
        if action == 'pop-default-missing':
            r = view.pop('zzmissing', sentinel)
            if r is not sentinel: raise AssertionError('C10: pop(missing key, default) did not return the default')
            return m, ('key', n, 'zzmissing')
        if action == 'pop-default-existing':
            key = keys[arg]; want = view[key]; r = view.pop(key, sentinel)
            if r is sentinel: raise AssertionError('C10: pop(existing key, default) returned the default')
            check_handed_out(r, f'{n}.pop({key!r}, default)')
            if key in view and keys.count(key) == 1: raise AssertionError('C10: pop(key) left the key in the mapping')
            return m, ('key', n, key)
        if action == 'setdefault-new':
            v = mapping_value(view, m, n); r = view.setdefault('zznew', v)
            if 'zznew' not in view: raise AssertionError('C10: setdefault(new key) did not add the key')
            return m, ('list', n)
        if action == 'setdefault-existing':
            key = keys[arg]; before = view[key]; r = view.setdefault(key, mapping_value(view, m, n, key))
            if view[key] != before: raise AssertionError('C10: setdefault(existing key) changed the value')
            return m, ('list', n, 0)
        if action == 'update-two':
            view.update({'zzone': mapping_value(view, m, n, 'zzone'), 'zztwo': mapping_value(view, m, n, 'zztwo')})
            if list(view.keys())[-2:] != ['zzone', 'zztwo']: raise AssertionError(f'C10: update() did not append the two new keys in order: {list(view.keys())}')
            return m, ('list', n)
        if action == 'popitem':
            k_, v_ = view.popitem(); check_handed_out(v_, f'{n}.popitem()')
            return m, ('key', n, k_)
        if action == 'map-clear': view.clear(); return m, ('list', n)
        if action == 'pop-int': check_handed_out(view.pop(0), f'{n}.pop(0)'); return m, ('list', n)
        if action == 'del-int': del view[arg]; return m, ('list', n)
        if action == 'map-read':
            # first-match / ordered-dict reading: keys, values, items, get, in, len, reversed agree with the item list
            items = list(view.items())
            if [k_ for k_, _ in items] != keys or len(view) != len(keys): raise AssertionError('C10: items()/keys()/len() disagree')
            if list(reversed(view.keys())) != keys[::-1]: raise AssertionError('C10: reversed(keys()) is not keys() reversed')
            vals = list(view.values())
            for k_ in set(keys):
                first = next(v_ for kk, v_ in items if kk == k_)
                if view[k_] != first or view.get(k_) != first or k_ not in view: raise AssertionError(f'C10: mapping[{k_!r}] is not the first item with that key')
            if 'zzmissing' in view or view.get('zzmissing', 7) != 7: raise AssertionError('C10: a missing key is reported present')
            raise Refused('read only')
    if action in ('setkey', 'delkey', 'popkey', 'setkey-new', 'delkey-missing'):
        keys = list(view.keys())
        if action == 'setkey-new':
            view['zznew'] = mapping_value(view, m, n); return m, ('list', n)
        if action == 'delkey-missing':
            del view['zzmissing']; raise AssertionError('C19: deleting a missing key was accepted')
        key = keys[arg]
        if action == 'setkey': view[key] = mapping_value(view, m, n, key); return m, ('key', n, key)
        # mapping semantics (C10): deleting / popping a key removes the FIRST entry with that key and nothing else, whatever else (comments) sits in the raw list
        ids_before = [id(x) for x in getattr(m, 'raw_' + n if not n.startswith('raw_') else n).values()] if action in ('delkey', 'popkey') else None
        first = keys.index(key); want_keys = keys[:first] + keys[first + 1:]
        if action == 'delkey': del view[key]
        else: check_handed_out(view.pop(key), f'{n}.pop({key!r})')
        if list(view.keys()) != want_keys: raise AssertionError(f'C10: {n}: removing key {key!r} from {keys} leaves {list(view.keys())}, a dict leaves {want_keys}')
        ids_after = [id(x) for x in getattr(m, 'raw_' + n if not n.startswith('raw_') else n).values()]
        if ids_after != ids_before[:first] + ids_before[first + 1:]: raise AssertionError(f'C10: {n}: removing key {key!r} (entry {first}) did not remove exactly that item')
        return m, ('key', n, key)
    if action in ('unclaim-foreign', 'claim-foreign'):
        # a batch that names a comment of ANOTHER document next to this field's own comments: must be refused as a whole (C19)
        other = parse('\n; foreign\n\n2000-01-01 open Assets:Zz\n')
        foreign = [t for t in other.token_store if isinstance(t, models.BlockComment)][0]
        def state():
            return (tree.store_text(f.token_store), [(id(t), t.claimed) for t in f.token_store if isinstance(t, models.BlockComment)], [id(x) for x in view], [id(t) for t in f.token_store])
        if action == 'unclaim-foreign':
            own = [x for x in view if isinstance(x, models.BlockComment)]
            if not own: raise Refused('no own comment entry')
            call = lambda: view.unclaim_interleaving_comments(own + [foreign])
        else:
            released = list(view.unclaim_interleaving_comments())
            if not released: raise Refused('no own comment entry')
            call = lambda: view.claim_interleaving_comments(released + [foreign])
        before = state()
        try: call()
        except ValueError:
            after = state()
            if after != before:
                what = [n_ for n_, a_, b_ in zip(('text', 'claimed flags', 'entries', 'token order'), before, after) if a_ != b_]
                raise AssertionError(f'C19: {action[:-8]}_interleaving_comments refused a batch naming a foreign comment, but changed {what}')
            raise Refused('refused cleanly')
        raise AssertionError('C19: a batch naming a comment of another document was accepted')
    if action == 'ins-comment':
        view.insert(arg, models.BlockComment.from_value('inserted', indent='    ' if type(m).__name__ != 'File' else '')); return m, ('list', n)
    if action == 'ins': view.insert(arg, item()); return m, ('list', n)
    if action == 'pop': check_handed_out(view.pop(arg), f'{n}.pop({arg})'); return m, ('list', n)
    if action == 'setitem': view[arg] = item(); return m, ('list', n)
    if action == 'remove':
        x = view[arg]; before = list(view)
        first = next(i_ for i_, y in enumerate(before) if y is x or y == x)       # list.remove takes out the first element equal to x
        view.remove(x)
        want = [id(y) for i_, y in enumerate(before) if i_ != first]
        if isinstance(x, base.RawModel) and [id(y) for y in view] != want: raise AssertionError('C10: remove(x) did not remove exactly the first occurrence')      # (a removed node is dead: compare by identity)
        if not isinstance(x, base.RawModel) and list(view) != [y for i_, y in enumerate(before) if i_ != first]: raise AssertionError('C10: remove(x) did not remove exactly the first occurrence')
        return m, ('list', n)
    if action == 'remove-missing':
        dv = item()
        if dv in list(view): raise Refused('donor value present')
        view.remove(dv); raise AssertionError('C19: remove() of a value that is not in the list was accepted')
    if action == 'reverse':
        before = [x for x in view]; view.reverse()
        return m, ('list', n, max(len(before), 1))
    if action == 'iadd2':
        view += [item(1), item(2)]; return m, ('list', n)
    if action == 'extend0': view.extend([]); return m, ('list', n, 0)
    if action == 'list-read':
        lst = list(view); ln_ = len(lst)
        if len(view) != ln_ or [view[i] for i in range(ln_)] != lst or [view[i] for i in range(-ln_, 0)] != lst: raise AssertionError('C10: iteration, len and indexing disagree')
        if view[0:ln_] != lst or view[::-1] != lst[::-1] or view[1:] != lst[1:] or view[:-1] != lst[:-1] or view[::2] != lst[::2]: raise AssertionError('C10: slicing disagrees with list slicing')
        if list(reversed(view)) != lst[::-1]: raise AssertionError('C10: reversed() disagrees')
        for i_, x in enumerate(lst):
            if x not in view: raise AssertionError('C10: an element is not `in` its view')
            if view.index(x) != lst.index(x) or view.count(x) != lst.count(x): raise AssertionError('C10: index()/count() disagree with the list')
        for bad in (ln_, -ln_ - 1):
            try: view[bad]; raise AssertionError(f'C10: view[{bad}] did not raise IndexError')
            except IndexError: pass
        raise Refused('read only')
    if action == 'append': view.append(item()); return m, ('list', n)
    if action == 'extend2': view.extend([item(1), item(2)]); return m, ('list', n)
    if action == 'clear': view.clear(); return m, ('list', n)
    if action == 'del-slice': del view[arg[0]:arg[1]]; return m, ('list', n)
    if action == 'ins2-front': view[0:0] = [item(1), item(2)]; return m, ('list', n)
    if action == 'slice-set': view[arg[0]:arg[0] + arg[1]] = [item(1), item(2)]; return m, ('list', n)
    if action.startswith('root-'):
        if m is f and False: raise Refused('')
        if action == 'root-ins': view.insert(0, f)
        elif action == 'root-append': view.append(f)
        elif action == 'root-extend': view.extend([f])
        elif action == 'root-setitem':
            if len(view) == 0: raise Refused('empty')
            view[0] = f
        elif action == 'root-slice': view[0:1] = [f]
        raise AssertionError('C19: the root of the same document was accepted as an item')
    if action in ('step-set', 'step-del', 'step-set-badlen'):
        sl = slice(*arg); cnt = len(range(len(view))[sl])
        if action == 'step-del': del view[sl]; return m, ('list', n)
        if action == 'step-set-badlen':
            view[sl] = [item(1 + i) for i in range(cnt + 1)]
            raise AssertionError('C19: an extended slice was assigned a sequence of the wrong length')
        view[sl] = [item(1 + i) for i in range(cnt)]; return m, ('list', n, max(cnt, 1))
    if action == 'ins-attached':
        dm = donor_model(cls.__name__, 1)
        dview = getattr(dm, n, None) if dm is not None else None
        if dview is None or len(dview) == 0 or isinstance(dview[0], (str, int, decimal.Decimal, datetime.date, bool)) or dview[0] is None: raise Refused('no attached donor')
        view.insert(0, dview[0])
        raise AssertionError('C19: an item attached to another document was accepted')
    raise Refused(f'unknown action {action}')


def check_handed_out(v, what):
    """a node handed out by pop() leaves the document as a self-contained tree: valid in the store it reports, and that store holds exactly its tokens (C05)"""
    if not isinstance(v, base.RawModel) or isinstance(v, base.RawTokenModel): return
    if v.token_store is None: raise AssertionError(f'C05: {what} handed out a {type(v).__name__} without a store')
    msg = tree.valid(v)
    if msg: raise AssertionError(f'C05: {what} handed out a {type(v).__name__} that is not a valid tree of its own store: {msg}')
    if [id(t) for t in v.token_store] != [id(t) for t in v.tokens]: raise AssertionError(f'C05: {what} handed out a {type(v).__name__} whose store holds other tokens than its own')


def mapping_value(view, m, n, key=None):
    """raw mapping views take MetaItem nodes, value views take plain values"""
    if n.startswith('raw_'):
        return models.MetaItem.from_value(key or 'zznew', 'replaced', indent='    ')
    return 'replaced'


def is_mapping(v):
    return hasattr(v, 'keys') and hasattr(v, 'items')


def pick_donor_value(m, n, k, raw):
    for j in range(k, k + 12):
        dm = donor_model(type(m).__name__, j)
        if dm is None: return None
        try: v = getattr(dm, n)
        except Exception: continue
        if v is None: continue
        if raw: return copy.deepcopy(v)
        return v
    return None


def pick_donor_item(m, n, k):
    for j in range(k, k + 40):
        dm = donor_model(type(m).__name__, j)
        if dm is None: return None
        try: view = getattr(dm, n)
        except Exception: continue
        if is_mapping(view):
            raise Refused('mapping view')
        try: ln = len(view)
        except Exception: return None
        if ln:
            v = view[(k + j) % ln]
            if isinstance(v, base.RawModel): return copy.deepcopy(v)
            return v
    return None


# ---------------------------------------------------------------- oracles
def snapshot(f, m):
    store = f.token_store
    toks = list(store)
    idx = {id(t): i for i, t in enumerate(toks)}
    a, b = idx[id(m.first_token)], idx[id(m.last_token)]
    kids = [(c, tree.model_text(c)) for c in tree.real_children(m) if not isinstance(c, base.RawTokenModel) or type(c).__name__ not in tree.TRIVIA]
    return dict(text=tree.store_text(store), before=toks[:a], after=toks[b + 1:], pre=''.join(t.raw_text for t in toks[:a]), post=''.join(t.raw_text for t in toks[b + 1:]),
                kids=kids, structure=tree.flat_structure(f), all=toks, claimed=[(id(t), t.claimed) for t in toks if isinstance(t, models.BlockComment)],
                entries=[(type(x).__name__, n_, [id(e) for e in getattr(x, n_)]) for x in tree_models(f) for n_ in dir(type(x)) if n_.endswith('_with_comments')])


def check_after(prop, f, m, snap, opinfo, changed_child_ids):
    """oracles after a successful operation; returns None or message"""
    text = tree.store_text(f.token_store)
    if prop in ('C03', 'C05', 'C06', 'C19', 'C09'):
        v = tree.valid(f)
        if v and prop in ('C05',): return 'C05 Valid: ' + v
    if prop == 'C03':
        if not text.startswith(snap['pre']): return f'C03: characters before the parent changed: {snap["pre"][-40:]!r} -> {text[:len(snap["pre"])][-40:]!r}'
        if not text.endswith(snap['post']): return f'C03: characters after the parent changed: {snap["post"][:40]!r} -> {text[len(text) - len(snap["post"]):][:40]!r}'
        toks = list(f.token_store)
        if toks[:len(snap['before'])] != snap['before'] or any(x is not y for x, y in zip(toks[:len(snap['before'])], snap['before'])): return 'C03: tokens before the parent lost identity/order'
        na = len(snap['after'])
        tail = toks[len(toks) - na:] if na else []
        if any(x is not y for x, y in zip(tail, snap['after'])): return 'C03: tokens after the parent lost identity/order'
        # only the child itself may change: among the children that were there before, at most ONE may print differently
        # (the one the property denotes - e.g. the Date behind `.date`, the cost behind `number_per`); with a node-level add/remove none may
        diff = []
        if opinfo[0] == 'key':
            # a key-addressed operation may touch the item with that key only: every other pre-existing meta item keeps its text and stays in the document
            for c, t in snap['kids']:
                if type(c).__name__ == 'MetaItem' and getattr(c, 'key', None) != opinfo[2]:
                    still = [x for x in tree.real_children(m) if x is c]
                    if not still: return f'C03: {opinfo[1]}[{opinfo[2]!r}] removed the sibling item {t!r}'
                    if tree.model_text(c) != t: return f'C03: {opinfo[1]}[{opinfo[2]!r}] changed the sibling item {t!r} -> {tree.model_text(c)!r}'
            keys_now = [getattr(c, 'key', None) for c in tree.real_children(m) if type(c).__name__ == 'MetaItem']
            if len(keys_now) != len(set(keys_now)) and len({k_ for _, k_ in [(0, 0)]}) and len([c for c, t in snap['kids'] if type(c).__name__ == 'MetaItem']) == len({getattr(c, 'key', None) for c, t in snap['kids'] if type(c).__name__ == 'MetaItem'}):
                return f'C03: {opinfo[1]}[{opinfo[2]!r}] left a duplicated key: {keys_now}'
        for c, t in snap['kids']:
            if id(c) in changed_child_ids: continue
            still = [x for x in tree.real_children(m) if x is c]
            if still and tree.model_text(c) != t: diff.append(f'{type(c).__name__} {t!r} -> {tree.model_text(c)!r}')
        allowed = 1 if opinfo[0] in ('val', 'list', 'key') and not changed_child_ids else 0
        if opinfo[0] == 'list' and not changed_child_ids: allowed = opinfo[2] if len(opinfo) > 2 else 1      # value-level views update their items in place: one per assigned position
        if len(diff) > allowed: return f'C03: sibling text changed: {diff[:3]}'
    if prop == 'C06':
        try:
            g = parse(text)
        except Exception as e:
            return f'C06: printed text no longer parses ({type(e).__name__}: {str(e)[:120]}); text={text!r}'
        if tree.flat_structure(g) != tree.flat_structure(f):
            if removed_glued(m, snap): return f'C06: re-parse differs (removed node was glued to the next token); text={text[:300]!r}'
            return f'C06: re-parse differs from the model; text={text[:300]!r}'
        # (the positional string slots of a transaction are parse slots: writing them directly, instead of through payee / narration, is outside the property's edits)
        fa, fb = (field_values(f), field_values(g)) if not _SLOT_WRITTEN[0] else (0, 0)
        if fa != fb:
            d_ = next(((x, y) for x, y in zip(fa, fb) if x != y), (fa[-1:], fb[-1:]))
            return f'C06: re-parse has other field values than the model: {d_[0]} vs {d_[1]}; text={text[:200]!r}'
    if prop == 'C09' and opinfo[0] == 'val' and not (type(m).__name__ == 'Transaction' and opinfo[1] in ('payee', 'narration', 'string0', 'string1', 'string2')) \
            and type(m).__name__ != 'CostSpec':      # the dependent groups are checked against their record models by drivers/special.py
        _, n, v = opinfo
        got = getattr(m, n)
        if got != v: return f'C09: {type(m).__name__}.{n} = {v!r} reads back {got!r}'
    return None


_VALUE_KINDS = ('required_value_property', 'optional_string_property', 'optional_decimal_property', 'optional_date_property', 'optional_indented_string_property', 'custom_property', 'property')


def field_values(f):
    """per tree model (document order): the values read through its value-level properties (comments aside) - which FIELD a value sits in, not only which tokens exist"""
    out = []
    for m in tree_models(f):
        vals = []
        for n, k in props(type(m)):
            if k not in _VALUE_KINDS or n.startswith('raw_') or n.endswith('_comment') or n in ('first_token', 'last_token', 'token_store', 'tokens', 'indent_by', 'string0', 'string1', 'string2') or 'spacing' in n: continue
            try: v = getattr(m, n)
            except Exception as e: v = f'<{type(e).__name__}>'
            if isinstance(v, (str, int, bool, type(None))) or type(v).__name__ in ('Decimal', 'date'): vals.append((n, repr(v)))
        out.append((type(m).__name__, tuple(vals)))
    return out


def removed_glued(m, snap):
    """a child of m that the operation removed was, before the operation, directly followed by a non-blank token (no spacing between them): the
    shape of the known finding C06-removal-of-a-glued-optional-node; used only to name the failure precisely"""
    now = {id(x) for x in tree.real_children(m)}
    pos = {id(t): i for i, t in enumerate(snap['all'])}
    for c, _ in snap['kids']:
        if id(c) in now: continue
        try: i = pos.get(id(c.last_token))
        except Exception: continue
        if i is None: continue
        for t2 in snap['all'][i + 1:]:
            if t2.raw_text: 
                if not t2.raw_text[0].isspace(): return True
                break
    return False


def repeated_props(m):
    return [n for n, k in props(type(m)) if (k.startswith('repeated_') and k.endswith('_property'))]


def touch_views(f):
    """materialise every cached view (their index tables are then kept up to date by notifications, which is what C10 is about)"""
    for m in tree_models(f):
        for n in repeated_props(m):
            try: len(getattr(m, n))
            except Exception: pass


def views_consistent(m):
    """every cached view of m against the same view of a deep copy of m (which rebuilds all index tables from scratch)"""
    try:
        c = copy.deepcopy(m)
    except Exception as e:
        return f'deepcopy failed: {type(e).__name__}: {e}'
    for n in repeated_props(m):
        try:
            a, b = getattr(m, n), getattr(c, n)
            if is_mapping(a):
                la, lb = list(a.items()), list(b.items())
            else:
                la, lb = list(a), list(b)
        except Exception as e:
            return f'C10: reading view {type(m).__name__}.{n} raised {type(e).__name__}: {e}'
        if len(la) != len(lb) or any(not (x == y) for x, y in zip(la, lb)):
            return f'C10: cached view {type(m).__name__}.{n} = {la!r:.200} but recomputed from the raw list it is {lb!r:.200}'
    return None


_SLOT_WRITTEN = [False]      # this history has written a positional parse slot of a transaction directly (string0/1/2): from then on which FIELD a string sits in is not compared


def run_case(prop, docname, ops, lf=None):
    if lf:
        from drivers.common import set_load_factor
        set_load_factor(lf)
        try: return run_case(prop, docname, ops)
        finally: set_load_factor()
    text = _DOCS[docname]
    f = parse(text)
    touch_views(f)
    _SLOT_WRITTEN[0] = False
    for step, op in enumerate(ops):
        if re.fullmatch(r'(raw_)?string[012]', str(op[1])): _SLOT_WRITTEN[0] = True
        ms = tree_models(f)
        if op[0] >= len(ms): return None, 'skip'
        m = ms[op[0]]
        snap = snapshot(f, m)
        old_children = {id(c) for c in tree.real_children(m)}
        try:
            target, info = apply_op(f, tuple(op))
        except Refused:
            return None, 'skip'
        except AssertionError as e:
            if prop == 'C19' or (prop == 'C05' and str(e).startswith('C05')) or (prop == 'C10' and str(e).startswith('C10')): return f'step {step} {op}: {e}', 'fail'
            return None, 'skip'
        except Exception as e:
            # a refused operation must leave the document exactly as it was (C19)
            if prop == 'C19':
                after = tree.store_text(f.token_store)
                if after != snap['text']: return f'step {step} {op}: refused with {type(e).__name__}({str(e)[:80]}) but the text changed: {snap["text"]!r} -> {after!r}', 'fail'
                if [id(t) for t in f.token_store] != [id(t) for t in snap['all']]: return f'step {step} {op}: refused with {type(e).__name__} but tokens changed', 'fail'
                v = tree.valid(f)
                if v: return f'step {step} {op}: refused with {type(e).__name__} but the tree is no longer valid: {v}', 'fail'
                if tree.flat_structure(f) != snap['structure']: return f'step {step} {op}: refused with {type(e).__name__} but the tree changed', 'fail'
                if [(id(t), t.claimed) for t in f.token_store if isinstance(t, models.BlockComment)] != snap['claimed']: return f'step {step} {op}: refused with {type(e).__name__} but the claimed flags of comments changed', 'fail'
                if [(type(x).__name__, n_, [id(e_) for e_ in getattr(x, n_)]) for x in tree_models(f) for n_ in dir(type(x)) if n_.endswith('_with_comments')] != snap['entries']:
                    return f'step {step} {op}: refused with {type(e).__name__} but the entries of a repeated field changed', 'fail'
            return None, 'refused'
        changed = {id(c) for c in tree.real_children(m)} ^ old_children
        msg = check_after(prop, f, m, snap, info, changed | {id(c) for c in tree.real_children(m) if id(c) not in old_children})
        if not msg and prop == 'C10': msg = views_consistent(m)
        if msg: return f'step {step} {op}: {msg}', 'fail'
    return None, 'ok'


def classify(op, msg):
    m = re.sub(r"\d+", 'N', msg.split(': ', 2)[-1])
    m = re.sub(r"'[^']*'", 'S', m)
    return f'{op[1]}.{op[2]}:{m[:70]}'


def all_single_ops(docs):
    for name, text in docs:
        f = parse(text)
        for mi, m in enumerate(tree_models(f)):
            for op in enumerate_ops(m, mi):
                yield name, op


def run(prop, tier, seed):
    rep = Report('docops', 'corpus documents (drivers/corpus.py) x every tree model x every property (by descriptor kind) x {clear, copy, donor values, list ops at 0/1/len-1/len/-1, '
                 'slices, attached donors}; oracle = the run-time contract of the property; distinct by (document, model index, property, action, arg); non-trivial = the API accepted or refused the call (not skipped)',
                 bound='1 operation per fresh parse (quick); + sampled histories of 2 (thorough)')
    rnd = random.Random(seed)
    docs = corpus.documents()
    if tier == 'quick':
        docs = [d for d in docs if '+lead' not in d[0]]
    cases = list(all_single_ops(docs))
    if tier == 'quick' and len(cases) > 4500:
        # rare shapes (refusals with the document's own root, foreign comment batches, extended slices, paragraph comments) get their own sample,
        # so that they are never crowded out by the bulk of ordinary operations
        RARE = ('val-falsy', 'unclaim-foreign', 'claim-foreign', 'set-root', 'root-ins', 'root-append', 'root-extend', 'root-setitem', 'root-slice', 'step-set', 'step-del', 'step-set-badlen', 'val-paragraphs',
                'pop-default-missing', 'setdefault-new', 'setdefault-existing', 'update-two', 'popitem', 'pop-default-existing', 'map-clear', 'map-read', 'pop-int', 'del-int',
                'remove', 'remove-missing', 'reverse', 'iadd2', 'extend0', 'list-read')
        # the hand-written documents (each there for one input shape: zero numbers, empty strings, glued tokens, ...) get EVERY operation: their point is a
        # particular (field, operation) pair, which a sample of 1 in 12 misses; the directive-variant families and the long mixed files are sampled
        special = [c for c in cases if not re.fullmatch(r'[a-z_]+\d+(\+lead|\+mid)?', c[0]) and not c[0].startswith('mixed')]
        sp_ = set(special); cases = [c for c in cases if c not in sp_]
        rare = [c for c in cases if c[1][2] in RARE]; rest = [c for c in cases if c[1][2] not in RARE]
        rnd.shuffle(rare); rnd.shuffle(rest)
        by_action = {}
        for c in rare: by_action.setdefault(c[1][2], []).append(c)
        picked = [c for a_ in sorted(by_action) for c in by_action[a_][:90]]
        cases = special + picked + rest[:4500]
        # the inputs of the open known findings are run under every seed, so that the KNOWN-FINDING lines do not depend on the sample
        have = set(cases); cases += [c for c in rest[4500:] if c[0] == 'glued' and c[1][2] == 'set-none' and c not in have]
    for name, op in cases:
        if not rep.mine((name, op)): continue
        try:
            msg, status = run_case(prop, name, [op])
        except Exception:
            msg, status = 'driver error: ' + traceback.format_exc()[-600:], 'fail'
        rep.case((name, op), status != 'skip', dict(doc=name, ops=[op]) if rnd.random() < 0.0005 else None)
        if msg: rep.fail(f'{type_name(name, op)}.{classify(op, msg)}', msg, dict(prop=prop, doc=name, ops=[op]))
    # the same operations on a store of many small blocks (block size 4: every document spans several blocks, edits split and merge them)
    lf_cases = list(cases); random.Random(seed + 1).shuffle(lf_cases)
    for name, op in lf_cases[:1500 if tier == 'quick' else 6000]:
        if not rep.mine((name, op, 'lf4')): continue
        try: msg, status = run_case(prop, name, [op], lf=4)
        except Exception: msg, status = 'driver error: ' + traceback.format_exc()[-600:], 'fail'
        rep.case((name, op, 'lf4'), status != 'skip')
        if msg: rep.fail(f'{type_name(name, op)}.{classify(op, msg)}[blocks of 4]', msg, dict(prop=prop, doc=name, ops=[op], lf=4))
    # histories of two operations through two different views of the same model (aliasing views: C10, C03, C06)
    pair_docs = docs if tier == 'thorough' else [d for d in docs if d[0] in ('mixed-tags-links', 'txn2', 'open3', 'meta-comments-postings', 'custom1', 'document1')]
    for name, text in pair_docs:
        f = parse(text)
        for mi, m in enumerate(tree_models(f)):
            rp = repeated_props(m)
            if len(rp) < 2: continue
            for n1 in rp:
                for n2 in rp:
                    if n1 == n2: continue
                    try: map2 = is_mapping(getattr(m, n2)); map1 = is_mapping(getattr(m, n1))
                    except Exception: continue
                    acts1 = (('ins-comment', 0),) if n1.endswith('_with_comments') else ()
                    acts1 += (('ins', 0), ('pop', 0), ('ins', 1)) if not map1 else (('delkey', 0),)
                    acts2 = (('pop', 1), ('setitem', 1), ('pop', -1), ('setitem', 0), ('ins', 1)) if not map2 else (('setkey', 0), ('setkey', 1), ('delkey', 1), ('popkey', 0))
                    for a1 in acts1:
                        for a2 in acts2:
                            hist = [(mi, n1) + a1, (mi, n2) + a2]
                            if not rep.mine((name, tuple(hist))): continue
                            try: msg, status = run_case(prop, name, hist)
                            except Exception: msg, status = 'driver error: ' + traceback.format_exc()[-600:], 'fail'
                            rep.case((name, tuple(hist)), status != 'skip')
                            if msg: rep.fail(f'{type(m).__name__}.{n1}.{a1[0]}+{n2}.{a2[0]}:{classify(hist[1], msg)}', msg, dict(prop=prop, doc=name, ops=hist))
    if tier == 'thorough':
        small = corpus.small_documents()
        singles = list(all_single_ops(small))
        for _ in range(6000):
            (n1, o1), (n2, o2) = rnd.choice(singles), rnd.choice(singles)
            if n1 != n2: continue
            if not rep.mine((n1, o1, o2)): continue
            msg, status = run_case(prop, n1, [o1, o2])
            rep.case((n1, o1, o2), status != 'skip')
            if msg: rep.fail(f'{type_name(n1, o2)}.{classify(o2, msg)}', msg, dict(prop=prop, doc=n1, ops=[o1, o2]))
    if not rep.d['samples']: rep.d['samples'].append(dict(doc=cases[0][0], ops=[cases[0][1]]))
    return rep


_TN = {}


def type_name(docname, op):
    key = (docname, op[0])
    if key not in _TN:
        ms = tree_models(parse(_DOCS[docname]))
        _TN[key] = type(ms[op[0]]).__name__ if op[0] < len(ms) else '?'
    return _TN[key]


def replay_case(case):
    ops = [tuple(tuple(x) if isinstance(x, list) else x for x in o) for o in case['ops']]
    msg, status = run_case(case['prop'], case['doc'], ops, lf=case.get('lf'))
    return msg


if __name__ == '__main__':
    main(run, replay_case)
