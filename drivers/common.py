"""shared plumbing of the bounded stand-ins (run under /venv/bin/python on the real code)"""
import argparse, json, os, sys, time, traceback, zlib


class Report:
    def __init__(self, driver, rule, exhaustive=False, bound=''):
        self.d = dict(driver=driver, rule=rule, bound=bound, exhaustive=exhaustive, evaluations=0, distinct_nontrivial=0, samples=[], failures=[], label='bounded (run-time contracts on the real code; never counted as proved)')
        self.seen = set(); self.keys = set(); self.t0 = time.time()

    def mine(self, key):
        """sharding: the check may run a driver as n processes (env VERIF_SHARD='i/n'); a case belongs to exactly one of them, chosen by a stable hash of its key"""
        sh = os.environ.get('VERIF_SHARD')
        if not sh: return True
        i, n = (int(x) for x in sh.split('/'))
        return zlib.crc32(repr(key).encode()) % n == i

    def case(self, key, nontrivial=True, sample=None):
        self.d['evaluations'] += 1
        if nontrivial and key not in self.seen:
            self.seen.add(key); self.d['distinct_nontrivial'] += 1
        if sample is not None and len(self.d['samples']) < 5: self.d['samples'].append(sample)

    def fail(self, key, message, case):
        """key: stable identification of WHAT fails (used by known_findings matching); case: replayable description"""
        if key in self.keys: return
        self.keys.add(key)
        if len(self.d['failures']) < 40:
            self.d['failures'].append(dict(key=key, message=message[:1500], case=case))

    def write(self, path):
        self.d['driver_wall_s'] = round(time.time() - self.t0, 2)
        json.dump(self.d, open(path, 'w'), indent=1, default=str)


def args():
    ap = argparse.ArgumentParser()
    ap.add_argument('--prop', default='')
    ap.add_argument('--tier', default='quick')
    ap.add_argument('--seed', type=int, default=0)
    ap.add_argument('--out')
    ap.add_argument('--replay')
    return ap.parse_args()


def main(run, replay_case):
    """run(prop, tier, seed) -> Report ; replay_case(case) -> None or error message"""
    a = args()
    if a.replay:
        r = json.load(open(a.replay))
        try:
            msg = replay_case(r['case'])
        except Exception:
            msg = traceback.format_exc()
        if msg:
            print(f"replay {r['key']}: VIOLATION REPRODUCED\n{msg}"); sys.exit(1)
        print(f"replay {r['key']}: holds on this tree"); sys.exit(0)
    rep = run(a.prop, a.tier, a.seed)
    rep.write(a.out)


def set_load_factor(L=1000):
    """the block size of the token store is a module constant (1000): corpus documents fit into one block, so the drivers re-run part of their cases with a small
    block size, under which the same documents span many blocks and ordinary edits split and merge blocks (single-threaded drivers: the constants are set and reset around a case)"""
    from autobean_refactor import token_store as ts
    ts._LOAD_FACTOR = L; ts._DOUBLE_LOAD_FACTOR = L * 2; ts._HALF_LOAD_FACTOR = L // 2; ts._ONE_HALF_LOAD_FACTOR = L + L // 2
