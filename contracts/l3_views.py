UFUNS = {'IsT': ['int', 'bool'], 'rank': ['IARR', 'int', 'int']}
AXIOMS = [
    forall(lambda A_a: rank(A_a, 0) == 0, rank(A_a, 0)),
    forall(lambda A_a, n: implies(n >= 0, rank(A_a, n + 1) == rank(A_a, n) + ite(IsT(sel(A_a, n)), 1, 0)), rank(A_a, n + 1)),
]

@lemma
def rank_mono(A_a, i, j):
    requires(0 <= i and i <= j)
    ensures(0 <= rank(A_a, i) and rank(A_a, i) <= rank(A_a, j) and rank(A_a, j) - rank(A_a, i) <= j - i)
    induction('j', i)
    trigger((rank(A_a, i), rank(A_a, j)))

@lemma
def rank_nonneg(A_a, j):
    requires(0 <= j)
    ensures(0 <= rank(A_a, j) and rank(A_a, j) <= j)
    induction('j', 0)
    trigger(rank(A_a, j))

@lemma
def rank_prefix(A_a, A_b, n):
    requires(0 <= n and forall(lambda k: implies(0 <= k and k < n, sel(A_a, k) == sel(A_b, k))))
    ensures(rank(A_a, n) == rank(A_b, n))
    induction('n', 0)
    trigger((rank(A_a, n), rank(A_b, n)))

@lemma
def rank_shift(A_a, A_b, p, d, n):
    requires(0 <= p and p <= n and 0 <= p + d and forall(lambda k: implies(p <= k and k < n, sel(A_b, k + d) == sel(A_a, k))))
    ensures(rank(A_b, n + d) - rank(A_b, p + d) == rank(A_a, n) - rank(A_a, p))
    induction('n', p)
    trigger((rank(A_a, n), rank(A_b, n + d), rank(A_a, p), rank(A_b, p + d)))

@lemma
def rank_prefix_all(A_a, A_b, l):
    requires(0 <= l and forall(lambda k: implies(0 <= k and k < l, sel(A_a, k) == sel(A_b, k))))
    ensures(forall(lambda n: implies(0 <= n and n <= l, rank(A_a, n) == rank(A_b, n)), rank(A_a, n)))
    induction('l', 0)

@lemma
def rank_shift_all(A_a, A_b, p, d, N):
    # b[k + d] == a[k] on [p, N)  ==>  ranks of b over [p+d, N+d] are the ranks of a over [p, N], shifted; triggered on the b side only
    requires(0 <= p and p <= N and 0 <= p + d and forall(lambda k: implies(p <= k and k < N, sel(A_b, k + d) == sel(A_a, k))))
    ensures(forall(lambda j: implies(p + d <= j and j <= N + d, rank(A_b, j) - rank(A_b, p + d) == rank(A_a, j - d) - rank(A_a, p)), rank(A_b, j)))
    hint(rank(A_a, N + 1) == rank(A_a, N) + ite(IsT(sel(A_a, N)), 1, 0))
    hint(rank(A_b, N + d + 1) == rank(A_b, N + d) + ite(IsT(sel(A_b, N + d)), 1, 0))
    induction('N', p)

@lemma
def rank_lt_all(A_a, N):
    # a matching element strictly below N has a strictly smaller rank than N
    requires(0 <= N)
    ensures(forall(lambda i: implies(0 <= i and i < N and IsT(sel(A_a, i)), rank(A_a, i) + 1 <= rank(A_a, N)), sel(A_a, i)))
    hint(rank(A_a, N + 1) == rank(A_a, N) + ite(IsT(sel(A_a, N)), 1, 0))
    induction('N', 0)

@macro
def RI(idx, A_a, n):
    return (len(idx) == rank(A_a, n)
        and forall(lambda i: implies(0 <= i and i < n and IsT(sel(A_a, i)), idx[rank(A_a, i)] == i), sel(A_a, i))
        and forall(lambda k: implies(0 <= k and k < len(idx), 0 <= idx[k] and idx[k] < n and IsT(sel(A_a, idx[k])) and rank(A_a, idx[k]) == k), idx[k]))

@contract('_RepeatedValueWrapperUpdateHandler.handle_splice')
def _(self, l, r, values):
    requires(self != None and self._raw_indexes != None and values != None and self._raw_indexes is not values)
    requires(0 <= l and l <= r and r <= self.g_n0)
    requires(self.g_n1 == self.g_n0 - (r - l) + len(values))
    requires(forall(lambda k: sel(self.g_a1, k) == ite(k < l, sel(self.g_a0, k), ite(k < l + len(values), sel(elems(values), k - l), sel(self.g_a0, k - len(values) + (r - l)))), sel(self.g_a1, k)))
    requires(RI(self._raw_indexes, self.g_a0, self.g_n0))
    ghost_assert(0, use('rank_prefix_all', self.g_a1, self.g_a0, l))
    ghost_assert(0, use('rank_shift_all', elems(values), self.g_a1, 0, l, len(values)))
    ghost_assert(0, use('rank_shift_all', self.g_a0, self.g_a1, r, len(values) - (r - l), self.g_n0))
    ghost_assert(0, use('rank_lt_all', self.g_a0, l))
    ghost_assert(0, use('rank_lt_all', self.g_a0, r))
    ghost_assert(0, use('rank_lt_all', elems(values), len(values)))
    ghost_assert(0, use('rank_mono', self.g_a0, l, r))
    ghost_assert(0, use('rank_mono', self.g_a0, r, self.g_n0))
    ghost_assert(0, use('rank_mono', self.g_a0, 0, l))
    ghost_assert(0, rank(self.g_a1, l) == rank(self.g_a0, l))
    ghost_assert(0, rank(self.g_a1, l + len(values)) - rank(self.g_a1, l) == rank(elems(values), len(values)) - rank(elems(values), 0))
    ghost_assert(0, rank(self.g_a1, self.g_n1) - rank(self.g_a1, l + len(values)) == rank(self.g_a0, self.g_n0) - rank(self.g_a0, r))
    ghost_assert(1, use_if(ll > 0, 'rank_mono', self.g_a0, self._raw_indexes[ll - 1] + 1, l))
    ghost_assert(1, use_if(ll < len(self._raw_indexes), 'rank_mono', self.g_a0, l, self._raw_indexes[ll]))
    ghost_assert(1, ll == rank(self.g_a0, l))
    ghost_assert(2, use_if(rr > 0, 'rank_mono', self.g_a0, self._raw_indexes[rr - 1] + 1, r))
    ghost_assert(2, use_if(rr < len(self._raw_indexes), 'rank_mono', self.g_a0, r, self._raw_indexes[rr]))
    ghost_assert(2, rr == rank(self.g_a0, r))
    # shape of the new index table
    ghost_assert(5, len(self._raw_indexes) == old(len(self._raw_indexes)) - (rr - ll) + len(filtered_indexes))
    ghost_assert(5, forall(lambda k: implies(0 <= k and k < ll, self._raw_indexes[k] == old(self._raw_indexes[k])), self._raw_indexes[k]))
    ghost_assert(5, forall(lambda k: implies(ll <= k and k < ll + len(filtered_indexes), self._raw_indexes[k] == filtered_indexes[k - ll]), self._raw_indexes[k]))
    ghost_assert(5, forall(lambda k: implies(ll + len(filtered_indexes) <= k and k < len(self._raw_indexes),
                    self._raw_indexes[k] == sel(old(elems(self._raw_indexes)), k - len(filtered_indexes) + (rr - ll)) + diff), self._raw_indexes[k]))
    # completeness, by the position of i relative to the spliced window
    ghost_assert(5, forall(lambda i: implies(0 <= i and i < l and IsT(sel(self.g_a1, i)), self._raw_indexes[rank(self.g_a1, i)] == i), sel(self.g_a1, i)))
    ghost_assert(5, forall(lambda i: implies(l <= i and i < l + len(values) and IsT(sel(self.g_a1, i)), self._raw_indexes[rank(self.g_a1, i)] == i), sel(self.g_a1, i)))
    ghost_assert(5, forall(lambda i: implies(l + len(values) <= i and i < self.g_n1 and IsT(sel(self.g_a1, i)), self._raw_indexes[rank(self.g_a1, i)] == i), sel(self.g_a1, i)))
    # soundness, by the position of k in the new table
    ghost_assert(5, forall(lambda k: implies(0 <= k and k < ll, 0 <= self._raw_indexes[k] and self._raw_indexes[k] < self.g_n1 and IsT(sel(self.g_a1, self._raw_indexes[k])) and rank(self.g_a1, self._raw_indexes[k]) == k), self._raw_indexes[k]))
    ghost_assert(5, forall(lambda k: implies(ll <= k and k < ll + len(filtered_indexes), 0 <= self._raw_indexes[k] and self._raw_indexes[k] < self.g_n1 and IsT(sel(self.g_a1, self._raw_indexes[k])) and rank(self.g_a1, self._raw_indexes[k]) == k), self._raw_indexes[k]))
    ghost_assert(5, forall(lambda k: implies(ll + len(filtered_indexes) <= k and k < len(self._raw_indexes), 0 <= self._raw_indexes[k] and self._raw_indexes[k] < self.g_n1 and IsT(sel(self.g_a1, self._raw_indexes[k])) and rank(self.g_a1, self._raw_indexes[k]) == k), self._raw_indexes[k]))
    invariant(0, len(self._raw_indexes) == pre(len(self._raw_indexes))
                 and forall(lambda k: implies(0 <= k and k < len(self._raw_indexes), self._raw_indexes[k] == pre(self._raw_indexes[k]) + ite(ll + len(filtered_indexes) <= k and k < ll + len(filtered_indexes) + K, diff, 0)), self._raw_indexes[k]))
    ensures(len(self._raw_indexes) == rank(self.g_a1, self.g_n1))
    ensures(forall(lambda k: implies(0 <= k and k < len(self._raw_indexes), 0 <= self._raw_indexes[k] and self._raw_indexes[k] < self.g_n1 and IsT(sel(self.g_a1, self._raw_indexes[k])) and rank(self.g_a1, self._raw_indexes[k]) == k), self._raw_indexes[k]))
    ensures(forall(lambda i: implies(0 <= i and i < self.g_n1 and IsT(sel(self.g_a1, i)), self._raw_indexes[rank(self.g_a1, i)] == i), sel(self.g_a1, i)))

# ---- the full rebuild: the index table is recomputed from the raw list as it is now (RI from scratch)
# (the raw wrapper is iterated as its item list: MutableSequence iteration yields items[0], items[1], ... - assumption A-seq-iter)
@contract('_RepeatedValueWrapperUpdateHandler.handle')
def _(self):
    requires(self != None and self._raw_indexes != None and self._raw_wrapper != None)
    modifies('list[int]@self._raw_indexes', 'list[int]@fresh')
    ensures(RI(self._raw_indexes, old(elems(self._raw_wrapper)), old(len(self._raw_wrapper))))

# ================================================================ the view itself (RepeatedValueWrapper): what its methods do, through the index table, to the raw list
# raw list methods (proved for integer positions in unit l2.wrapper; here over the ghost item list g_raw). A raw mutation notifies every registered view, so any
# index table may change (list[int]); what the tables hold afterwards is handle_splice's contract, not restated here.
@contract('RepeatedNodeWrapper.__len__')
def _(self):
    requires(self != None and self.g_raw != None)
    modifies()
    ensures(result == len(self.g_raw))

@contract('RepeatedNodeWrapper.__getitem__')
def _(self, index):
    requires(self != None and self.g_raw != None and 0 <= index and index < len(self.g_raw))
    modifies()
    ensures(result is self.g_raw[index])

@contract('RepeatedNodeWrapper.insert')
def _(self, index, value):
    requires(self != None and self.g_raw != None and 0 <= index and index <= len(self.g_raw))
    modifies('list[RawModel]@self.g_raw', 'list[int]')
    ensures(len(self.g_raw) == old(len(self.g_raw)) + 1
            and forall(lambda k: implies(0 <= k and k < len(self.g_raw), self.g_raw[k] == ite(k < index, sel(old(elems(self.g_raw)), k), ite(k == index, value, sel(old(elems(self.g_raw)), k - 1)))), self.g_raw[k]))

@contract('RepeatedNodeWrapper.append')
def _(self, value):
    requires(self != None and self.g_raw != None)
    modifies('list[RawModel]@self.g_raw', 'list[int]')
    ensures(len(self.g_raw) == old(len(self.g_raw)) + 1 and self.g_raw[old(len(self.g_raw))] is value
            and forall(lambda k: implies(0 <= k and k < old(len(self.g_raw)), self.g_raw[k] == old(self.g_raw[k])), self.g_raw[k]))

@contract('RepeatedNodeWrapper.pop')
def _(self, index):
    requires(self != None and self.g_raw != None and 0 <= index and index < len(self.g_raw))
    modifies('list[RawModel]@self.g_raw', 'list[int]')
    ensures(result is old(self.g_raw[index]) and len(self.g_raw) == old(len(self.g_raw)) - 1
            and forall(lambda k: implies(0 <= k and k < len(self.g_raw), self.g_raw[k] == sel(old(elems(self.g_raw)), ite(k < index, k, k + 1))), self.g_raw[k]))

@macro
def View(v):      # the view's index table describes the raw list as it is now
    return v != None and v._raw_wrapper != None and v._raw_wrapper.g_raw != None and v._raw_indexes != None and RI(v._raw_indexes, elems(v._raw_wrapper.g_raw), len(v._raw_wrapper.g_raw))

# len(view) = number of raw items of the view's type
@contract('RepeatedValueWrapper.__len__')
def _(self):
    requires(View(self))
    modifies()
    ensures(result == rank(elems(self._raw_wrapper.g_raw), len(self._raw_wrapper.g_raw)))

# view[i] (0 <= i) = the converted i-th raw item of the view's type: the raw item at the position p with IsT(raw[p]) and exactly i matching items before it
@contract('RepeatedValueWrapper.__getitem__')
def _(self, index):
    types(index='int')
    requires(View(self) and 0 <= index and index < len(self._raw_indexes))
    modifies()
    ensures(exists(lambda p: 0 <= p and p < len(self._raw_wrapper.g_raw) and IsT(sel(elems(self._raw_wrapper.g_raw), p)) and rank(elems(self._raw_wrapper.g_raw), p) == index
                              and result == sel(self._from_raw_type, sel(elems(self._raw_wrapper.g_raw), p))))

# view.insert(i, v): the converted value goes into the raw list right in front of the i-th item of the view's type (at the very end / front when i is out of range),
# i.e. at a raw position with exactly clamp(i) matching items before it - list.insert semantics on the filtered list
@contract('RepeatedValueWrapper.insert')
def _(self, index, value):
    requires(View(self) and (index >= 0 or index < -len(self._raw_indexes)))
    modifies('list[RawModel]@self._raw_wrapper.g_raw', 'list[int]', 'RepeatedValueWrapper.g_at@self')
    after_assign('raw_index', 'setint', 'g_at', raw_index)
    ensures(0 <= self.g_at and self.g_at <= old(len(self._raw_wrapper.g_raw))
            and rank(old(elems(self._raw_wrapper.g_raw)), self.g_at) == old(ite(index < 0, 0, ite(index > len(self._raw_indexes), len(self._raw_indexes), index))))
    ensures(len(self._raw_wrapper.g_raw) == old(len(self._raw_wrapper.g_raw)) + 1 and self._raw_wrapper.g_raw[self.g_at] == sel(self._to_raw_type, value)
            and forall(lambda k: implies(0 <= k and k < len(self._raw_wrapper.g_raw) and k != self.g_at, self._raw_wrapper.g_raw[k] == sel(old(elems(self._raw_wrapper.g_raw)), ite(k < self.g_at, k, k - 1))), self._raw_wrapper.g_raw[k]))

@contract('RepeatedValueWrapper.append')
def _(self, value):
    requires(View(self))
    modifies('list[RawModel]@self._raw_wrapper.g_raw', 'list[int]')
    ensures(len(self._raw_wrapper.g_raw) == old(len(self._raw_wrapper.g_raw)) + 1 and self._raw_wrapper.g_raw[old(len(self._raw_wrapper.g_raw))] == sel(self._to_raw_type, value)
            and forall(lambda k: implies(0 <= k and k < old(len(self._raw_wrapper.g_raw)), self._raw_wrapper.g_raw[k] == old(self._raw_wrapper.g_raw[k])), self._raw_wrapper.g_raw[k]))

# view.pop(i) (0 <= i < len): removes exactly the i-th raw item of the view's type and returns it converted; out of range is refused with nothing changed
@contract('RepeatedValueWrapper.pop')
def _(self, index):
    requires(View(self) and (index >= 0 or index < -len(self._raw_indexes)))
    modifies('list[RawModel]@self._raw_wrapper.g_raw', 'list[int]', 'RepeatedValueWrapper.g_at@self')
    raises('IndexError', 'list[RawModel]', 'list[int]', when=not (-len(self._raw_indexes) <= index and index < len(self._raw_indexes)))
    after_assign('raw_index', 'setint', 'g_at', raw_index)
    ensures(0 <= self.g_at and self.g_at < old(len(self._raw_wrapper.g_raw)) and IsT(sel(old(elems(self._raw_wrapper.g_raw)), self.g_at)) and rank(old(elems(self._raw_wrapper.g_raw)), self.g_at) == index)
    ensures(result == sel(self._from_raw_type, sel(old(elems(self._raw_wrapper.g_raw)), self.g_at)) and len(self._raw_wrapper.g_raw) == old(len(self._raw_wrapper.g_raw)) - 1
            and forall(lambda k: implies(0 <= k and k < len(self._raw_wrapper.g_raw), self._raw_wrapper.g_raw[k] == sel(old(elems(self._raw_wrapper.g_raw)), ite(k < self.g_at, k, k + 1))), self._raw_wrapper.g_raw[k]))
