"""Contracts for RepeatedNodeWrapper (models/internal/properties.py; C10, C03, C05): the item list obeys Python list semantics for integer positions and every
mutation is announced to the registered views with a range (l, r) and the new values such that  items' == old[:l] ++ values ++ old[r:]  and 0 <= l <= r <= len(old)
- exactly what _RepeatedValueWrapperUpdateHandler.handle_splice (unit l3.views) requires.  Token-level effects are abstract in this unit."""

# ---- abstract environment
@contract('TokenStore.splice')
def _(self, tokens, ref, del_end):
    modifies()

@contract('TokenStore.insert_after')
def _(self, ref, tokens):
    modifies()

@contract('TokenStore.remove')
def _(self, start, end):
    modifies()

@contract('TokenStore.from_tokens')
def _(cls, tokens):
    modifies()
    ensures(result != None and fresh(result))

@contract('RawModel.token_store')
def _(self):
    modifies()
    ensures(result is self.g_ts)

@contract('RawModel.first_token')
def _(self):
    modifies()
    ensures(result != None)

@contract('RawModel.last_token')
def _(self):
    modifies()
    ensures(result != None)

@contract('RawModel.tokens')
def _(self):
    modifies()
    ensures(result != None and fresh(result))

@contract('RawModel.detach')
def _(self):
    modifies()
    raises('ValueError')
    ensures(result != None and fresh(result))

@contract('RawModel.reattach')
def _(self, token_store):
    modifies()

@contract('Repeated.token_store')
def _(self):
    modifies()
    ensures(result is self._token_store)

@contract('RepeatedNodeWrapper._insert_tokens')
def _(self, index, values, length, separators_before_last):
    requires(0 <= index)
    modifies()
    raises('ValueError')

@contract('RepeatedNodeWrapper._del_tokens')
def _(self, start, stop):
    requires(0 <= start)
    modifies()

# CPython normalisation of an integer index (A-range: range(length)[index])
@contract('range_from_index')
def _(index, length):
    modifies('Range.start@fresh', 'Range.stop@fresh', 'Range.step@fresh')
    raises('IndexError', when=not (-length <= index and index < length))
    ensures(result != None and fresh(result) and result.start == ite(index < 0, index + length, index) and result.stop == result.start + 1 and result.step == 1)

# the announcement: records what was announced (ghost) and demands that it describes the item list as it is now
@contract('RepeatedNodeWrapper._notify_splice')
def _(self, l, r, values):
    requires(0 <= l and l <= r and values != None and l + len(values) <= len(self._repeated.items))
    requires(forall(lambda k: implies(0 <= k and k < len(values), self._repeated.items[l + k] == values[k]), values[k]))
    requires(self._update_handlers != None and forall(lambda k: implies(0 <= k and k < len(self._update_handlers), self._update_handlers[k] != None), self._update_handlers[k]))
    modifies('RepeatedNodeWrapper.g_l@self', 'RepeatedNodeWrapper.g_r@self', 'RepeatedNodeWrapper.g_nv@self',
             'RepeatedNodeWrapperUpdateHandler.g_hl', 'RepeatedNodeWrapperUpdateHandler.g_hr', 'RepeatedNodeWrapperUpdateHandler.g_hv')
    ghost('g_l', l)
    ghost('g_r', r)
    ghost('g_nv', len(values))
    invariant(0, forall(lambda k: implies(0 <= k and k < K, self._update_handlers[k].g_hl == l and self._update_handlers[k].g_hr == r and self._update_handlers[k].g_hv == values), self._update_handlers[k])
                 and self._update_handlers is old(self._update_handlers))
    ensures(self.g_l == l and self.g_r == r and self.g_nv == len(values))
    # every handler (they are pairwise distinct objects) has been told exactly this
    ensures(implies(forall(lambda j, k: implies(0 <= j and j < k and k < len(self._update_handlers), self._update_handlers[j] != self._update_handlers[k])),
                    forall(lambda k: implies(0 <= k and k < len(self._update_handlers), self._update_handlers[k].g_hl == l and self._update_handlers[k].g_hr == r and self._update_handlers[k].g_hv == values), self._update_handlers[k])))

@macro
def W(s):
    return (s != None and s._repeated != None and s._repeated.items != None and s._repeated._token_store != None and forall(lambda k: implies(0 <= k and k < len(s._repeated.items), s._repeated.items[k] != None), s._repeated.items[k])
        and s._update_handlers != None and forall(lambda k: implies(0 <= k and k < len(s._update_handlers), s._update_handlers[k] != None), s._update_handlers[k]))

@macro
def Announced(s, n0):     # items' == old[:l] ++ values ++ old[r:]  with the announced (l, r, number of values); n0 = old length
    return (0 <= s.g_l and s.g_l <= s.g_r and s.g_r <= n0 and len(s._repeated.items) == n0 - (s.g_r - s.g_l) + s.g_nv
        and forall(lambda k: implies(0 <= k and k < s.g_l, s._repeated.items[k] == old(s._repeated.items[k])), s._repeated.items[k])
        and forall(lambda k: implies(s.g_l + s.g_nv <= k and k < len(s._repeated.items), s._repeated.items[k] == sel(old(elems(s._repeated.items)), k - s.g_nv + (s.g_r - s.g_l))), s._repeated.items[k]))

@contract('RepeatedNodeWrapper.append')
def _(self, value):
    requires(W(self) and value != None)
    modifies('list[RawModel]@self._repeated.items', 'RepeatedNodeWrapper.g_l@self', 'RepeatedNodeWrapper.g_r@self', 'RepeatedNodeWrapper.g_nv@self',
             'RepeatedNodeWrapperUpdateHandler.g_hl', 'RepeatedNodeWrapperUpdateHandler.g_hr', 'RepeatedNodeWrapperUpdateHandler.g_hv')
    raises('ValueError', 'list[RawModel]')
    ensures(len(self._repeated.items) == old(len(self._repeated.items)) + 1 and self._repeated.items[old(len(self._repeated.items))] is value)
    ensures(Announced(self, old(len(self._repeated.items))) and self.g_l == old(len(self._repeated.items)) and self.g_nv == 1)

@contract('RepeatedNodeWrapper.insert')
def _(self, index, value):
    requires(W(self) and value != None)
    modifies('list[RawModel]@self._repeated.items', 'RepeatedNodeWrapper.g_l@self', 'RepeatedNodeWrapper.g_r@self', 'RepeatedNodeWrapper.g_nv@self',
             'RepeatedNodeWrapperUpdateHandler.g_hl', 'RepeatedNodeWrapperUpdateHandler.g_hr', 'RepeatedNodeWrapperUpdateHandler.g_hv')
    raises('ValueError', 'list[RawModel]')
    # Python list.insert: negative positions count from the end, everything is clamped to [0, len]
    ensures(self.g_l == old(ite(index < 0, ite(index + len(self._repeated.items) < 0, 0, index + len(self._repeated.items)), ite(index > len(self._repeated.items), len(self._repeated.items), index))))
    ensures(self.g_r == self.g_l and self.g_nv == 1 and self._repeated.items[self.g_l] is value and Announced(self, old(len(self._repeated.items))))

@contract('RepeatedNodeWrapper.extend')
def _(self, values):
    types(values='list[RawModel]')
    requires(W(self) and values != None and values is not self._repeated.items and forall(lambda k: implies(0 <= k and k < len(values), values[k] != None), values[k]))
    modifies('list[RawModel]@self._repeated.items', 'list[RawModel]@fresh', 'RepeatedNodeWrapper.g_l@self', 'RepeatedNodeWrapper.g_r@self', 'RepeatedNodeWrapper.g_nv@self',
             'RepeatedNodeWrapperUpdateHandler.g_hl', 'RepeatedNodeWrapperUpdateHandler.g_hr', 'RepeatedNodeWrapperUpdateHandler.g_hv')
    raises('ValueError', 'list[RawModel]')
    invariant(0, len(self._repeated.items) == old(len(self._repeated.items)))
    ensures(self.g_l == old(len(self._repeated.items)) and self.g_r == self.g_l and self.g_nv == len(values) and Announced(self, old(len(self._repeated.items))))
    ensures(forall(lambda k: implies(0 <= k and k < len(values), self._repeated.items[self.g_l + k] == values[k]), values[k]))

@contract('RepeatedNodeWrapper.pop')
def _(self, index):
    requires(W(self) and 0 <= index and index < len(self._repeated.items))      # engine restriction: non-negative positions (negative ones are bounded-checked)
    modifies('list[RawModel]@self._repeated.items', 'RepeatedNodeWrapper.g_l@self', 'RepeatedNodeWrapper.g_r@self', 'RepeatedNodeWrapper.g_nv@self',
             'RepeatedNodeWrapperUpdateHandler.g_hl', 'RepeatedNodeWrapperUpdateHandler.g_hr', 'RepeatedNodeWrapperUpdateHandler.g_hv')
    ensures(result is old(self._repeated.items[index]) and self.g_l == index and self.g_r == index + 1 and self.g_nv == 0 and Announced(self, old(len(self._repeated.items))))

@contract('RepeatedNodeWrapper.__setitem__')
def _(self, index, value):
    types(index='int', value='RawModel')
    requires(W(self) and value != None)
    modifies('list[RawModel]@self._repeated.items', 'Range.start@fresh', 'Range.stop@fresh', 'Range.step@fresh', 'RepeatedNodeWrapper.g_l@self', 'RepeatedNodeWrapper.g_r@self', 'RepeatedNodeWrapper.g_nv@self',
             'RepeatedNodeWrapperUpdateHandler.g_hl', 'RepeatedNodeWrapperUpdateHandler.g_hr', 'RepeatedNodeWrapperUpdateHandler.g_hv')
    raises('IndexError', 'list[RawModel]')
    raises('ValueError', 'list[RawModel]')
    ensures(self.g_l == old(ite(index < 0, index + len(self._repeated.items), index)) and self.g_r == self.g_l + 1 and self.g_nv == 1
            and self._repeated.items[self.g_l] is value and Announced(self, old(len(self._repeated.items))))

# ---- refusal of a node that lives in the destination store (fix b2fd10c): before anything is touched
@contract('_check_not_in_store')
def _(value, token_store):
    requires(value != None)
    modifies()
    raises('ValueError', when=value.g_ts is token_store)

# ---- the announcement itself: every registered handler is told exactly (l, r, values); the handlers only touch their own state
@contract('RepeatedNodeWrapperUpdateHandler.handle_splice')
def _(self, l, r, value):
    requires(0 <= l and l <= r and value != None)
    modifies('RepeatedNodeWrapperUpdateHandler.g_hl@self', 'RepeatedNodeWrapperUpdateHandler.g_hr@self', 'RepeatedNodeWrapperUpdateHandler.g_hv@self')
    ensures(self.g_hl == l and self.g_hr == r and self.g_hv == value)

@contract('RepeatedNodeWrapperUpdateHandler.handle')
def _(self):
    modifies('RepeatedNodeWrapperUpdateHandler.g_hl@self', 'RepeatedNodeWrapperUpdateHandler.g_hr@self', 'RepeatedNodeWrapperUpdateHandler.g_hv@self', 'RepeatedNodeWrapperUpdateHandler.g_rebuilt@self')
    ensures(self.g_rebuilt == True)

# the unspecific announcement: every registered handler is told to rebuild from scratch
@contract('RepeatedNodeWrapper._notify')
def _(self):
    requires(self != None and self._update_handlers != None and forall(lambda k: implies(0 <= k and k < len(self._update_handlers), self._update_handlers[k] != None), self._update_handlers[k]))
    modifies('RepeatedNodeWrapperUpdateHandler.g_hl', 'RepeatedNodeWrapperUpdateHandler.g_hr', 'RepeatedNodeWrapperUpdateHandler.g_hv', 'RepeatedNodeWrapperUpdateHandler.g_rebuilt')
    invariant(0, self._update_handlers is old(self._update_handlers) and forall(lambda k: implies(0 <= k and k < K, self._update_handlers[k].g_rebuilt == True), self._update_handlers[k]))
    ensures(forall(lambda k: implies(0 <= k and k < len(self._update_handlers), self._update_handlers[k].g_rebuilt == True), self._update_handlers[k]))

# clear(): the item list is empty afterwards and every view learns about it - told to rebuild, or told the exact splice (0, old length, [])
@contract('RepeatedNodeWrapper.clear')
def _(self):
    requires(W(self))
    modifies('list[RawModel]@self._repeated.items', 'RepeatedNodeWrapper.g_l@self', 'RepeatedNodeWrapper.g_r@self', 'RepeatedNodeWrapper.g_nv@self',
             'RepeatedNodeWrapperUpdateHandler.g_hl', 'RepeatedNodeWrapperUpdateHandler.g_hr', 'RepeatedNodeWrapperUpdateHandler.g_hv', 'RepeatedNodeWrapperUpdateHandler.g_rebuilt')
    ensures(len(self._repeated.items) == 0)
    ensures(implies(forall(lambda j, k: implies(0 <= j and j < k and k < len(self._update_handlers), self._update_handlers[j] != self._update_handlers[k])),
                    forall(lambda k: implies(0 <= k and k < len(self._update_handlers), self._update_handlers[k].g_rebuilt == True
                           or (self._update_handlers[k].g_hl == 0 and self._update_handlers[k].g_hr == old(len(self._repeated.items)) and len(self._update_handlers[k].g_hv) == 0)), self._update_handlers[k])))

@contract('RepeatedNodeWrapper.__len__')
def _(self):
    requires(W(self))
    modifies()
    ensures(result == len(self._repeated.items))

@contract('RepeatedNodeWrapper.repeated')
def _(self):
    modifies()
    ensures(result is self._repeated)
