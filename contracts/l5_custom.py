"""Contract for models/custom.py:_disambiguate_values (C15): the values of a custom directive are passed on unchanged and in order; a number (bare or inside an amount)
that directly follows a bare number and starts with a unary sign is parenthesised - otherwise `1 -2` would print as the subtraction `1 - 2` - and nothing else is."""

@contract('NumberExpr.wrap_with_parenthesis')
def _(self):
    requires(self != None)
    modifies('NumberExpr.g_paren@self')
    ensures(self.g_paren == True)

@macro
def WellFormed(n):      # a number expression has at least one term with at least one factor
    return (n != None and n.raw_number_add_expr != None and n.raw_number_add_expr.raw_operands != None and len(n.raw_number_add_expr.raw_operands) >= 1
        and n.raw_number_add_expr.raw_operands[0] != None and n.raw_number_add_expr.raw_operands[0].raw_operands != None and len(n.raw_number_add_expr.raw_operands[0].raw_operands) >= 1)

@macro
def NumOf(v):           # the number a value carries: itself, or the number of an amount; None otherwise
    return ite(isinstance(as_ref(v, 'RawModel'), Amount), as_ref(v, 'Amount').raw_number, ite(isinstance(as_ref(v, 'RawModel'), NumberExpr), v, 0))

@macro
def StartsUnary(n):
    return isinstance(as_ref(sel(elems(as_ref(sel(elems(as_ref(n, 'NumberExpr').raw_number_add_expr.raw_operands), 0), 'NumberMulExpr').raw_operands), 0), 'RawModel'), NumberUnaryExpr)

@macro
def MustWrap(values, k):
    return k >= 1 and isinstance(as_ref(sel(elems(values), k - 1), 'RawModel'), NumberExpr) and NumOf(sel(elems(values), k)) != 0 and StartsUnary(NumOf(sel(elems(values), k)))

@contract('_disambiguate_values')
def _(values):
    types(values='list[RawModel]', prev='RawModel', number='NumberExpr')
    requires(values != None and forall(lambda k: implies(0 <= k and k < len(values), values[k] != None and implies(isinstance(values[k], NumberExpr), WellFormed(as_ref(values[k], 'NumberExpr')))
                                                         and implies(isinstance(values[k], Amount), WellFormed(as_ref(values[k], 'Amount').raw_number))), values[k]))
    # the numbers are distinct objects (a number belongs to one value)
    requires(forall(lambda j, k: implies(0 <= j and j < k and k < len(values) and NumOf(sel(elems(values), j)) != 0, NumOf(sel(elems(values), j)) != NumOf(sel(elems(values), k)))))
    modifies('NumberExpr.g_paren', 'list[RawModel]@fresh', 'list[CustomRawValue]')      # the yielded sequence (the only list of that type)
    invariant(0, prev is ite(K == 0, 0, sel(elems(values), K - 1)) and len(S_out) == K
                 and forall(lambda k: implies(0 <= k and k < K, sel(elems(S_out), k) == values[k]), values[k])
                 and forall(lambda k: implies(0 <= k and k < K and MustWrap(values, k), as_ref(NumOf(sel(elems(values), k)), 'NumberExpr').g_paren == True), values[k])
                 and forall(lambda n: implies(as_ref(n, 'NumberExpr').g_paren != old(as_ref(n, 'NumberExpr').g_paren), exists(lambda k: 0 <= k and k < K and MustWrap(values, k) and NumOf(sel(elems(values), k)) == n))))
    ensures(len(result) == len(values) and forall(lambda k: implies(0 <= k and k < len(values), result[k] == values[k]), result[k]))
    ensures(forall(lambda k: implies(0 <= k and k < len(values) and MustWrap(values, k), as_ref(NumOf(sel(elems(values), k)), 'NumberExpr').g_paren == True), values[k]))
    ensures(forall(lambda n: implies(as_ref(n, 'NumberExpr').g_paren != old(as_ref(n, 'NumberExpr').g_paren), exists(lambda k: 0 <= k and k < len(values) and MustWrap(values, k) and NumOf(sel(elems(values), k)) == n))))
