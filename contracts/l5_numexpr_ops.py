"""Structural contracts for the operator helpers of models/number_expr.py (C13): which tree an in-place operator builds.
Token-store effects are abstract in this unit (the window semantics of insert_before/insert_after is proved in l0/l2); the operands offered to an operator
are free-standing copies (made by _operand_type_check), so detach() cannot refuse here (bounded-checked by the arithmetic driver)."""

@macro
def MulShape(m):
    return (m != None and m._raw_operands != None and m._raw_ops != None and len(m._raw_operands) == len(m._raw_ops) + 1
        and forall(lambda k: implies(0 <= k and k < len(m._raw_operands), m._raw_operands[k] != None), m._raw_operands[k])
        and forall(lambda k: implies(0 <= k and k < len(m._raw_ops), m._raw_ops[k] != None), m._raw_ops[k]))

@macro
def AddShape(a):
    return (a != None and a._raw_operands != None and a._raw_ops != None and len(a._raw_operands) == len(a._raw_ops) + 1
        and forall(lambda k: implies(0 <= k and k < len(a._raw_operands), MulShape(a._raw_operands[k])), a._raw_operands[k])
        and forall(lambda k: implies(0 <= k and k < len(a._raw_ops), a._raw_ops[k] != None), a._raw_ops[k]))

@macro
def ExprShape(e):
    return e != None and e._token_store != None and AddShape(e._number_add_expr) and e._number_add_expr._token_store != None

# ---- abstract environment
@contract('TokenStore.insert_before')
def _(self, ref, tokens):
    modifies()

@contract('TokenStore.insert_after')
def _(self, ref, tokens):
    modifies()

@contract('RawModel.first_token')
def _(self):
    modifies()
    ensures(result != None)

@contract('RawModel.last_token')
def _(self):
    modifies()
    ensures(result != None)

@contract('NumberExprGenerated.last_token')
def _(self):
    modifies()
    ensures(result != None)

@contract('RawModel.detach')
def _(self):
    modifies()
    ensures(result != None and fresh(result))

@contract('RawModel.reattach')
def _(self, token_store):
    modifies()

@contract('RawTokenModel.from_default')
def _(cls):
    modifies('RawTokenModel._raw_text@fresh')
    ensures(result != None and fresh(result))

@contract('RawTokenModel.from_raw_text')
def _(cls, raw_text):
    modifies('RawTokenModel._raw_text@fresh')
    ensures(result != None and fresh(result) and result._raw_text == raw_text)

# ---- helpers
@contract('_wrap_paren')
def _(add_expr):
    requires(add_expr != None and add_expr._token_store != None and AddShape(add_expr))
    modifies('RawTokenModel._raw_text@fresh', 'NumberParenExpr._token_store@fresh', 'NumberParenExpr._left_paren@fresh', 'NumberParenExpr._inner_expr@fresh', 'NumberParenExpr._right_paren@fresh')
    ensures(result != None and fresh(result) and result._inner_expr is add_expr and result._token_store is add_expr._token_store
            and result._left_paren != None and fresh(result._left_paren) and result._right_paren != None and fresh(result._right_paren))

@contract('_as_mul_expr')
def _(expr):
    requires(ExprShape(expr))
    modifies('RawTokenModel._raw_text@fresh', 'NumberParenExpr._token_store@fresh', 'NumberParenExpr._left_paren@fresh', 'NumberParenExpr._inner_expr@fresh', 'NumberParenExpr._right_paren@fresh',
             'NumberMulExpr._raw_operands@fresh', 'NumberMulExpr._raw_ops@fresh', 'RawTreeModel._token_store@fresh', 'list[NumberAtomExpr]@fresh', 'list[MulOp]@fresh')
    # a sum is parenthesised before it becomes a factor; a single product is used as it is
    ensures(implies(old(len(expr._number_add_expr._raw_ops)) == 0, result is old(expr._number_add_expr._raw_operands[0])))
    ensures(implies(old(len(expr._number_add_expr._raw_ops)) > 0, fresh(result) and MulShape(result) and len(result._raw_ops) == 0
            and fresh(result._raw_operands[0]) and isinstance(result._raw_operands[0], NumberParenExpr) and as_ref(result._raw_operands[0], 'NumberParenExpr')._inner_expr is old(expr._number_add_expr)))
    ensures(MulShape(result))

@contract('_as_atom_expr')
def _(expr):
    requires(ExprShape(expr))
    modifies('RawTokenModel._raw_text@fresh', 'NumberParenExpr._token_store@fresh', 'NumberParenExpr._left_paren@fresh', 'NumberParenExpr._inner_expr@fresh', 'NumberParenExpr._right_paren@fresh')
    ensures(result != None)
    ensures(implies(old(len(expr._number_add_expr._raw_ops)) == 0 and old(len(expr._number_add_expr._raw_operands[0]._raw_ops)) == 0, result is old(expr._number_add_expr._raw_operands[0]._raw_operands[0])))
    ensures(implies(not (old(len(expr._number_add_expr._raw_ops)) == 0 and old(len(expr._number_add_expr._raw_operands[0]._raw_ops)) == 0),
            fresh(result) and isinstance(result, NumberParenExpr) and as_ref(result, 'NumberParenExpr')._inner_expr is old(expr._number_add_expr)))

# ---- in-place operators: the tree that is built
@contract('NumberExpr._imuldiv')
def _(self, other, op):
    types(op='str')
    requires(ExprShape(self) and ExprShape(other) and self is not other)
    modifies('NumberExprGenerated._number_add_expr@self', 'RawTokenModel._raw_text@fresh', 'NumberParenExpr._token_store@fresh', 'NumberParenExpr._left_paren@fresh', 'NumberParenExpr._inner_expr@fresh',
             'NumberParenExpr._right_paren@fresh', 'NumberMulExpr._raw_operands@fresh', 'NumberMulExpr._raw_ops@fresh', 'NumberAddExpr._raw_operands@fresh', 'NumberAddExpr._raw_ops@fresh',
             'RawTreeModel._token_store@fresh', 'list[NumberAtomExpr]@fresh', 'list[MulOp]@fresh', 'list[NumberMulExpr]@fresh', 'list[AddOp]@fresh', 'list[RawTokenModel]@fresh')
    ensures(result is self and fresh(self._number_add_expr) and AddShape(self._number_add_expr) and len(self._number_add_expr._raw_ops) == 0 and fresh(self._number_add_expr._raw_operands[0]))
    # the single product of the result: the old factors, then the new operator, then the new factor - in this order
    ensures(len(self._number_add_expr._raw_operands[0]._raw_ops) >= 1
            and fresh(self._number_add_expr._raw_operands[0]._raw_ops[len(self._number_add_expr._raw_operands[0]._raw_ops) - 1])
            and self._number_add_expr._raw_operands[0]._raw_ops[len(self._number_add_expr._raw_operands[0]._raw_ops) - 1]._raw_text == op)
    ensures(implies(old(len(self._number_add_expr._raw_ops)) == 0,
            len(self._number_add_expr._raw_operands[0]._raw_ops) == old(len(self._number_add_expr._raw_operands[0]._raw_ops)) + 1
            and forall(lambda k: implies(0 <= k and k < old(len(self._number_add_expr._raw_operands[0]._raw_ops)),
                    self._number_add_expr._raw_operands[0]._raw_ops[k] is old(self._number_add_expr._raw_operands[0]._raw_ops[k])), self._number_add_expr._raw_operands[0]._raw_ops[k])
            and forall(lambda k: implies(0 <= k and k <= old(len(self._number_add_expr._raw_operands[0]._raw_ops)),
                    self._number_add_expr._raw_operands[0]._raw_operands[k] is old(self._number_add_expr._raw_operands[0]._raw_operands[k])), self._number_add_expr._raw_operands[0]._raw_operands[k])))
    ensures(implies(old(len(self._number_add_expr._raw_ops)) > 0,
            len(self._number_add_expr._raw_operands[0]._raw_ops) == 1 and isinstance(self._number_add_expr._raw_operands[0]._raw_operands[0], NumberParenExpr)
            and as_ref(self._number_add_expr._raw_operands[0]._raw_operands[0], 'NumberParenExpr')._inner_expr is old(self._number_add_expr)))
    # the new last factor is the other operand: its single atom, or the operand in parentheses
    ensures(implies(old(len(other._number_add_expr._raw_ops)) == 0 and old(len(other._number_add_expr._raw_operands[0]._raw_ops)) == 0,
            self._number_add_expr._raw_operands[0]._raw_operands[len(self._number_add_expr._raw_operands[0]._raw_ops)] is old(other._number_add_expr._raw_operands[0]._raw_operands[0])))
    ensures(implies(not (old(len(other._number_add_expr._raw_ops)) == 0 and old(len(other._number_add_expr._raw_operands[0]._raw_ops)) == 0),
            isinstance(self._number_add_expr._raw_operands[0]._raw_operands[len(self._number_add_expr._raw_operands[0]._raw_ops)], NumberParenExpr)
            and as_ref(self._number_add_expr._raw_operands[0]._raw_operands[len(self._number_add_expr._raw_operands[0]._raw_ops)], 'NumberParenExpr')._inner_expr is old(other._number_add_expr)))

@contract('NumberExpr._iaddsub')
def _(self, other, op):
    types(op='str')
    requires(ExprShape(self) and ExprShape(other) and self is not other)
    modifies('NumberExprGenerated._number_add_expr@self', 'RawTokenModel._raw_text@fresh', 'NumberParenExpr._token_store@fresh', 'NumberParenExpr._left_paren@fresh', 'NumberParenExpr._inner_expr@fresh',
             'NumberParenExpr._right_paren@fresh', 'NumberMulExpr._raw_operands@fresh', 'NumberMulExpr._raw_ops@fresh', 'NumberAddExpr._raw_operands@fresh', 'NumberAddExpr._raw_ops@fresh',
             'RawTreeModel._token_store@fresh', 'list[NumberAtomExpr]@fresh', 'list[MulOp]@fresh', 'list[NumberMulExpr]@fresh', 'list[AddOp]@fresh', 'list[RawTokenModel]@fresh')
    ensures(result is self and fresh(self._number_add_expr) and AddShape(self._number_add_expr))
    # the old terms and operators, then the new operator and the new term - in this order
    ensures(len(self._number_add_expr._raw_ops) == old(len(self._number_add_expr._raw_ops)) + 1
            and fresh(self._number_add_expr._raw_ops[old(len(self._number_add_expr._raw_ops))]) and self._number_add_expr._raw_ops[old(len(self._number_add_expr._raw_ops))]._raw_text == op
            and forall(lambda k: implies(0 <= k and k < old(len(self._number_add_expr._raw_ops)), self._number_add_expr._raw_ops[k] is old(self._number_add_expr._raw_ops[k])), self._number_add_expr._raw_ops[k])
            and forall(lambda k: implies(0 <= k and k <= old(len(self._number_add_expr._raw_ops)), self._number_add_expr._raw_operands[k] is old(self._number_add_expr._raw_operands[k])), self._number_add_expr._raw_operands[k]))
    ensures(implies(old(len(other._number_add_expr._raw_ops)) == 0,
            self._number_add_expr._raw_operands[len(self._number_add_expr._raw_ops)] is old(other._number_add_expr._raw_operands[0])))

# ---- the in-place dunder operators: the same tree, with the operator character each of them stands for
# (the decorator _operand_type_check is outside the contract: it converts int/Decimal operands to a fresh NumberExpr and copies NumberExpr operands,
#  so the body runs with a NumberExpr operand distinct from self; its conversion is bounded-checked by the arithmetic driver)
@contract('NumberExpr.__iadd__')
def _(self, other):
    requires(ExprShape(self) and ExprShape(other) and self is not other)
    modifies('NumberExprGenerated._number_add_expr@self', 'RawTokenModel._raw_text@fresh', 'NumberParenExpr._token_store@fresh', 'NumberParenExpr._left_paren@fresh', 'NumberParenExpr._inner_expr@fresh',
             'NumberParenExpr._right_paren@fresh', 'NumberMulExpr._raw_operands@fresh', 'NumberMulExpr._raw_ops@fresh', 'NumberAddExpr._raw_operands@fresh', 'NumberAddExpr._raw_ops@fresh',
             'RawTreeModel._token_store@fresh', 'list[NumberAtomExpr]@fresh', 'list[MulOp]@fresh', 'list[NumberMulExpr]@fresh', 'list[AddOp]@fresh', 'list[RawTokenModel]@fresh')
    ensures(result is self and fresh(self._number_add_expr) and AddShape(self._number_add_expr))
    ensures(len(self._number_add_expr._raw_ops) == old(len(self._number_add_expr._raw_ops)) + 1
            and fresh(self._number_add_expr._raw_ops[old(len(self._number_add_expr._raw_ops))]) and self._number_add_expr._raw_ops[old(len(self._number_add_expr._raw_ops))]._raw_text == '+'
            and forall(lambda k: implies(0 <= k and k < old(len(self._number_add_expr._raw_ops)), self._number_add_expr._raw_ops[k] is old(self._number_add_expr._raw_ops[k])), self._number_add_expr._raw_ops[k])
            and forall(lambda k: implies(0 <= k and k <= old(len(self._number_add_expr._raw_ops)), self._number_add_expr._raw_operands[k] is old(self._number_add_expr._raw_operands[k])), self._number_add_expr._raw_operands[k]))
    ensures(implies(old(len(other._number_add_expr._raw_ops)) == 0,
            self._number_add_expr._raw_operands[len(self._number_add_expr._raw_ops)] is old(other._number_add_expr._raw_operands[0])))

@contract('NumberExpr.__isub__')
def _(self, other):
    requires(ExprShape(self) and ExprShape(other) and self is not other)
    modifies('NumberExprGenerated._number_add_expr@self', 'RawTokenModel._raw_text@fresh', 'NumberParenExpr._token_store@fresh', 'NumberParenExpr._left_paren@fresh', 'NumberParenExpr._inner_expr@fresh',
             'NumberParenExpr._right_paren@fresh', 'NumberMulExpr._raw_operands@fresh', 'NumberMulExpr._raw_ops@fresh', 'NumberAddExpr._raw_operands@fresh', 'NumberAddExpr._raw_ops@fresh',
             'RawTreeModel._token_store@fresh', 'list[NumberAtomExpr]@fresh', 'list[MulOp]@fresh', 'list[NumberMulExpr]@fresh', 'list[AddOp]@fresh', 'list[RawTokenModel]@fresh')
    ensures(result is self and fresh(self._number_add_expr) and AddShape(self._number_add_expr))
    ensures(len(self._number_add_expr._raw_ops) == old(len(self._number_add_expr._raw_ops)) + 1
            and fresh(self._number_add_expr._raw_ops[old(len(self._number_add_expr._raw_ops))]) and self._number_add_expr._raw_ops[old(len(self._number_add_expr._raw_ops))]._raw_text == '-'
            and forall(lambda k: implies(0 <= k and k < old(len(self._number_add_expr._raw_ops)), self._number_add_expr._raw_ops[k] is old(self._number_add_expr._raw_ops[k])), self._number_add_expr._raw_ops[k])
            and forall(lambda k: implies(0 <= k and k <= old(len(self._number_add_expr._raw_ops)), self._number_add_expr._raw_operands[k] is old(self._number_add_expr._raw_operands[k])), self._number_add_expr._raw_operands[k]))
    ensures(implies(old(len(other._number_add_expr._raw_ops)) == 0,
            self._number_add_expr._raw_operands[len(self._number_add_expr._raw_ops)] is old(other._number_add_expr._raw_operands[0])))

@contract('NumberExpr.__imul__')
def _(self, other):
    requires(ExprShape(self) and ExprShape(other) and self is not other)
    modifies('NumberExprGenerated._number_add_expr@self', 'RawTokenModel._raw_text@fresh', 'NumberParenExpr._token_store@fresh', 'NumberParenExpr._left_paren@fresh', 'NumberParenExpr._inner_expr@fresh',
             'NumberParenExpr._right_paren@fresh', 'NumberMulExpr._raw_operands@fresh', 'NumberMulExpr._raw_ops@fresh', 'NumberAddExpr._raw_operands@fresh', 'NumberAddExpr._raw_ops@fresh',
             'RawTreeModel._token_store@fresh', 'list[NumberAtomExpr]@fresh', 'list[MulOp]@fresh', 'list[NumberMulExpr]@fresh', 'list[AddOp]@fresh', 'list[RawTokenModel]@fresh')
    ensures(result is self and fresh(self._number_add_expr) and AddShape(self._number_add_expr) and len(self._number_add_expr._raw_ops) == 0 and fresh(self._number_add_expr._raw_operands[0]))
    ensures(len(self._number_add_expr._raw_operands[0]._raw_ops) >= 1
            and fresh(self._number_add_expr._raw_operands[0]._raw_ops[len(self._number_add_expr._raw_operands[0]._raw_ops) - 1])
            and self._number_add_expr._raw_operands[0]._raw_ops[len(self._number_add_expr._raw_operands[0]._raw_ops) - 1]._raw_text == '*')
    ensures(implies(old(len(self._number_add_expr._raw_ops)) == 0,
            len(self._number_add_expr._raw_operands[0]._raw_ops) == old(len(self._number_add_expr._raw_operands[0]._raw_ops)) + 1
            and forall(lambda k: implies(0 <= k and k < old(len(self._number_add_expr._raw_operands[0]._raw_ops)),
                    self._number_add_expr._raw_operands[0]._raw_ops[k] is old(self._number_add_expr._raw_operands[0]._raw_ops[k])), self._number_add_expr._raw_operands[0]._raw_ops[k])
            and forall(lambda k: implies(0 <= k and k <= old(len(self._number_add_expr._raw_operands[0]._raw_ops)),
                    self._number_add_expr._raw_operands[0]._raw_operands[k] is old(self._number_add_expr._raw_operands[0]._raw_operands[k])), self._number_add_expr._raw_operands[0]._raw_operands[k])))
    ensures(implies(old(len(self._number_add_expr._raw_ops)) > 0,
            len(self._number_add_expr._raw_operands[0]._raw_ops) == 1 and isinstance(self._number_add_expr._raw_operands[0]._raw_operands[0], NumberParenExpr)
            and as_ref(self._number_add_expr._raw_operands[0]._raw_operands[0], 'NumberParenExpr')._inner_expr is old(self._number_add_expr)))
    ensures(implies(old(len(other._number_add_expr._raw_ops)) == 0 and old(len(other._number_add_expr._raw_operands[0]._raw_ops)) == 0,
            self._number_add_expr._raw_operands[0]._raw_operands[len(self._number_add_expr._raw_operands[0]._raw_ops)] is old(other._number_add_expr._raw_operands[0]._raw_operands[0])))
    ensures(implies(not (old(len(other._number_add_expr._raw_ops)) == 0 and old(len(other._number_add_expr._raw_operands[0]._raw_ops)) == 0),
            isinstance(self._number_add_expr._raw_operands[0]._raw_operands[len(self._number_add_expr._raw_operands[0]._raw_ops)], NumberParenExpr)
            and as_ref(self._number_add_expr._raw_operands[0]._raw_operands[len(self._number_add_expr._raw_operands[0]._raw_ops)], 'NumberParenExpr')._inner_expr is old(other._number_add_expr)))

@contract('NumberExpr.__itruediv__')
def _(self, other):
    requires(ExprShape(self) and ExprShape(other) and self is not other)
    modifies('NumberExprGenerated._number_add_expr@self', 'RawTokenModel._raw_text@fresh', 'NumberParenExpr._token_store@fresh', 'NumberParenExpr._left_paren@fresh', 'NumberParenExpr._inner_expr@fresh',
             'NumberParenExpr._right_paren@fresh', 'NumberMulExpr._raw_operands@fresh', 'NumberMulExpr._raw_ops@fresh', 'NumberAddExpr._raw_operands@fresh', 'NumberAddExpr._raw_ops@fresh',
             'RawTreeModel._token_store@fresh', 'list[NumberAtomExpr]@fresh', 'list[MulOp]@fresh', 'list[NumberMulExpr]@fresh', 'list[AddOp]@fresh', 'list[RawTokenModel]@fresh')
    ensures(result is self and fresh(self._number_add_expr) and AddShape(self._number_add_expr) and len(self._number_add_expr._raw_ops) == 0 and fresh(self._number_add_expr._raw_operands[0]))
    ensures(len(self._number_add_expr._raw_operands[0]._raw_ops) >= 1
            and fresh(self._number_add_expr._raw_operands[0]._raw_ops[len(self._number_add_expr._raw_operands[0]._raw_ops) - 1])
            and self._number_add_expr._raw_operands[0]._raw_ops[len(self._number_add_expr._raw_operands[0]._raw_ops) - 1]._raw_text == '/')
    ensures(implies(old(len(self._number_add_expr._raw_ops)) == 0,
            len(self._number_add_expr._raw_operands[0]._raw_ops) == old(len(self._number_add_expr._raw_operands[0]._raw_ops)) + 1
            and forall(lambda k: implies(0 <= k and k < old(len(self._number_add_expr._raw_operands[0]._raw_ops)),
                    self._number_add_expr._raw_operands[0]._raw_ops[k] is old(self._number_add_expr._raw_operands[0]._raw_ops[k])), self._number_add_expr._raw_operands[0]._raw_ops[k])
            and forall(lambda k: implies(0 <= k and k <= old(len(self._number_add_expr._raw_operands[0]._raw_ops)),
                    self._number_add_expr._raw_operands[0]._raw_operands[k] is old(self._number_add_expr._raw_operands[0]._raw_operands[k])), self._number_add_expr._raw_operands[0]._raw_operands[k])))
    ensures(implies(old(len(self._number_add_expr._raw_ops)) > 0,
            len(self._number_add_expr._raw_operands[0]._raw_ops) == 1 and isinstance(self._number_add_expr._raw_operands[0]._raw_operands[0], NumberParenExpr)
            and as_ref(self._number_add_expr._raw_operands[0]._raw_operands[0], 'NumberParenExpr')._inner_expr is old(self._number_add_expr)))
    ensures(implies(old(len(other._number_add_expr._raw_ops)) == 0 and old(len(other._number_add_expr._raw_operands[0]._raw_ops)) == 0,
            self._number_add_expr._raw_operands[0]._raw_operands[len(self._number_add_expr._raw_operands[0]._raw_ops)] is old(other._number_add_expr._raw_operands[0]._raw_operands[0])))
    ensures(implies(not (old(len(other._number_add_expr._raw_ops)) == 0 and old(len(other._number_add_expr._raw_operands[0]._raw_ops)) == 0),
            isinstance(self._number_add_expr._raw_operands[0]._raw_operands[len(self._number_add_expr._raw_operands[0]._raw_ops)], NumberParenExpr)
            and as_ref(self._number_add_expr._raw_operands[0]._raw_operands[len(self._number_add_expr._raw_operands[0]._raw_ops)], 'NumberParenExpr')._inner_expr is old(other._number_add_expr)))


# ---- wrap_with_parenthesis: the expression becomes one product of one factor, the old sum in parentheses
@contract('NumberExpr.wrap_with_parenthesis')
def _(self):
    requires(ExprShape(self))
    modifies('NumberExprGenerated._number_add_expr@self', 'RawTokenModel._raw_text@fresh', 'NumberParenExpr._token_store@fresh', 'NumberParenExpr._left_paren@fresh', 'NumberParenExpr._inner_expr@fresh',
             'NumberParenExpr._right_paren@fresh', 'NumberMulExpr._raw_operands@fresh', 'NumberMulExpr._raw_ops@fresh', 'NumberAddExpr._raw_operands@fresh', 'NumberAddExpr._raw_ops@fresh',
             'RawTreeModel._token_store@fresh', 'list[NumberAtomExpr]@fresh', 'list[MulOp]@fresh', 'list[NumberMulExpr]@fresh', 'list[AddOp]@fresh')
    ensures(fresh(self._number_add_expr) and AddShape(self._number_add_expr) and len(self._number_add_expr._raw_ops) == 0 and fresh(self._number_add_expr._raw_operands[0]))
    ensures(len(self._number_add_expr._raw_operands[0]._raw_ops) == 0
            and fresh(self._number_add_expr._raw_operands[0]._raw_operands[0]) and isinstance(self._number_add_expr._raw_operands[0]._raw_operands[0], NumberParenExpr)
            and as_ref(self._number_add_expr._raw_operands[0]._raw_operands[0], 'NumberParenExpr')._inner_expr is old(self._number_add_expr))
