"""Contracts for models/internal/spacing_accessors.py (C17, and the C05 clause 'a spacing edit never removes a structural token').
The successor function is a parameter: it is modelled as an arbitrary total function succ: token -> token|None (a ghost array), so the contract
holds for store.get_prev and store.get_next alike.  chain(succ, x, k) is the k-fold successor of x."""

UFUNS = {'chain': ['IARR', 'int', 'int', 'int']}
AXIOMS = [
    forall(lambda A_f, x: chain(A_f, x, 0) == x, chain(A_f, x, 0)),
    forall(lambda A_f, x, k: implies(k >= 0, chain(A_f, x, k + 1) == sel(A_f, chain(A_f, x, k))), chain(A_f, x, k + 1)),
]

@lemma
def chain_add(A_f, x, n, k):
    requires(0 <= n and 0 <= k)
    ensures(chain(A_f, chain(A_f, x, n), k) == chain(A_f, x, n + k))
    hint(chain(A_f, chain(A_f, x, n), k + 1) == sel(A_f, chain(A_f, chain(A_f, x, n), k)))
    hint(chain(A_f, x, n + k + 1) == sel(A_f, chain(A_f, x, n + k)))
    induction('k', 0)
    trigger(chain(A_f, chain(A_f, x, n), k))

@macro
def Txt(t):
    return as_ref(t, 'RawTokenModel')._raw_text

@macro
def IsSp(t):
    return isinstance(as_ref(t, 'RawTokenModel'), (Newline, Whitespace))

@macro
def Run(l):
    return as_ref(l, 'SpRun')

@contract('_find_spacing')
def _(token, succ):
    types(succ='IARR', succ__ret='RawTokenModel', tokens='list[RawTokenModel]')
    modifies('list[RawTokenModel]@fresh', 'SpRun.n0@fresh', 'SpRun.n1@fresh', 'SpRun.gk@fresh')
    after_stmt('tokens: list[base.RawTokenModel] = []', 'letarr', 'g_k', lambda j: 0)
    after_stmt('tokens.append(token)', 'letarr', 'g_k', lambda j: ite(j == len(tokens) - 1, K, sel(g_k, j)))
    # loop 0: skip zero-width tokens
    invariant(0, token == chain(succ, old(token), K),
                 forall(lambda k: implies(0 <= k and k < K, chain(succ, old(token), k) != 0 and strlen(Txt(chain(succ, old(token), k))) == 0), chain(succ, old(token), k)))
    # loop 1: the maximal run of Newline/Whitespace tokens that follows; g_k[j] is the position in that run of the j-th collected token
    invariant(1, tokens is pre(tokens) and token == chain(succ, chain(succ, old(token), K_loop0), K),
                 forall(lambda k: implies(0 <= k and k < K, IsSp(chain(succ, chain(succ, old(token), K_loop0), k))), chain(succ, chain(succ, old(token), K_loop0), k)),
                 forall(lambda j: implies(0 <= j and j < len(tokens), 0 <= sel(g_k, j) and sel(g_k, j) < K and tokens[j] == chain(succ, chain(succ, old(token), K_loop0), sel(g_k, j))
                        and strlen(Txt(tokens[j])) != 0), tokens[j]),
                 forall(lambda i, j: implies(0 <= i and i < j and j < len(tokens), sel(g_k, i) < sel(g_k, j)), (sel(g_k, i), sel(g_k, j))),
                 forall(lambda k: implies(0 <= k and k < K and strlen(Txt(chain(succ, chain(succ, old(token), K_loop0), k))) != 0, exists(lambda j: 0 <= j and j < len(tokens) and sel(g_k, j) == k and tokens[j] == chain(succ, chain(succ, old(token), K_loop0), k))), chain(succ, chain(succ, old(token), K_loop0), k)))
    # the witnesses, recorded on the returned list: n0 zero-width tokens skipped, then a run of n1 spacing tokens; gk[j] = place in the run of the j-th collected token
    ghost('as_ref(result, "SpRun"):n0', K_loop0)
    ghost('as_ref(result, "SpRun"):n1', K_loop1)
    ghost('as_ref(result, "SpRun"):gk', lambda j: sel(g_k, j))
    ensures(result != None and fresh(result) and Run(result).n0 >= 0 and Run(result).n1 >= 0)
    # the skipped prefix consists of zero-width tokens only and ends at a visible token (or at the end)
    ensures(forall(lambda k: implies(0 <= k and k < Run(result).n0, chain(succ, old(token), k) != 0 and strlen(Txt(chain(succ, old(token), k))) == 0), chain(succ, old(token), k)))
    ensures(chain(succ, old(token), Run(result).n0) == 0 or strlen(Txt(chain(succ, old(token), Run(result).n0))) != 0)
    # then comes a run of n1 spacing tokens, ended by a non-spacing token (or the end): nothing but spacing lies between collected tokens
    ensures(forall(lambda k: implies(0 <= k and k < Run(result).n1, IsSp(chain(succ, chain(succ, old(token), Run(result).n0), k))), chain(succ, chain(succ, old(token), Run(result).n0), k)))
    ensures(not IsSp(chain(succ, chain(succ, old(token), Run(result).n0), Run(result).n1)))
    # the result is exactly the visible tokens of that run, in order
    ensures(forall(lambda j: implies(0 <= j and j < len(result), 0 <= sel(Run(result).gk, j) and sel(Run(result).gk, j) < Run(result).n1 and result[j] == chain(succ, chain(succ, old(token), Run(result).n0), sel(Run(result).gk, j))
            and strlen(Txt(result[j])) != 0 and IsSp(result[j])), result[j]))
    ensures(forall(lambda i, j: implies(0 <= i and i < j and j < len(result), sel(Run(result).gk, i) < sel(Run(result).gk, j)), (sel(Run(result).gk, i), sel(Run(result).gk, j))))
    ensures(forall(lambda k: implies(0 <= k and k < Run(result).n1 and strlen(Txt(chain(succ, chain(succ, old(token), Run(result).n0), k))) != 0, exists(lambda j: 0 <= j and j < len(result) and sel(Run(result).gk, j) == k and result[j] == chain(succ, chain(succ, old(token), Run(result).n0), k))), chain(succ, chain(succ, old(token), Run(result).n0), k)))

# ================================================================ the accessor properties (store seen through its abstract interface: view, vlen, per-token store/pos)
@macro
def AbsInv(s):
    return (s.g_vlen >= 0
        and forall(lambda k: implies(0 <= k and k < s.g_vlen, allocated(as_ref(sel(s.g_view, k), 'RawTokenModel')) and as_ref(sel(s.g_view, k), 'RawTokenModel').g_store is s and as_ref(sel(s.g_view, k), 'RawTokenModel').g_pos == k), sel(s.g_view, k)))

@macro
def In(s, t):
    return t != None and t.g_store is s and 0 <= t.g_pos and t.g_pos < s.g_vlen and sel(s.g_view, t.g_pos) is t

@macro
def Vis(t):      # a token with at least one character
    return strlen(Txt(t)) != 0

@contract('TokenStore.get_next')
def _(self, token):
    requires(AbsInv(self) and In(self, token))
    modifies()
    ensures(result == ite(token.g_pos + 1 < self.g_vlen, sel(self.g_view, token.g_pos + 1), 0))

@contract('TokenStore.get_prev')
def _(self, token):
    requires(AbsInv(self) and In(self, token))
    modifies()
    ensures(result == ite(token.g_pos > 0, sel(self.g_view, token.g_pos - 1), 0))

@macro
def FreeTokens(tokens):
    return (tokens != None and forall(lambda k: implies(0 <= k and k < len(tokens), tokens[k] != None and tokens[k].g_store is None), tokens[k])
        and forall(lambda j, k: implies(0 <= j and j < k and k < len(tokens), tokens[j] != tokens[k])))

@macro
def Window(s, tokens, a, b):      # view' == old view[:a] ++ tokens ++ old view[b:]
    return (s.g_vlen == old(s.g_vlen) - (b - a) + len(tokens) and AbsInv(s)
        and forall(lambda k: sel(s.g_view, k) == ite(k < a, sel(old(s.g_view), k), ite(k < a + len(tokens), sel(elems(tokens), k - a), sel(old(s.g_view), k - len(tokens) + (b - a))))))

@contract('TokenStore.splice')
def _(self, tokens, ref, del_end):
    requires(AbsInv(self) and (ref is None or In(self, ref)) and (del_end is None or In(self, del_end)) and FreeTokens(tokens))
    requires(ite(ref is None, 0, ref.g_pos) <= ite(del_end is None, ite(ref is None, 0, ref.g_pos), del_end.g_pos + 1))
    modifies('TokenStore.g_view@self', 'TokenStore.g_vlen@self', 'RawTokenModel.g_store', 'RawTokenModel.g_pos')
    ensures(Window(self, tokens, old(ite(ref is None, 0, ref.g_pos)), old(ite(del_end is None, ite(ref is None, 0, ref.g_pos), del_end.g_pos + 1))))

@contract('TokenStore.insert_after')
def _(self, ref, tokens):
    requires(AbsInv(self) and (ref is None or In(self, ref)) and FreeTokens(tokens))
    modifies('TokenStore.g_view@self', 'TokenStore.g_vlen@self', 'RawTokenModel.g_store', 'RawTokenModel.g_pos')
    ensures(Window(self, tokens, old(ite(ref is None, 0, ref.g_pos + 1)), old(ite(ref is None, 0, ref.g_pos + 1))))

@contract('TokenStore.insert_before')
def _(self, ref, tokens):
    requires(AbsInv(self) and (ref is None or In(self, ref)) and FreeTokens(tokens))
    modifies('TokenStore.g_view@self', 'TokenStore.g_vlen@self', 'RawTokenModel.g_store', 'RawTokenModel.g_pos')
    ensures(Window(self, tokens, old(ite(ref is None, 0, ref.g_pos)), old(ite(ref is None, 0, ref.g_pos))))

@contract('RawModel.token_store')
def _(self):
    modifies()
    ensures(result is self.g_ts)

@contract('RawModel.first_token')
def _(self):
    modifies()
    ensures(result is self.g_first and result != None)

@contract('RawModel.last_token')
def _(self):
    modifies()
    ensures(result is self.g_last and result != None)

# walking k steps from view[p] with get_next / get_prev lands on view[p + k] / view[p - k] (None once outside)
@lemma
def chain_next_all(A_f, A_v, n, p, N):
    requires(0 <= p and p < n and 0 <= N and p + N <= n and forall(lambda i: implies(0 <= i and i < n, sel(A_f, sel(A_v, i)) == ite(i + 1 < n, sel(A_v, i + 1), 0))))
    ensures(forall(lambda k: implies(0 <= k and k <= N, chain(A_f, sel(A_v, p), k) == ite(p + k < n, sel(A_v, p + k), 0)), chain(A_f, sel(A_v, p), k)))
    hint(chain(A_f, sel(A_v, p), N + 1) == sel(A_f, chain(A_f, sel(A_v, p), N)))
    induction('N', 0)

@lemma
def chain_prev_all(A_f, A_v, n, p, N):
    requires(0 <= p and p < n and 0 <= N and N <= p + 1 and forall(lambda i: implies(0 <= i and i < n, sel(A_f, sel(A_v, i)) == ite(i > 0, sel(A_v, i - 1), 0))))
    ensures(forall(lambda k: implies(0 <= k and k <= N, chain(A_f, sel(A_v, p), k) == ite(k <= p, sel(A_v, p - k), 0)), chain(A_f, sel(A_v, p), k)))
    hint(chain(A_f, sel(A_v, p), N + 1) == sel(A_f, chain(A_f, sel(A_v, p), N)))
    induction('N', 0)

@macro
def Attached(m):
    return m != None and implies(m.g_ts != None, AbsInv(m.g_ts) and In(m.g_ts, m.g_first) and In(m.g_ts, m.g_last) and m.g_first.g_pos <= m.g_last.g_pos)

# ---- spacing after: the visible spacing tokens between the model's last token and the next token that is not spacing
# ghost g_a / g_b: the run of spacing tokens is view[g_a .. g_b)
@contract('SpacingAccessorsMixin.raw_spacing_after')
def _(self):
    requires(Attached(self))
    modifies('list[RawTokenModel]@fresh', 'SpRun.n0@fresh', 'SpRun.n1@fresh', 'SpRun.gk@fresh', 'SpacingAccessorsMixin.g_a@self', 'SpacingAccessorsMixin.g_b@self')
    after_call('_find_spacing', 'g_run', 'g_tok0', 'A_succ')
    ghost('g_a', ite(self.g_last.g_pos + 1 < self.g_ts.g_vlen, self.g_last.g_pos + 1 + Run(g_run).n0, self.g_ts.g_vlen))
    ghost('g_b', ite(self.g_last.g_pos + 1 < self.g_ts.g_vlen, self.g_last.g_pos + 1 + Run(g_run).n0 + Run(g_run).n1, self.g_ts.g_vlen))
    exit_assert(use_if(self.g_ts != None and self.g_last.g_pos + 1 < self.g_ts.g_vlen, 'chain_next_all', A_succ, self.g_ts.g_view, self.g_ts.g_vlen, self.g_last.g_pos + 1, self.g_ts.g_vlen - self.g_last.g_pos - 1))
    # the walk cannot leave the store: it reaches None exactly after the last token
    exit_assert(implies(self.g_ts != None and self.g_last.g_pos + 1 < self.g_ts.g_vlen, g_tok0 == sel(self.g_ts.g_view, self.g_last.g_pos + 1) and chain(A_succ, g_tok0, self.g_ts.g_vlen - self.g_last.g_pos - 1) == 0))
    exit_assert(implies(self.g_ts != None and self.g_last.g_pos + 1 < self.g_ts.g_vlen, Run(g_run).n0 <= self.g_ts.g_vlen - self.g_last.g_pos - 1))
    exit_assert(use_if(self.g_ts != None and self.g_last.g_pos + 1 < self.g_ts.g_vlen, 'chain_add', A_succ, g_tok0, Run(g_run).n0, self.g_ts.g_vlen - self.g_last.g_pos - 1 - Run(g_run).n0))
    exit_assert(implies(self.g_ts != None and self.g_last.g_pos + 1 < self.g_ts.g_vlen, Run(g_run).n0 + Run(g_run).n1 <= self.g_ts.g_vlen - self.g_last.g_pos - 1))
    exit_assert(implies(self.g_ts != None and self.g_last.g_pos + 1 < self.g_ts.g_vlen,
                        forall(lambda k: implies(0 <= k and k <= Run(g_run).n1, chain(A_succ, chain(A_succ, g_tok0, Run(g_run).n0), k)
                                                 == ite(self.g_last.g_pos + 1 + Run(g_run).n0 + k < self.g_ts.g_vlen, sel(self.g_ts.g_view, self.g_last.g_pos + 1 + Run(g_run).n0 + k), 0)),
                               chain(A_succ, chain(A_succ, g_tok0, Run(g_run).n0), k))))
    # the same two facts indexed by view position (so that statements about view[k] find the walk)
    exit_assert(implies(self.g_ts != None and self.g_last.g_pos + 1 < self.g_ts.g_vlen,
                        forall(lambda k: implies(self.g_last.g_pos < k and k < self.g_last.g_pos + 1 + Run(g_run).n0, chain(A_succ, g_tok0, k - self.g_last.g_pos - 1) == sel(self.g_ts.g_view, k)), sel(self.g_ts.g_view, k))))
    exit_assert(implies(self.g_ts != None and self.g_last.g_pos + 1 < self.g_ts.g_vlen,
                        forall(lambda k: implies(self.g_last.g_pos + 1 + Run(g_run).n0 <= k and k < self.g_last.g_pos + 1 + Run(g_run).n0 + Run(g_run).n1,
                                                 chain(A_succ, chain(A_succ, g_tok0, Run(g_run).n0), k - (self.g_last.g_pos + 1 + Run(g_run).n0)) == sel(self.g_ts.g_view, k)), sel(self.g_ts.g_view, k))))
    exit_assert(implies(self.g_ts != None and not (self.g_last.g_pos + 1 < self.g_ts.g_vlen), g_tok0 == 0 and chain(A_succ, g_tok0, 0) == 0 and Run(g_run).n0 == 0))
    exit_assert(implies(self.g_ts != None and not (self.g_last.g_pos + 1 < self.g_ts.g_vlen), chain(A_succ, chain(A_succ, g_tok0, 0), 0) == 0 and Run(g_run).n1 == 0))
    ensures(result != None and fresh(result) and implies(self.g_ts is None, len(result) == 0))
    ensures(implies(self.g_ts != None, self.g_last.g_pos + 1 <= self.g_a and self.g_a <= self.g_b and self.g_b <= self.g_ts.g_vlen))
    ensures(implies(self.g_ts != None, forall(lambda k: implies(self.g_last.g_pos < k and k < self.g_a, not Vis(sel(self.g_ts.g_view, k))), sel(self.g_ts.g_view, k))))
    ensures(implies(self.g_ts != None, self.g_a == self.g_ts.g_vlen or Vis(sel(self.g_ts.g_view, self.g_a))))
    ensures(implies(self.g_ts != None, forall(lambda k: implies(self.g_a <= k and k < self.g_b, IsSp(sel(self.g_ts.g_view, k))), sel(self.g_ts.g_view, k))))
    ensures(implies(self.g_ts != None, self.g_b == self.g_ts.g_vlen or not IsSp(sel(self.g_ts.g_view, self.g_b))))
    ensures(implies(self.g_ts != None, forall(lambda j: implies(0 <= j and j < len(result), In(self.g_ts, result[j]) and self.g_a <= result[j].g_pos and result[j].g_pos < self.g_b and Vis(result[j])), result[j])))
    ensures(implies(self.g_ts != None, forall(lambda i, j: implies(0 <= i and i < j and j < len(result), result[i].g_pos < result[j].g_pos))))
    ensures(implies(self.g_ts != None, forall(lambda k: implies(self.g_a <= k and k < self.g_b and Vis(sel(self.g_ts.g_view, k)), exists(lambda j: 0 <= j and j < len(result) and result[j] == sel(self.g_ts.g_view, k))), sel(self.g_ts.g_view, k))))

# ---- spacing before: mirrored (walking with get_prev); the run of spacing tokens is view[g_c .. g_d), zero-width tokens only in view[g_d .. first)
@contract('SpacingAccessorsMixin.raw_spacing_before')
def _(self):
    requires(Attached(self))
    modifies('list[RawTokenModel]@fresh', 'SpRun.n0@fresh', 'SpRun.n1@fresh', 'SpRun.gk@fresh', 'SpacingAccessorsMixin.g_c@self', 'SpacingAccessorsMixin.g_d@self')
    after_call('_find_spacing', 'g_run', 'g_tok0', 'A_succ')
    ghost('g_d', ite(self.g_first.g_pos > 0, self.g_first.g_pos - Run(g_run).n0, 0))
    ghost('g_c', ite(self.g_first.g_pos > 0, self.g_first.g_pos - Run(g_run).n0 - Run(g_run).n1, 0))
    exit_assert(use_if(self.g_ts != None and self.g_first.g_pos > 0, 'chain_prev_all', A_succ, self.g_ts.g_view, self.g_ts.g_vlen, self.g_first.g_pos - 1, self.g_first.g_pos))
    exit_assert(implies(self.g_ts != None and self.g_first.g_pos > 0, g_tok0 == sel(self.g_ts.g_view, self.g_first.g_pos - 1) and chain(A_succ, g_tok0, self.g_first.g_pos) == 0))
    exit_assert(implies(self.g_ts != None and self.g_first.g_pos > 0, Run(g_run).n0 <= self.g_first.g_pos))
    exit_assert(use_if(self.g_ts != None and self.g_first.g_pos > 0, 'chain_add', A_succ, g_tok0, Run(g_run).n0, self.g_first.g_pos - Run(g_run).n0))
    exit_assert(implies(self.g_ts != None and self.g_first.g_pos > 0, Run(g_run).n0 + Run(g_run).n1 <= self.g_first.g_pos))
    exit_assert(implies(self.g_ts != None and self.g_first.g_pos > 0,
                        forall(lambda k: implies(0 <= k and k <= Run(g_run).n1, chain(A_succ, chain(A_succ, g_tok0, Run(g_run).n0), k)
                                                 == ite(Run(g_run).n0 + k <= self.g_first.g_pos - 1, sel(self.g_ts.g_view, self.g_first.g_pos - 1 - Run(g_run).n0 - k), 0)),
                               chain(A_succ, chain(A_succ, g_tok0, Run(g_run).n0), k))))
    exit_assert(implies(self.g_ts != None and self.g_first.g_pos > 0,
                        forall(lambda k: implies(self.g_first.g_pos - Run(g_run).n0 <= k and k < self.g_first.g_pos, chain(A_succ, g_tok0, self.g_first.g_pos - 1 - k) == sel(self.g_ts.g_view, k)), sel(self.g_ts.g_view, k))))
    exit_assert(implies(self.g_ts != None and self.g_first.g_pos > 0,
                        forall(lambda k: implies(self.g_first.g_pos - Run(g_run).n0 - Run(g_run).n1 <= k and k < self.g_first.g_pos - Run(g_run).n0,
                                                 chain(A_succ, chain(A_succ, g_tok0, Run(g_run).n0), self.g_first.g_pos - Run(g_run).n0 - 1 - k) == sel(self.g_ts.g_view, k)), sel(self.g_ts.g_view, k))))
    exit_assert(implies(self.g_ts != None, len(result) == len(as_list(g_run, 'RawTokenModel')) and forall(lambda i: implies(0 <= i and i < len(result), result[len(result) - 1 - i] == as_list(g_run, 'RawTokenModel')[i]), as_list(g_run, 'RawTokenModel')[i])))
    exit_assert(implies(self.g_ts != None and not (self.g_first.g_pos > 0), g_tok0 == 0 and chain(A_succ, g_tok0, 0) == 0 and Run(g_run).n0 == 0))
    exit_assert(implies(self.g_ts != None and not (self.g_first.g_pos > 0), chain(A_succ, chain(A_succ, g_tok0, 0), 0) == 0 and Run(g_run).n1 == 0))
    ensures(result != None and fresh(result) and implies(self.g_ts is None, len(result) == 0))
    ensures(implies(self.g_ts != None, 0 <= self.g_c and self.g_c <= self.g_d and self.g_d <= self.g_first.g_pos))
    ensures(implies(self.g_ts != None, forall(lambda k: implies(self.g_d <= k and k < self.g_first.g_pos, not Vis(sel(self.g_ts.g_view, k))), sel(self.g_ts.g_view, k))))
    ensures(implies(self.g_ts != None, self.g_d == 0 or Vis(sel(self.g_ts.g_view, self.g_d - 1))))
    ensures(implies(self.g_ts != None, forall(lambda k: implies(self.g_c <= k and k < self.g_d, IsSp(sel(self.g_ts.g_view, k))), sel(self.g_ts.g_view, k))))
    ensures(implies(self.g_ts != None, self.g_c == 0 or not IsSp(sel(self.g_ts.g_view, self.g_c - 1))))
    ensures(implies(self.g_ts != None, forall(lambda j: implies(0 <= j and j < len(result), In(self.g_ts, result[j]) and self.g_c <= result[j].g_pos and result[j].g_pos < self.g_d and Vis(result[j])), result[j])))
    ensures(implies(self.g_ts != None, forall(lambda i, j: implies(0 <= i and i < j and j < len(result), result[i].g_pos < result[j].g_pos))))
    ensures(implies(self.g_ts != None, forall(lambda k: implies(self.g_c <= k and k < self.g_d and Vis(sel(self.g_ts.g_view, k)), exists(lambda j: 0 <= j and j < len(result) and result[j] == sel(self.g_ts.g_view, k))), sel(self.g_ts.g_view, k))))

# ---- the setters: exactly the stretch from the first to the last visible spacing token is replaced by the offered tokens (or they are inserted next to the model);
#      only spacing tokens are removed, only zero-width tokens stay between the model and the new spacing; without a store the call is refused with nothing changed
@contract('SpacingAccessorsMixin.raw_spacing_after.setter')
def _(self, tokens):
    types(tokens='list[RawTokenModel]')
    requires(Attached(self) and implies(self.g_ts != None, FreeTokens(tokens)))
    modifies('TokenStore.g_view@self.g_ts', 'TokenStore.g_vlen@self.g_ts', 'RawTokenModel.g_store', 'RawTokenModel.g_pos', 'list[RawTokenModel]@fresh', 'SpRun.n0@fresh', 'SpRun.n1@fresh', 'SpRun.gk@fresh',
             'SpacingAccessorsMixin.g_a@self', 'SpacingAccessorsMixin.g_b@self', 'SpacingAccessorsMixin.g_cut_a@self', 'SpacingAccessorsMixin.g_cut_b@self')
    raises('ValueError', 'TokenStore.g_view', 'TokenStore.g_vlen', 'RawTokenModel.g_store', 'RawTokenModel.g_pos', when=self.g_ts is None)
    after_assign('current_tokens', 'setint', 'g_cut_a', ite(len(current_tokens) > 0, current_tokens[0].g_pos, self.g_last.g_pos + 1))
    after_assign('current_tokens', 'setint', 'g_cut_b', ite(len(current_tokens) > 0, current_tokens[len(current_tokens) - 1].g_pos + 1, self.g_last.g_pos + 1))
    ensures(old(self.g_last.g_pos) < self.g_cut_a and self.g_cut_a <= self.g_cut_b and self.g_cut_b <= old(self.g_ts.g_vlen))
    ensures(Window(self.g_ts, tokens, self.g_cut_a, self.g_cut_b))
    ensures(forall(lambda k: implies(self.g_cut_a <= k and k < self.g_cut_b, IsSp(sel(old(self.g_ts.g_view), k))), sel(old(self.g_ts.g_view), k)))
    ensures(forall(lambda k: implies(old(self.g_last.g_pos) < k and k < self.g_cut_a, not Vis(sel(old(self.g_ts.g_view), k))), sel(old(self.g_ts.g_view), k)))
    # every visible token of the old spacing run is inside the replaced stretch
    ensures(forall(lambda k: implies(self.g_a <= k and k < self.g_b and Vis(sel(old(self.g_ts.g_view), k)), self.g_cut_a <= k and k < self.g_cut_b), sel(old(self.g_ts.g_view), k)))

@contract('SpacingAccessorsMixin.raw_spacing_before.setter')
def _(self, tokens):
    types(tokens='list[RawTokenModel]')
    requires(Attached(self) and implies(self.g_ts != None, FreeTokens(tokens)))
    modifies('TokenStore.g_view@self.g_ts', 'TokenStore.g_vlen@self.g_ts', 'RawTokenModel.g_store', 'RawTokenModel.g_pos', 'list[RawTokenModel]@fresh', 'SpRun.n0@fresh', 'SpRun.n1@fresh', 'SpRun.gk@fresh',
             'SpacingAccessorsMixin.g_c@self', 'SpacingAccessorsMixin.g_d@self', 'SpacingAccessorsMixin.g_cut_a@self', 'SpacingAccessorsMixin.g_cut_b@self')
    raises('ValueError', 'TokenStore.g_view', 'TokenStore.g_vlen', 'RawTokenModel.g_store', 'RawTokenModel.g_pos', when=self.g_ts is None)
    after_assign('current_tokens', 'setint', 'g_cut_a', ite(len(current_tokens) > 0, current_tokens[0].g_pos, self.g_first.g_pos))
    after_assign('current_tokens', 'setint', 'g_cut_b', ite(len(current_tokens) > 0, current_tokens[len(current_tokens) - 1].g_pos + 1, self.g_first.g_pos))
    ensures(0 <= self.g_cut_a and self.g_cut_a <= self.g_cut_b and self.g_cut_b <= old(self.g_first.g_pos))
    ensures(Window(self.g_ts, tokens, self.g_cut_a, self.g_cut_b))
    ensures(forall(lambda k: implies(self.g_cut_a <= k and k < self.g_cut_b, IsSp(sel(old(self.g_ts.g_view), k))), sel(old(self.g_ts.g_view), k)))
    ensures(forall(lambda k: implies(self.g_cut_b <= k and k < old(self.g_first.g_pos), not Vis(sel(old(self.g_ts.g_view), k))), sel(old(self.g_ts.g_view), k)))
    ensures(forall(lambda k: implies(self.g_c <= k and k < self.g_d and Vis(sel(old(self.g_ts.g_view), k)), self.g_cut_a <= k and k < self.g_cut_b), sel(old(self.g_ts.g_view), k)))
