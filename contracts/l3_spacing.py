"""Contracts for models/internal/spacing_accessors.py (C17, and the C05 clause 'a spacing edit never removes a structural token').
The successor function is a parameter: it is modelled as an arbitrary total function succ: token -> token|None (a ghost array), so the contract
holds for store.get_prev and store.get_next alike.  chain(succ, x, k) is the k-fold successor of x."""

UFUNS = {'chain': ['IARR', 'int', 'int', 'int']}
AXIOMS = [
    forall(lambda A_f, x: chain(A_f, x, 0) == x, chain(A_f, x, 0)),
    forall(lambda A_f, x, k: implies(k >= 0, chain(A_f, x, k + 1) == sel(A_f, chain(A_f, x, k))), chain(A_f, x, k + 1)),
]

@lemma
def chain_add(A_f, x, n, k):
    requires(0 <= n and 0 <= k)
    ensures(chain(A_f, chain(A_f, x, n), k) == chain(A_f, x, n + k))
    hint(chain(A_f, chain(A_f, x, n), k + 1) == sel(A_f, chain(A_f, chain(A_f, x, n), k)))
    hint(chain(A_f, x, n + k + 1) == sel(A_f, chain(A_f, x, n + k)))
    induction('k', 0)
    trigger(chain(A_f, chain(A_f, x, n), k))

@macro
def Txt(t):
    return as_ref(t, 'RawTokenModel')._raw_text

@macro
def IsSp(t):
    return isinstance(as_ref(t, 'RawTokenModel'), (Newline, Whitespace))

@contract('_find_spacing')
def _(token, succ):
    types(succ='IARR', succ__ret='RawTokenModel', tokens='list[RawTokenModel]')
    modifies('list[RawTokenModel]@fresh')
    after_stmt('tokens: list[base.RawTokenModel] = []', 'letarr', 'g_k', lambda j: 0)
    after_stmt('tokens.append(token)', 'letarr', 'g_k', lambda j: ite(j == len(tokens) - 1, K, sel(g_k, j)))
    # loop 0: skip zero-width tokens
    invariant(0, token == chain(succ, old(token), K),
                 forall(lambda k: implies(0 <= k and k < K, chain(succ, old(token), k) != 0 and strlen(Txt(chain(succ, old(token), k))) == 0), chain(succ, old(token), k)))
    # loop 1: the maximal run of Newline/Whitespace tokens that follows; g_k[j] is the position in that run of the j-th collected token
    invariant(1, tokens is pre(tokens) and token == chain(succ, chain(succ, old(token), K_loop0), K),
                 forall(lambda k: implies(0 <= k and k < K, IsSp(chain(succ, chain(succ, old(token), K_loop0), k))), chain(succ, chain(succ, old(token), K_loop0), k)),
                 forall(lambda j: implies(0 <= j and j < len(tokens), 0 <= sel(g_k, j) and sel(g_k, j) < K and tokens[j] == chain(succ, chain(succ, old(token), K_loop0), sel(g_k, j))
                        and strlen(Txt(tokens[j])) != 0), tokens[j]),
                 forall(lambda i, j: implies(0 <= i and i < j and j < len(tokens), sel(g_k, i) < sel(g_k, j)), (sel(g_k, i), sel(g_k, j))),
                 forall(lambda k: implies(0 <= k and k < K and strlen(Txt(chain(succ, chain(succ, old(token), K_loop0), k))) != 0, exists(lambda j: 0 <= j and j < len(tokens) and sel(g_k, j) == k)), chain(succ, chain(succ, old(token), K_loop0), k)))
    ensures(result != None and fresh(result))
    # the skipped prefix consists of zero-width tokens only and ends at a visible token (or at the end)
    ensures(forall(lambda k: implies(0 <= k and k < K_loop0, chain(succ, old(token), k) != 0 and strlen(Txt(chain(succ, old(token), k))) == 0), chain(succ, old(token), k)))
    # then comes a run of K_loop1 spacing tokens, ended by a non-spacing token (or the end): nothing but spacing lies between collected tokens
    ensures(forall(lambda k: implies(0 <= k and k < K_loop1, IsSp(chain(succ, chain(succ, old(token), K_loop0), k))), chain(succ, chain(succ, old(token), K_loop0), k)))
    ensures(not IsSp(chain(succ, chain(succ, old(token), K_loop0), K_loop1)))
    # the result is exactly the visible tokens of that run, in order
    ensures(forall(lambda j: implies(0 <= j and j < len(result), 0 <= sel(g_k, j) and sel(g_k, j) < K_loop1 and result[j] == chain(succ, chain(succ, old(token), K_loop0), sel(g_k, j))
            and strlen(Txt(result[j])) != 0 and IsSp(result[j])), result[j]))
    ensures(forall(lambda i, j: implies(0 <= i and i < j and j < len(result), sel(g_k, i) < sel(g_k, j)), (sel(g_k, i), sel(g_k, j))))
    ensures(forall(lambda k: implies(0 <= k and k < K_loop1 and strlen(Txt(chain(succ, chain(succ, old(token), K_loop0), k))) != 0, exists(lambda j: 0 <= j and j < len(result) and sel(g_k, j) == k)), chain(succ, chain(succ, old(token), K_loop0), k)))
