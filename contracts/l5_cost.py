"""Contracts for models/cost_spec.py (C09, C19): the dependent group (number_per, number_total, currency) against the record-of-optionals model.

Abstraction: the component list of the cost is seen through its seven typed slots (what the unordered_node_property descriptors expose: at most one
component per type, get returns it, set replaces / inserts / removes it - assumed, checked by the bounded cost driver).  val(n) is the value a node denotes
(copy.deepcopy preserves it).  The three getters are verified to be PerNode / TotalNode / CurNode; every setter is verified to set its own field and to leave the
other two (and date / label / merge) as they were, whatever concrete form the cost started from, or to refuse with nothing changed."""

UFUNS = {'val': ['int', 'int']}

@macro
def IsUnit(s):
    return isinstance(s._cost, UnitCost)

@macro
def IsTotal(s):
    return isinstance(s._cost, TotalCost)

@macro
def PerNode(s):
    return ite(s.raw_compound_amount_comp != None, s.raw_compound_amount_comp.raw_number_per,
           ite(IsUnit(s), ite(s.raw_amount_comp != None, s.raw_amount_comp.raw_number, s.raw_number_comp), None))

@macro
def TotalNode(s):
    return ite(s.raw_compound_amount_comp != None, s.raw_compound_amount_comp.raw_number_total,
           ite(IsTotal(s), ite(s.raw_amount_comp != None, s.raw_amount_comp.raw_number, s.raw_number_comp), None))

@macro
def CurNode(s):
    return ite(s.raw_compound_amount_comp != None, s.raw_compound_amount_comp.raw_currency,
           ite(s.raw_amount_comp != None, s.raw_amount_comp.raw_currency, s.raw_currency_comp))

@macro
def Same(a, b):
    return (a == None and b == None) or (a != None and b != None and val(a) == val(b))

@macro
def Canon(s):
    # exactly one brace kind; at most one amount-like component; amounts are complete; a bare number never sits next to a bare currency
    return (s != None and s._cost != None and (IsUnit(s) or IsTotal(s))
        and implies(s.raw_compound_amount_comp != None, s.raw_amount_comp == None and s.raw_number_comp == None and s.raw_currency_comp == None)
        and implies(s.raw_amount_comp != None, s.raw_number_comp == None and s.raw_currency_comp == None and s.raw_amount_comp.raw_number != None and s.raw_amount_comp.raw_currency != None)
        and not (s.raw_number_comp != None and s.raw_currency_comp != None))

@macro
def OthersKept(s):
    return (s.raw_date_comp is old(s.raw_date_comp) and s.raw_label_comp is old(s.raw_label_comp) and s.raw_asterisk_comp is old(s.raw_asterisk_comp))

# ---- assumed contracts of the component classes (stubs)
@contract('CostSpecGenerated.raw_cost')
def _(self):
    modifies()
    ensures(result is self._cost)

@contract('Amount.from_children')
def _(cls, number, currency):
    modifies('Amount.raw_number@fresh', 'Amount.raw_currency@fresh')
    ensures(result != None and fresh(result) and result.raw_number is number and result.raw_currency is currency)

@contract('CompoundAmount.from_children')
def _(cls, number_per, number_total, currency):
    modifies('CompoundAmount.raw_number_per@fresh', 'CompoundAmount.raw_number_total@fresh', 'CompoundAmount.raw_currency@fresh')
    ensures(result != None and fresh(result) and result.raw_number_per is number_per and result.raw_number_total is number_total and result.raw_currency is currency)

@contract('TotalCost.into_unit_cost')
def _(self):
    requires(self != None)
    modifies()
    ensures(result != None and fresh(result) and isinstance(result, UnitCost))

@contract('UnitCost.into_total_cost')
def _(self):
    requires(self != None)
    modifies()
    ensures(result != None and fresh(result) and isinstance(result, TotalCost))

# ---- getters are the abstraction functions
@contract('CostSpec.raw_number_per')
def _(self):
    requires(Canon(self))
    modifies()
    ensures(result is PerNode(self))

@contract('CostSpec.raw_number_total')
def _(self):
    requires(Canon(self))
    modifies()
    ensures(result is TotalNode(self))

@contract('CostSpec.raw_currency')
def _(self):
    requires(Canon(self))
    modifies()
    ensures(result is CurNode(self))

# ---- setters
@contract('CostSpec.__raw_number_per.setter')
def _(self, value):
    requires(Canon(self))
    modifies('CostSpec.raw_compound_amount_comp@self', 'CostSpec.raw_amount_comp@self', 'CostSpec.raw_number_comp@self', 'CostSpec.raw_currency_comp@self', 'CostSpecGenerated._cost@self',
             'Amount.raw_number@self.raw_amount_comp', 'CompoundAmount.raw_number_per@self.raw_compound_amount_comp',
             'Amount.raw_number@fresh', 'Amount.raw_currency@fresh', 'CompoundAmount.raw_number_per@fresh', 'CompoundAmount.raw_number_total@fresh', 'CompoundAmount.raw_currency@fresh')
    raises('ValueError', 'CostSpec.raw_compound_amount_comp', 'CostSpec.raw_amount_comp', 'CostSpec.raw_number_comp', 'CostSpec.raw_currency_comp', 'CostSpecGenerated._cost',
           'Amount.raw_number', 'Amount.raw_currency', 'CompoundAmount.raw_number_per', 'CompoundAmount.raw_number_total', 'CompoundAmount.raw_currency',
           when=IsTotal(self) and value != None and self.raw_compound_amount_comp == None and self.raw_amount_comp == None and self.raw_currency_comp == None and self.raw_number_comp != None)
    ensures(Canon(self))
    ensures(PerNode(self) is value)
    ensures(Same(TotalNode(self), old(TotalNode(self))))
    ensures(Same(CurNode(self), old(CurNode(self))))
    ensures(OthersKept(self))

@contract('CostSpec.__raw_number_total.setter')
def _(self, value):
    requires(Canon(self))
    modifies('CostSpec.raw_compound_amount_comp@self', 'CostSpec.raw_amount_comp@self', 'CostSpec.raw_number_comp@self', 'CostSpec.raw_currency_comp@self', 'CostSpecGenerated._cost@self',
             'Amount.raw_number@self.raw_amount_comp', 'CompoundAmount.raw_number_total@self.raw_compound_amount_comp',
             'Amount.raw_number@fresh', 'Amount.raw_currency@fresh', 'CompoundAmount.raw_number_per@fresh', 'CompoundAmount.raw_number_total@fresh', 'CompoundAmount.raw_currency@fresh')
    raises('ValueError', 'CostSpec.raw_compound_amount_comp', 'CostSpec.raw_amount_comp', 'CostSpec.raw_number_comp', 'CostSpec.raw_currency_comp', 'CostSpecGenerated._cost',
           'Amount.raw_number', 'Amount.raw_currency', 'CompoundAmount.raw_number_per', 'CompoundAmount.raw_number_total', 'CompoundAmount.raw_currency',
           when=IsUnit(self) and value != None and self.raw_compound_amount_comp == None and self.raw_amount_comp == None and self.raw_currency_comp == None and self.raw_number_comp != None)
    ensures(Canon(self))
    ensures(TotalNode(self) is value)
    ensures(Same(PerNode(self), old(PerNode(self))))
    ensures(Same(CurNode(self), old(CurNode(self))))
    ensures(OthersKept(self))

@contract('CostSpec.__raw_currency.setter')
def _(self, value):
    requires(Canon(self))
    modifies('CostSpec.raw_compound_amount_comp@self', 'CostSpec.raw_amount_comp@self', 'CostSpec.raw_number_comp@self', 'CostSpec.raw_currency_comp@self', 'CostSpecGenerated._cost@self',
             'Amount.raw_currency@self.raw_amount_comp', 'CompoundAmount.raw_currency@self.raw_compound_amount_comp',
             'Amount.raw_number@fresh', 'Amount.raw_currency@fresh')
    raises('ValueError', 'CostSpec.raw_compound_amount_comp', 'CostSpec.raw_amount_comp', 'CostSpec.raw_number_comp', 'CostSpec.raw_currency_comp', 'CostSpecGenerated._cost',
           'Amount.raw_number', 'Amount.raw_currency', 'CompoundAmount.raw_number_per', 'CompoundAmount.raw_number_total', 'CompoundAmount.raw_currency',
           when=self.raw_compound_amount_comp != None and value == None and self.raw_compound_amount_comp.raw_number_per != None and self.raw_compound_amount_comp.raw_number_total != None)
    ensures(Canon(self))
    ensures(CurNode(self) is value)
    ensures(Same(PerNode(self), old(PerNode(self))))
    ensures(Same(TotalNode(self), old(TotalNode(self))))
    ensures(OthersKept(self))
