UFUNS = {'BY': ['int', 'int', 'int'], 'IND': ['int', 'int', 'int']}

"""Contracts for the value-level meta mapping (models/meta_item_internal.py, C18): where a meta item created from a plain value gets its indentation from.
The filtered view the mapping extends is abstract: g_items is the list of MetaItem entries at that moment (kept consistent by RI, unit l3.views)."""

@contract('RepeatedFilteredNodeWrapper.__iter__')
def _(self):
    requires(self != None and self.g_items != None)
    modifies()
    ensures(result != None and len(result) == len(self.g_items) and forall(lambda k: implies(0 <= k and k < len(result), result[k] == self.g_items[k] and result[k] != None), result[k]))

@contract('RepeatedFilteredNodeWrapper.append')
def _(self, value):
    requires(self != None and value != None)
    modifies('list[MetaItem]@self.g_items')
    ensures(len(self.g_items) == old(len(self.g_items)) + 1 and self.g_items[old(len(self.g_items))] is value
            and forall(lambda k: implies(0 <= k and k < old(len(self.g_items)), self.g_items[k] == old(self.g_items[k])), self.g_items[k]))

@contract('MetaItem.key')
def _(self):
    modifies()
    ensures(result == self.g_key)

@contract('MetaItem.indent')
def _(self):
    modifies()
    ensures(result == self.g_indent)

@contract('MetaItem.from_value')
def _(cls, key, value, indent):
    modifies('MetaItem.g_key@fresh', 'MetaItem.g_indent@fresh', 'MetaItem.g_value@fresh')
    ensures(result != None and fresh(result) and result.g_key == key and result.g_indent == indent)

# the documented rule: the indentation of the first existing item, else the default supplied by the owner (parent indent + indent_by)
@contract('RepeatedMetaItemWrapper._get_indent')
def _(self):
    requires(self != None and self.g_items != None)
    modifies()
    ensures(result == ite(len(self.g_items) > 0, self.g_items[0].g_indent, self._default_indent_getter))

@contract('MetaItem.value.setter')
def _(self, value):
    requires(self != None)
    modifies('MetaItem.g_value@self')

# mapping[key] = plain value: an existing key is updated in place (nothing is created, no indentation changes); a new key is appended with the rule's indentation
@contract('RepeatedMetaItemWrapper.__setitem__')
def _(self, index, value):
    types(index='str', value='object')
    requires(self != None and self.g_items != None)
    requires(forall(lambda k: implies(0 <= k and k < len(self.g_items), self.g_items[k] != None), self.g_items[k]))
    modifies('list[MetaItem]@self.g_items', 'MetaItem.g_value', 'MetaItem.g_key@fresh', 'MetaItem.g_indent@fresh')
    invariant(0, forall(lambda k: implies(0 <= k and k < K, self.g_items[k].g_key != index), self.g_items[k]) and len(self.g_items) == pre(len(self.g_items)))
    ensures(implies(old(exists(lambda k: 0 <= k and k < len(self.g_items) and self.g_items[k].g_key == index)), len(self.g_items) == old(len(self.g_items))))
    ensures(implies(not old(exists(lambda k: 0 <= k and k < len(self.g_items) and self.g_items[k].g_key == index)), len(self.g_items) == old(len(self.g_items)) + 1))
    ensures(implies(len(self.g_items) == old(len(self.g_items)) + 1, fresh(self.g_items[old(len(self.g_items))]) and self.g_items[old(len(self.g_items))].g_key == index))
    ensures(implies(len(self.g_items) == old(len(self.g_items)) + 1,
            self.g_items[old(len(self.g_items))].g_indent == old(ite(len(self.g_items) > 0, self.g_items[0].g_indent, self._default_indent_getter))))
    # no existing item changes its indentation or its key
    ensures(forall(lambda k: implies(0 <= k and k < old(len(self.g_items)), self.g_items[k] == old(self.g_items[k])), self.g_items[k]))

# ================================================================ the raw mapping view (RepeatedRawMetaItemWrapper): dictionary access by key over the item list (C10, C09)
@contract('RepeatedFilteredNodeWrapper.__getitem__')
def _(self, index):
    requires(self != None and self.g_items != None and 0 <= index and index < len(self.g_items))
    modifies()
    ensures(result is self.g_items[index])

@contract('RepeatedFilteredNodeWrapper.__setitem__')
def _(self, index, value):
    requires(self != None and self.g_items != None and 0 <= index and index < len(self.g_items) and value != None)
    modifies('list[MetaItem]@self.g_items')
    ensures(len(self.g_items) == old(len(self.g_items)) and self.g_items[index] is value
            and forall(lambda k: implies(0 <= k and k < len(self.g_items) and k != index, self.g_items[k] == old(self.g_items[k])), self.g_items[k]))

@contract('RepeatedFilteredNodeWrapper.__delitem__')
def _(self, index):
    requires(self != None and self.g_items != None and 0 <= index and index < len(self.g_items))
    modifies('list[MetaItem]@self.g_items')
    ensures(len(self.g_items) == old(len(self.g_items)) - 1
            and forall(lambda k: implies(0 <= k and k < len(self.g_items), self.g_items[k] == sel(old(elems(self.g_items)), ite(k < index, k, k + 1))), self.g_items[k]))

@macro
def Items(s):
    return s != None and s.g_items != None and forall(lambda k: implies(0 <= k and k < len(s.g_items), s.g_items[k] != None), s.g_items[k])

@macro
def HasKey(s, key):
    return exists(lambda k: 0 <= k and k < len(s.g_items) and s.g_items[k].g_key == key)

@macro
def FirstAt(s, key, i):      # i is the position of the first item with that key
    return 0 <= i and i < len(s.g_items) and s.g_items[i].g_key == key and forall(lambda j: implies(0 <= j and j < i, s.g_items[j].g_key != key), s.g_items[j])

@contract('RepeatedRawMetaItemWrapper.__getitem__')
def _(self, index):
    types(index='str')
    requires(Items(self))
    modifies()
    raises('KeyError', when=not HasKey(self, index))
    invariant(0, forall(lambda j: implies(0 <= j and j < K, self.g_items[j].g_key != index), self.g_items[j]))
    ensures(exists(lambda i: FirstAt(self, index, i) and result is self.g_items[i]))

@contract('RepeatedRawMetaItemWrapper.__contains__')
def _(self, item):
    types(item='str')
    requires(Items(self))
    modifies()
    invariant(0, forall(lambda j: implies(0 <= j and j < K, self.g_items[j].g_key != item), self.g_items[j]))
    ensures(result == HasKey(self, item))

# mapping[key] = item: the first item with that key is replaced in place (same position, everything else untouched); without one the item is appended
@contract('RepeatedRawMetaItemWrapper.__setitem__')
def _(self, index, value):
    types(index='str', value='MetaItem')
    requires(Items(self) and value != None)
    modifies('list[MetaItem]@self.g_items')
    invariant(0, forall(lambda j: implies(0 <= j and j < K, self.g_items[j].g_key != index), self.g_items[j]) and len(self.g_items) == pre(len(self.g_items)) and elems(self.g_items) == pre(elems(self.g_items)) and self.g_items is pre(self.g_items)
                 and forall(lambda o: len(as_list(o, 'MetaItem')) == pre(len(as_list(o, 'MetaItem'))) and elems(as_list(o, 'MetaItem')) == pre(elems(as_list(o, 'MetaItem')))))
    ensures(implies(old(HasKey(self, index)), len(self.g_items) == old(len(self.g_items))
                    and exists(lambda i: old(FirstAt(self, index, i)) and self.g_items[i] is value and forall(lambda k: implies(0 <= k and k < len(self.g_items) and k != i, self.g_items[k] == old(self.g_items[k])), self.g_items[k]))))
    ensures(implies(not old(HasKey(self, index)), len(self.g_items) == old(len(self.g_items)) + 1 and self.g_items[old(len(self.g_items))] is value
                    and forall(lambda k: implies(0 <= k and k < old(len(self.g_items)), self.g_items[k] == old(self.g_items[k])), self.g_items[k])))

# del mapping[key]: exactly the first item with that key goes, the others keep their order; a missing key is refused with nothing changed
@contract('RepeatedRawMetaItemWrapper.__delitem__')
def _(self, index):
    types(index='str')
    requires(Items(self))
    modifies('list[MetaItem]@self.g_items')
    raises('KeyError', 'list[MetaItem]', when=not HasKey(self, index))
    invariant(0, forall(lambda j: implies(0 <= j and j < K, self.g_items[j].g_key != index), self.g_items[j]) and len(self.g_items) == pre(len(self.g_items)) and elems(self.g_items) == pre(elems(self.g_items)) and self.g_items is pre(self.g_items)
                 and forall(lambda o: len(as_list(o, 'MetaItem')) == pre(len(as_list(o, 'MetaItem'))) and elems(as_list(o, 'MetaItem')) == pre(elems(as_list(o, 'MetaItem')))))
    ensures(len(self.g_items) == old(len(self.g_items)) - 1
            and exists(lambda i: old(FirstAt(self, index, i)) and forall(lambda k: implies(0 <= k and k < len(self.g_items), self.g_items[k] == sel(old(elems(self.g_items)), ite(k < i, k, k + 1))), self.g_items[k])))

# ================================================================ the default indentation of a first meta item (C18): the owner's own indentation FOLLOWED BY its indent_by
# (for top-level entries, which have no indentation of their own: indent_by alone). BY / IND: what the two descriptors read on the instance.
@contract('data_field.__get__')
def _(self, instance):
    modifies()
    functional('BY')

@contract('base_ro_property.__get__')
def _(self, instance):
    modifies()
    ensures(result != None and result.g_text == IND(self, instance))

@contract('Indent.value')
def _(self):
    modifies()
    ensures(result == self.g_text)

@contract('_get_default_indent')
def _(instance, indent_by_field, indent_property):
    requires(indent_by_field != None)
    modifies()
    ensures(result == ite(indent_property != None, cat(IND(indent_property, instance), BY(indent_by_field, instance)), BY(indent_by_field, instance)))
