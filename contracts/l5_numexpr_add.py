"""Contracts for the arithmetic of number expressions (C13): number_mul_expr.py, number_add_expr.py, number_expr.py.
aval(x): the decimal value an atom denotes (virtual `value`, one contract on the base class).  Decimal arithmetic is uninterpreted (A-dec-1).
mfold / afold: the left fold of a product / sum over its operands and operator texts, i.e. usual associativity."""

UFUNS = {'aval': ['int', 'int'], 'mfold': ['IARR', 'IARR', 'IARR', 'int', 'int'], 'afold': ['IARR', 'IARR', 'IARR', 'int', 'int'], 'mulval': ['int', 'int']}
AXIOMS = [
    forall(lambda A_o, A_p, A_t: mfold(A_o, A_p, A_t, 0) == aval(sel(A_o, 0)), mfold(A_o, A_p, A_t, 0)),
    forall(lambda A_o, A_p, A_t, n: implies(n >= 0, mfold(A_o, A_p, A_t, n + 1) == ite(sel(A_t, sel(A_p, n)) == '*', dec_mul(mfold(A_o, A_p, A_t, n), aval(sel(A_o, n + 1))),
                                                                                   dec_div(mfold(A_o, A_p, A_t, n), aval(sel(A_o, n + 1))))), mfold(A_o, A_p, A_t, n + 1)),
    forall(lambda A_o, A_p, A_t: afold(A_o, A_p, A_t, 0) == mulval(sel(A_o, 0)), afold(A_o, A_p, A_t, 0)),
    forall(lambda A_o, A_p, A_t, n: implies(n >= 0, afold(A_o, A_p, A_t, n + 1) == ite(sel(A_t, sel(A_p, n)) == '+', dec_add(afold(A_o, A_p, A_t, n), mulval(sel(A_o, n + 1))),
                                                                                   dec_sub(afold(A_o, A_p, A_t, n), mulval(sel(A_o, n + 1))))), afold(A_o, A_p, A_t, n + 1)),
]

# in this unit the value of a product operand is abstract: mulval(m) names "the value NumberMulExpr.value returns for m" (proved to be the
# left fold of its operands in unit l5.numexpr.mul); sums are folds over those
@contract('NumberMulExpr.value')
def _(self):
    modifies()
    ensures(result == mulval(self))

@macro
def AddShape(m):
    return (m != None and m._raw_operands != None and m._raw_ops != None and len(m._raw_operands) == len(m._raw_ops) + 1
        and forall(lambda k: implies(0 <= k and k < len(m._raw_operands), m._raw_operands[k] != None), m._raw_operands[k])
        and forall(lambda k: implies(0 <= k and k < len(m._raw_ops), m._raw_ops[k] != None and (m._raw_ops[k]._raw_text == '+' or m._raw_ops[k]._raw_text == '-')), m._raw_ops[k]))

@contract('NumberAddExpr.value')
def _(self):
    requires(AddShape(self))
    modifies()
    invariant(0, value == afold(elems(self._raw_operands), elems(self._raw_ops), fld('RawTokenModel._raw_text'), K))
    ensures(result == afold(elems(self._raw_operands), elems(self._raw_ops), fld('RawTokenModel._raw_text'), len(self._raw_ops)))

# the value of a whole expression is the value of its sum (the getter adds nothing)
@contract('NumberExpr.value')
def _(self):
    requires(AddShape(self._number_add_expr))
    modifies()
    ensures(result == afold(elems(self._number_add_expr._raw_operands), elems(self._number_add_expr._raw_ops), fld('RawTokenModel._raw_text'), len(self._number_add_expr._raw_ops)))
