"""Contracts for models/internal/interleaving_comments.py (C04, C05, C14): _shift_ignored moves the Placeholder tokens of a window to one end of it.
Store seen through its abstract interface (view, vlen, per-token store/pos)."""

@macro
def AbsInv(s):
    return (s.g_vlen >= 0
        and forall(lambda k: implies(0 <= k and k < s.g_vlen, allocated(as_ref(sel(s.g_view, k), 'RawTokenModel')) and as_ref(sel(s.g_view, k), 'RawTokenModel').g_store is s and as_ref(sel(s.g_view, k), 'RawTokenModel').g_pos == k), sel(s.g_view, k)))

@macro
def In(s, t):
    return t != None and t.g_store is s and 0 <= t.g_pos and t.g_pos < s.g_vlen and sel(s.g_view, t.g_pos) is t

@macro
def IsPh(t):
    return isinstance(as_ref(t, 'RawTokenModel'), Placeholder)

@contract('TokenStore.iter')
def _(self, start, end):
    requires(AbsInv(self) and In(self, start) and In(self, end) and start.g_pos <= end.g_pos)
    modifies('list[RawTokenModel]@fresh')
    ensures(result != None and fresh(result) and len(result) == end.g_pos - start.g_pos + 1
            and forall(lambda k: implies(0 <= k and k < len(result), result[k] == sel(self.g_view, start.g_pos + k)), result[k]))

# splice with re-offered tokens: every offered token is free or lies inside the removed range (the refusal of anything else is a proved L0 postcondition)
@contract('TokenStore.splice')
def _(self, tokens, ref, del_end):
    requires(AbsInv(self) and In(self, ref) and In(self, del_end) and ref.g_pos <= del_end.g_pos and tokens != None)
    requires(forall(lambda k: implies(0 <= k and k < len(tokens), tokens[k] != None and (tokens[k].g_store is None or (tokens[k].g_store is self and ref.g_pos <= tokens[k].g_pos and tokens[k].g_pos <= del_end.g_pos))), tokens[k]))
    requires(forall(lambda j, k: implies(0 <= j and j < k and k < len(tokens), tokens[j] != tokens[k])))
    modifies('TokenStore.g_view@self', 'TokenStore.g_vlen@self', 'RawTokenModel.g_store', 'RawTokenModel.g_pos')
    ensures(self.g_vlen == old(self.g_vlen) - (old(del_end.g_pos) + 1 - old(ref.g_pos)) + len(tokens) and AbsInv(self))
    ensures(forall(lambda k: sel(self.g_view, k) == ite(k < old(ref.g_pos), sel(old(self.g_view), k),
                             ite(k < old(ref.g_pos) + len(tokens), sel(elems(tokens), k - old(ref.g_pos)), sel(old(self.g_view), k - len(tokens) + (old(del_end.g_pos) + 1 - old(ref.g_pos)))))))

# ghost on the store: g_perm[j] = old offset (inside the window) of the token now at offset j; g_ni = number of Placeholder tokens in the window
@contract('_shift_ignored')
def _(token_store, first, last, backwards):
    requires(token_store != None and AbsInv(token_store) and In(token_store, first) and In(token_store, last) and first.g_pos <= last.g_pos)
    modifies('TokenStore.g_view@token_store', 'TokenStore.g_vlen@token_store', 'RawTokenModel.g_store', 'RawTokenModel.g_pos', 'list[RawTokenModel]@fresh',
             'TokenStore.g_perm@token_store', 'TokenStore.g_ni@token_store')
    types(ignored='list[RawTokenModel]', others='list[RawTokenModel]')
    after_stmt('ignored: list[base.RawTokenModel] = []', 'letarr', 'g_i', lambda j: 0)
    after_stmt('others: list[base.RawTokenModel] = []', 'letarr', 'g_o', lambda j: 0)
    after_stmt('ignored.append(token)', 'letarr', 'g_i', lambda j: ite(j == len(ignored) - 1, K, sel(g_i, j)))
    after_stmt('others.append(token)', 'letarr', 'g_o', lambda j: ite(j == len(others) - 1, K, sel(g_o, j)))
    invariant(0, ignored is pre(ignored) and others is pre(others) and ignored is not others and len(ignored) + len(others) == K and token_store.g_view == old(token_store.g_view) and AbsInv(token_store),
                 forall(lambda j: implies(0 <= j and j < len(ignored), 0 <= sel(g_i, j) and sel(g_i, j) < K and ignored[j] == sel(token_store.g_view, first.g_pos + sel(g_i, j)) and IsPh(ignored[j])), ignored[j]),
                 forall(lambda j: implies(0 <= j and j < len(others), 0 <= sel(g_o, j) and sel(g_o, j) < K and others[j] == sel(token_store.g_view, first.g_pos + sel(g_o, j)) and not IsPh(others[j])), others[j]),
                 forall(lambda i, j: implies(0 <= i and i < j and j < len(ignored), sel(g_i, i) < sel(g_i, j)), (sel(g_i, i), sel(g_i, j))),
                 forall(lambda i, j: implies(0 <= i and i < j and j < len(others), sel(g_o, i) < sel(g_o, j)), (sel(g_o, i), sel(g_o, j))))
    exit_assert(forall(lambda j: implies(0 <= j and j < len(ignored), 0 <= sel(g_i, j) and sel(g_i, j) <= old(last.g_pos) - old(first.g_pos) and ignored[j] == sel(old(token_store.g_view), old(first.g_pos) + sel(g_i, j))
                                         and IsPh(sel(old(token_store.g_view), old(first.g_pos) + sel(g_i, j)))), sel(g_i, j)))
    exit_assert(forall(lambda j: implies(0 <= j and j < len(others), 0 <= sel(g_o, j) and sel(g_o, j) <= old(last.g_pos) - old(first.g_pos) and others[j] == sel(old(token_store.g_view), old(first.g_pos) + sel(g_o, j))
                                         and not IsPh(sel(old(token_store.g_view), old(first.g_pos) + sel(g_o, j)))), sel(g_o, j)))
    exit_assert(len(ignored) + len(others) == old(last.g_pos) - old(first.g_pos) + 1)
    ghost('token_store:g_ni', len(ignored))
    ghost('token_store:g_perm', lambda j: ite(len(ignored) == 0, j, ite(backwards, ite(j < len(ignored), sel(g_i, j), sel(g_o, j - len(ignored))), ite(j < len(others), sel(g_o, j), sel(g_i, j - len(others))))))
    # same tokens, same length, nothing outside the window moves
    ensures(token_store.g_vlen == old(token_store.g_vlen) and AbsInv(token_store))
    ensures(forall(lambda k: implies(k < old(first.g_pos) or k > old(last.g_pos), sel(token_store.g_view, k) == sel(old(token_store.g_view), k))))
    # inside: a rearrangement (g_perm is injective into the window) ...
    ensures(0 <= token_store.g_ni and token_store.g_ni <= old(last.g_pos) - old(first.g_pos) + 1)
    ensures(forall(lambda j: implies(0 <= j and j <= old(last.g_pos) - old(first.g_pos), 0 <= sel(token_store.g_perm, j) and sel(token_store.g_perm, j) <= old(last.g_pos) - old(first.g_pos)
                             and sel(token_store.g_view, old(first.g_pos) + j) == sel(old(token_store.g_view), old(first.g_pos) + sel(token_store.g_perm, j))), sel(token_store.g_perm, j)))
    ensures(forall(lambda i, j: implies(0 <= i and i < j and j <= old(last.g_pos) - old(first.g_pos), sel(token_store.g_perm, i) != sel(token_store.g_perm, j))))
    # ... that puts the Placeholder tokens at one end and keeps the order within both groups (so the text, which Placeholders do not contribute to, is unchanged)
    ensures(implies(token_store.g_ni > 0, forall(lambda j: implies(0 <= j and j <= old(last.g_pos) - old(first.g_pos),
                    IsPh(sel(token_store.g_view, old(first.g_pos) + j)) == ite(backwards, j < token_store.g_ni, j >= old(last.g_pos) - old(first.g_pos) + 1 - token_store.g_ni)), sel(token_store.g_perm, j))))
    ensures(forall(lambda i, j: implies(0 <= i and i < j and j <= old(last.g_pos) - old(first.g_pos)
                                        and IsPh(sel(token_store.g_view, old(first.g_pos) + i)) == IsPh(sel(token_store.g_view, old(first.g_pos) + j)), sel(token_store.g_perm, i) < sel(token_store.g_perm, j))))
