"""Contracts for the values of the two compound atoms (C13): number_unary_expr.py, number_paren_expr.py.
aval(x): the value an atom denotes (virtual `value` of the operand); addval(a): the value NumberAddExpr.value returns for a (the left fold, proved in
l5.numexpr.add).  Decimal negation is uninterpreted (A-dec-1).  A unary operator token carries '+' or '-' (its lexical domain, C12)."""

UFUNS = {'aval': ['int', 'int'], 'addval': ['int', 'int']}

@contract('NumberAtomExpr.value')
def _(self):
    modifies()
    ensures(result == aval(self))

@contract('NumberAddExpr.value')
def _(self):
    modifies()
    ensures(result == addval(self))

@contract('RawTokenModel.raw_text')
def _(self):
    modifies()
    ensures(result == self._raw_text)

# -x is the negation of x, +x is x: nothing else, and no other sign is accepted
@contract('NumberUnaryExpr.value')
def _(self):
    requires(self._unary_op != None and self._operand != None and (self._unary_op._raw_text == '+' or self._unary_op._raw_text == '-'))
    modifies()
    ensures(implies(self._unary_op._raw_text == '+', result == aval(self._operand)))
    ensures(implies(self._unary_op._raw_text == '-', result == dec_neg(aval(self._operand))))

# (e) has the value of e
@contract('NumberParenExpr.value')
def _(self):
    requires(self._inner_expr != None)
    modifies()
    ensures(result == addval(self._inner_expr))
