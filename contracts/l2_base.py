"""Contracts for models/base.py (L2): detach, tokens, equality/hash of tokens, __deepcopy__ -- against the abstract store interface
(view, vlen, per-token store/pos) that restates the proved L0 contracts."""

UFUNS = {'text_eq': ['int', 'int', 'bool'], 'str_hash': ['int', 'int', 'int'], 'rule_of': ['int', 'int']}

@macro
def AbsInv(s):
    return (s.g_vlen >= 0
        and forall(lambda k: implies(0 <= k and k < s.g_vlen, sel(s.g_view, k) != None and as_ref(sel(s.g_view, k), 'RawTokenModel').g_store is s and as_ref(sel(s.g_view, k), 'RawTokenModel').g_pos == k), sel(s.g_view, k)))

@macro
def In(s, t):
    return t != None and t.g_store is s and 0 <= t.g_pos and t.g_pos < s.g_vlen and sel(s.g_view, t.g_pos) is t

# ---- abstract store interface (assumed here, proved on the concrete representation in l0)
@contract('TokenStore.__len__')
def _(self):
    requires(AbsInv(self))
    modifies()
    ensures(result == self.g_vlen)

@contract('TokenStore.get_first')
def _(self):
    requires(AbsInv(self))
    modifies()
    ensures(implies(self.g_vlen > 0, result is sel(self.g_view, 0)) and implies(self.g_vlen == 0, result is None))

@contract('TokenStore.get_last')
def _(self):
    requires(AbsInv(self))
    modifies()
    ensures(implies(self.g_vlen > 0, result is sel(self.g_view, self.g_vlen - 1)) and implies(self.g_vlen == 0, result is None))

@contract('TokenStore.__iter__')
def _(self):
    requires(AbsInv(self))
    modifies()
    ensures(result != None and fresh(result) and len(result) == self.g_vlen and forall(lambda k: implies(0 <= k and k < self.g_vlen, result[k] == sel(self.g_view, k)), result[k]))

@contract('TokenStore.iter')
def _(self, start, end):
    requires(AbsInv(self) and In(self, start) and In(self, end) and start.g_pos <= end.g_pos)
    modifies()
    ensures(result != None and fresh(result) and len(result) == end.g_pos - start.g_pos + 1
            and forall(lambda k: implies(0 <= k and k < len(result), result[k] == sel(self.g_view, start.g_pos + k)), result[k]))

@contract('TokenStore.remove')
def _(self, start, end):
    requires(AbsInv(self) and In(self, start) and In(self, end) and start.g_pos <= end.g_pos)
    modifies('TokenStore.g_view@self', 'TokenStore.g_vlen@self', 'RawTokenModel.g_store', 'RawTokenModel.g_pos')
    ensures(self.g_vlen == old(self.g_vlen) - (old(end.g_pos) - old(start.g_pos) + 1))
    ensures(forall(lambda k: sel(self.g_view, k) == ite(k < old(start.g_pos), sel(old(self.g_view), k), sel(old(self.g_view), k + (old(end.g_pos) - old(start.g_pos) + 1)))))
    ensures(AbsInv(self))
    ensures(forall(lambda k: implies(old(start.g_pos) <= k and k <= old(end.g_pos), as_ref(sel(old(self.g_view), k), 'RawTokenModel').g_store is None), sel(old(self.g_view), k)))
    ensures(forall(lambda t: implies(old(as_ref(t, 'RawTokenModel').g_store) is not self, as_ref(t, 'RawTokenModel').g_store is old(as_ref(t, 'RawTokenModel').g_store) and as_ref(t, 'RawTokenModel').g_pos == old(as_ref(t, 'RawTokenModel').g_pos))))

# ---- virtual observers of a node (one contract on the base class; the template obligations of L4 tie them to the slots)
@contract('RawModel.token_store')
def _(self):
    modifies()
    ensures(result is self.g_ts)

@contract('RawModel.first_token')
def _(self):
    modifies()
    ensures(result is self.g_first and result != None)

@contract('RawModel.last_token')
def _(self):
    modifies()
    ensures(result is self.g_last and result != None)

# ---- detach: only a node that spans its whole store may be moved; anything else is refused with nothing changed
@contract('RawModel.detach')
def _(self):
    requires(self != None and self.g_ts != None and AbsInv(self.g_ts) and self.g_ts.g_vlen >= 1)
    requires(In(self.g_ts, self.g_first) and In(self.g_ts, self.g_last))
    modifies('TokenStore.g_view@self.g_ts', 'TokenStore.g_vlen@self.g_ts', 'RawTokenModel.g_store', 'RawTokenModel.g_pos')
    raises('ValueError', 'TokenStore.g_view', 'TokenStore.g_vlen', 'RawTokenModel.g_store', 'RawTokenModel.g_pos',
           when=not (self.g_first is sel(self.g_ts.g_view, 0) and self.g_last is sel(self.g_ts.g_view, self.g_ts.g_vlen - 1)))
    ensures(result != None and fresh(result) and len(result) == old(self.g_ts.g_vlen) and len(result) >= 1)
    ensures(forall(lambda k: implies(0 <= k and k < len(result), result[k] == sel(old(self.g_ts.g_view), k) and result[k].g_store is None), result[k]))
    ensures(self.g_ts.g_vlen == 0)
    ensures(forall(lambda t: implies(old(as_ref(t, 'RawTokenModel').g_store) is not old(self.g_ts), as_ref(t, 'RawTokenModel').g_store is old(as_ref(t, 'RawTokenModel').g_store) and as_ref(t, 'RawTokenModel').g_pos == old(as_ref(t, 'RawTokenModel').g_pos))))

@contract('RawModel.tokens')
def _(self):
    requires(self != None and self.g_ts != None and AbsInv(self.g_ts) and self.g_ts.g_vlen >= 1)
    requires(In(self.g_ts, self.g_first) and In(self.g_ts, self.g_last) and self.g_first.g_pos <= self.g_last.g_pos)
    modifies()
    ensures(result != None and len(result) == self.g_last.g_pos - self.g_first.g_pos + 1
            and forall(lambda k: implies(0 <= k and k < len(result), result[k] == sel(self.g_ts.g_view, self.g_first.g_pos + k)), result[k]))

# ---- token equality and hash (C20): pure functions of (RULE, current raw text); equal tokens hash equally
# rule_of(t): the class constant RULE of t's class (uninterpreted per object: type(self).RULE / self.RULE / other.RULE all read it)
@contract('RawTokenModel.__eq__')
def _(self, other):
    types(other='RawTokenModel')
    requires(self != None)
    modifies()
    ensures(result == (other != None and self.RULE == other.RULE and self._raw_text == other._raw_text))

@contract('RawTokenModel.__hash__')
def _(self):
    requires(self != None)
    modifies()
    ensures(result == str_hash(self.RULE, self._raw_text))
