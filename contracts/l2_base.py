"""Contracts for models/base.py (L2): detach, tokens, equality/hash of tokens, __deepcopy__ -- against the abstract store interface
(view, vlen, per-token store/pos) that restates the proved L0 contracts."""

UFUNS = {'text_eq': ['int', 'int', 'bool'], 'str_hash': ['int', 'int', 'int'], 'rule_of': ['int', 'int'], 'EQ': ['int', 'int', 'bool'], 'TR': ['int', 'int', 'int'], 'TEQ': ['int', 'int', 'bool']}

@macro
def AbsInv(s):
    return (s.g_vlen >= 0
        and forall(lambda k: implies(0 <= k and k < s.g_vlen, allocated(as_ref(sel(s.g_view, k), 'RawTokenModel')) and as_ref(sel(s.g_view, k), 'RawTokenModel').g_store is s and as_ref(sel(s.g_view, k), 'RawTokenModel').g_pos == k), sel(s.g_view, k)))

@macro
def In(s, t):
    return t != None and t.g_store is s and 0 <= t.g_pos and t.g_pos < s.g_vlen and sel(s.g_view, t.g_pos) is t

# ---- abstract store interface (assumed here, proved on the concrete representation in l0)
@contract('TokenStore.__len__')
def _(self):
    requires(AbsInv(self))
    modifies()
    ensures(result == self.g_vlen)

@contract('TokenStore.get_first')
def _(self):
    requires(AbsInv(self))
    modifies()
    ensures(implies(self.g_vlen > 0, result is sel(self.g_view, 0)) and implies(self.g_vlen == 0, result is None))

@contract('TokenStore.get_last')
def _(self):
    requires(AbsInv(self))
    modifies()
    ensures(implies(self.g_vlen > 0, result is sel(self.g_view, self.g_vlen - 1)) and implies(self.g_vlen == 0, result is None))

@contract('TokenStore.__iter__')
def _(self):
    requires(AbsInv(self))
    modifies()
    ensures(result != None and fresh(result) and len(result) == self.g_vlen and forall(lambda k: implies(0 <= k and k < self.g_vlen, result[k] == sel(self.g_view, k)), result[k]))

@contract('TokenStore.iter')
def _(self, start, end):
    requires(AbsInv(self) and In(self, start) and In(self, end) and start.g_pos <= end.g_pos)
    modifies()
    ensures(result != None and fresh(result) and len(result) == end.g_pos - start.g_pos + 1
            and forall(lambda k: implies(0 <= k and k < len(result), result[k] == sel(self.g_view, start.g_pos + k)), result[k]))

@contract('TokenStore.remove')
def _(self, start, end):
    requires(AbsInv(self) and In(self, start) and In(self, end) and start.g_pos <= end.g_pos)
    modifies('TokenStore.g_view@self', 'TokenStore.g_vlen@self', 'RawTokenModel.g_store', 'RawTokenModel.g_pos')
    ensures(self.g_vlen == old(self.g_vlen) - (old(end.g_pos) - old(start.g_pos) + 1))
    ensures(forall(lambda k: sel(self.g_view, k) == ite(k < old(start.g_pos), sel(old(self.g_view), k), sel(old(self.g_view), k + (old(end.g_pos) - old(start.g_pos) + 1)))))
    ensures(AbsInv(self))
    ensures(forall(lambda k: implies(old(start.g_pos) <= k and k <= old(end.g_pos), as_ref(sel(old(self.g_view), k), 'RawTokenModel').g_store is None), sel(old(self.g_view), k)))
    ensures(forall(lambda t: implies(old(as_ref(t, 'RawTokenModel').g_store) is not self, as_ref(t, 'RawTokenModel').g_store is old(as_ref(t, 'RawTokenModel').g_store) and as_ref(t, 'RawTokenModel').g_pos == old(as_ref(t, 'RawTokenModel').g_pos))))

# ---- virtual observers of a node (one contract on the base class; the template obligations of L4 tie them to the slots)
@contract('RawModel.token_store')
def _(self):
    modifies()
    ensures(result is self.g_ts)

@contract('RawModel.first_token')
def _(self):
    modifies()
    ensures(result is self.g_first and result != None)

@contract('RawModel.last_token')
def _(self):
    modifies()
    ensures(result is self.g_last and result != None)

# ---- detach: only a node that spans its whole store may be moved; anything else is refused with nothing changed
@contract('RawModel.detach')
def _(self):
    requires(self != None and self.g_ts != None and AbsInv(self.g_ts) and self.g_ts.g_vlen >= 1)
    requires(In(self.g_ts, self.g_first) and In(self.g_ts, self.g_last))
    modifies('TokenStore.g_view@self.g_ts', 'TokenStore.g_vlen@self.g_ts', 'RawTokenModel.g_store', 'RawTokenModel.g_pos')
    raises('ValueError', 'TokenStore.g_view', 'TokenStore.g_vlen', 'RawTokenModel.g_store', 'RawTokenModel.g_pos',
           when=not (self.g_first is sel(self.g_ts.g_view, 0) and self.g_last is sel(self.g_ts.g_view, self.g_ts.g_vlen - 1)))
    ensures(result != None and fresh(result) and len(result) == old(self.g_ts.g_vlen) and len(result) >= 1)
    ensures(forall(lambda k: implies(0 <= k and k < len(result), result[k] == sel(old(self.g_ts.g_view), k) and result[k].g_store is None), result[k]))
    ensures(self.g_ts.g_vlen == 0)
    ensures(forall(lambda t: implies(old(as_ref(t, 'RawTokenModel').g_store) is not old(self.g_ts), as_ref(t, 'RawTokenModel').g_store is old(as_ref(t, 'RawTokenModel').g_store) and as_ref(t, 'RawTokenModel').g_pos == old(as_ref(t, 'RawTokenModel').g_pos))))

@contract('RawModel.tokens')
def _(self):
    requires(self != None and self.g_ts != None and AbsInv(self.g_ts) and self.g_ts.g_vlen >= 1)
    requires(In(self.g_ts, self.g_first) and In(self.g_ts, self.g_last) and self.g_first.g_pos <= self.g_last.g_pos)
    modifies()
    ensures(result != None and len(result) == self.g_last.g_pos - self.g_first.g_pos + 1
            and forall(lambda k: implies(0 <= k and k < len(result), result[k] == sel(self.g_ts.g_view, self.g_first.g_pos + k)), result[k]))

# ---- token equality and hash (C20): pure functions of (RULE, current raw text); equal tokens hash equally
# rule_of(t): the class constant RULE of t's class (uninterpreted per object: type(self).RULE / self.RULE / other.RULE all read it)
@contract('RawTokenModel.__eq__')
def _(self, other):
    types(other='RawTokenModel')
    requires(self != None)
    modifies()
    ensures(result == (other != None and self.RULE == other.RULE and self._raw_text == other._raw_text))

@contract('RawTokenModel.__hash__')
def _(self):
    requires(self != None)
    modifies()
    ensures(result == str_hash(self.RULE, self._raw_text))

# ---- deep copy of a tree model (C11): a fresh store holding fresh copies of exactly the model's tokens, the clone built over the id map old -> new;
#      nothing that existed before is written (the original and its document are untouched)
@contract('TokenStore.from_tokens')
def _(cls, tokens):
    requires(tokens != None and forall(lambda k: implies(0 <= k and k < len(tokens), tokens[k] != None and tokens[k].g_store is None), tokens[k]))
    requires(forall(lambda j, k: implies(0 <= j and j < k and k < len(tokens), tokens[j] != tokens[k])))
    modifies('TokenStore.g_view@fresh', 'TokenStore.g_vlen@fresh', 'RawTokenModel.g_store', 'RawTokenModel.g_pos')
    ensures(result != None and fresh(result) and result.g_vlen == len(tokens) and AbsInv(result))
    ensures(forall(lambda k: implies(0 <= k and k < len(tokens), sel(result.g_view, k) == tokens[k]), sel(result.g_view, k)))
    ensures(forall(lambda t: implies(not exists(lambda k: 0 <= k and k < len(tokens) and tokens[k] == t), as_ref(t, 'RawTokenModel').g_store is old(as_ref(t, 'RawTokenModel').g_store) and as_ref(t, 'RawTokenModel').g_pos == old(as_ref(t, 'RawTokenModel').g_pos))))

@contract('MappingTokenTransformer.__init__')
def _(self, map):
    modifies('MappingTokenTransformer._map@self')
    ensures(self._map is map)

# clone is virtual: every generated class implements it from its slot template (unit l4.templates proves: store passed on, every slot cloned in slot order,
# leaf slots through the transformer); here only what __deepcopy__ hands to it is recorded
@contract('RawModel.clone')
def _(self, token_store, token_transformer):
    requires(token_store != None and token_transformer != None)
    modifies('RawModel.g_ts@fresh', 'RawModel.g_src@fresh', 'RawModel.g_tr@fresh')
    ensures(result != None and fresh(result) and result.g_ts is token_store and result.g_src is self and result.g_tr is token_transformer)

@contract('RawTreeModel.__deepcopy__')
def _(self, memo):
    requires(self != None and self.g_ts != None and self._token_store is self.g_ts and AbsInv(self.g_ts))
    requires(In(self.g_ts, self.g_first) and In(self.g_ts, self.g_last) and self.g_first.g_pos <= self.g_last.g_pos)
    modifies('RawTokenModel._raw_text@fresh', 'RawTokenModel.RULE@fresh', 'RawTokenModel.g_store@fresh', 'RawTokenModel.g_pos@fresh', 'list[RawTokenModel]@fresh', 'dict[RawTokenModel]@fresh',
             'TokenStore.g_view@fresh', 'TokenStore.g_vlen@fresh', 'MappingTokenTransformer._map@fresh', 'RawModel.g_ts@fresh', 'RawModel.g_src@fresh', 'RawModel.g_tr@fresh')
    invariant(0, tokens != None and fresh(tokens) and token_map != None and fresh(token_map) and len(tokens) == K and AbsInv(self.g_ts) and self.g_ts is old(self.g_ts) and self.g_first is old(self.g_first))
    invariant(0, forall(lambda j: implies(0 <= j and j < K, tokens[j] != None and fresh(tokens[j]) and tokens[j].g_store is None
                                 and tokens[j]._raw_text == as_ref(sel(self.g_ts.g_view, self.g_first.g_pos + j), 'RawTokenModel')._raw_text
                                 and tokens[j].RULE == as_ref(sel(self.g_ts.g_view, self.g_first.g_pos + j), 'RawTokenModel').RULE
                                 and sel(elems(token_map), sel(self.g_ts.g_view, self.g_first.g_pos + j)) == tokens[j]), tokens[j]))
    invariant(0, forall(lambda i, j: implies(0 <= i and i < j and j < K, tokens[i] != tokens[j])))
    ensures(result != None and fresh(result) and result.g_src is self and fresh(result.g_ts) and fresh(result.g_tr))
    ensures(AbsInv(result.g_ts) and result.g_ts.g_vlen == self.g_last.g_pos - self.g_first.g_pos + 1)
    # token k of the copy's store: fresh, same rule and text as token k of the original span; the transformer maps the original token to it
    ensures(forall(lambda k: implies(0 <= k and k < result.g_ts.g_vlen, fresh(as_ref(sel(result.g_ts.g_view, k), 'RawTokenModel'))), sel(result.g_ts.g_view, k)))
    ensures(forall(lambda k: implies(0 <= k and k < result.g_ts.g_vlen,
                as_ref(sel(result.g_ts.g_view, k), 'RawTokenModel')._raw_text == as_ref(sel(self.g_ts.g_view, self.g_first.g_pos + k), 'RawTokenModel')._raw_text
                and as_ref(sel(result.g_ts.g_view, k), 'RawTokenModel').RULE == as_ref(sel(self.g_ts.g_view, self.g_first.g_pos + k), 'RawTokenModel').RULE), sel(result.g_ts.g_view, k)))
    ensures(forall(lambda k: implies(0 <= k and k < result.g_ts.g_vlen,
                sel(elems(as_ref(result.g_tr, 'MappingTokenTransformer')._map), sel(self.g_ts.g_view, self.g_first.g_pos + k)) == sel(result.g_ts.g_view, k)), sel(result.g_ts.g_view, k)))

# ---- transformers, leaf clone/reattach, tree equality dispatch (C11, C20, C05)
# transform is virtual: TR(transformer, token) is its result (one contract on the abstract base, the two implementations are verified against their own)
@contract('TokenTransformer.transform')
def _(self, token):
    modifies()
    functional('TR')

@contract('IdentityTokenTransformer.transform')
def _(self, token):
    modifies()
    ensures(result is token)

@contract('MappingTokenTransformer.transform')
def _(self, token):
    requires(self != None and self._map != None and token != None and sel(elems(self._map), token) != 0)
    modifies()
    ensures(result == sel(elems(self._map), token))

# a leaf is not copied by clone/reattach: it is whatever the transformer makes of it (the fresh copy under a deep copy, itself under the identity)
@contract('RawTokenModel.clone')
def _(self, token_store, token_transformer):
    requires(self != None and token_transformer != None)
    modifies()
    ensures(result == TR(token_transformer, self))

@contract('RawTokenModel.reattach')
def _(self, token_store, token_transformer):
    requires(self != None and token_transformer != None)
    modifies()
    ensures(result == TR(token_transformer, self))

@contract('RawModel._reattach')
def _(self, token_store, token_transformer):
    modifies('RawModel.g_ts', 'RawTreeModel._token_store')

@contract('RawTreeModel.reattach')
def _(self, token_store, token_transformer):
    requires(self != None)
    modifies('RawModel.g_ts', 'RawTreeModel._token_store')
    ensures(result is self)

@contract('RawTreeModel.token_store')
def _(self):
    requires(self != None)
    modifies()
    ensures(result is self._token_store)

# tree equality: a tree, token for token equal (RULE and text, see RawTokenModel.__eq__) and structurally equal (_eq: virtual, proved per generated class in l4.templates)
@contract('RawTreeModel._eq')
def _(self, other):
    modifies()
    functional('TEQ')

@contract('RawTreeModel.__eq__')
def _(self, other):
    types(other='RawTreeModel')
    requires(self != None and self.g_ts != None and AbsInv(self.g_ts) and self.g_ts.g_vlen >= 1 and In(self.g_ts, self.g_first) and In(self.g_ts, self.g_last) and self.g_first.g_pos <= self.g_last.g_pos)
    requires(implies(other != None, other.g_ts != None and AbsInv(other.g_ts) and other.g_ts.g_vlen >= 1 and In(other.g_ts, other.g_first) and In(other.g_ts, other.g_last) and other.g_first.g_pos <= other.g_last.g_pos))
    modifies('list[RawTokenModel]@fresh')
    after_call('RawModel.tokens', 'g_t1')
    after_call('RawModel.tokens', 'g_t2')
    ensures(implies(other is None, result == False))
    ensures(implies(other != None, result == (as_list(g_t1, 'RawTokenModel') == as_list(g_t2, 'RawTokenModel') and TEQ(self, other))))
