"""Contracts for editor.py (C16) over an abstract file system (A-fs): g_fs maps a path to its content.
printed(file, version) is the text print_model writes for the model in the state `version`; the block of the caller runs at the `yield`
and may edit the model arbitrarily (its version is havocked there) or raise (then nothing after the yield runs)."""

UFUNS = {'printed': ['int', 'int', 'int']}

@contract('Editor.edit_file')
def _(self, path):
    types(path='str')
    requires(self != None)
    modifies('Editor.g_fs@self', 'File.g_version')
    # up to the yield the file system is untouched: a block that raises leaves every file as it was
    at_yield('assert', self.g_fs == old(self.g_fs))
    at_yield('havoc', 'File.g_version')
    # afterwards the file holds exactly the printed model and no other path changed
    ensures(sel(self.g_fs, path) == printed(file, file.g_version))
    ensures(forall(lambda q: implies(q != path, sel(self.g_fs, q) == sel(old(self.g_fs), q))))
    # an unchanged model is not rewritten: the store is literally the old one
    ensures(implies(printed(file, file.g_version) == sel(old(self.g_fs), path), self.g_fs == old(self.g_fs)))
