"""Cache aspect of TokenStore.update (C08): after the store's half of a text update the caches of the token's block (size.line, size.column, last_newline_index)
are again the folds over the token sizes - with the size of the updated token replaced by the new size (I6 is re-established once Token._update_raw_text stores it).
The folds F* over (elements, Token.size, Position.line/column) are those of l0_token_store.py; G*/CS are the same folds over plain per-index arrays, where the
update lemmas are proved by induction."""

UFUNS = {'FLn': ['IARR', 'IARR', 'IARR', 'int', 'int'], 'FCol': ['IARR', 'IARR', 'IARR', 'IARR', 'int', 'int'], 'FLni': ['IARR', 'IARR', 'IARR', 'int', 'int'],
         'GLn': ['IARR', 'int', 'int'], 'GLni': ['IARR', 'int', 'int'], 'GCol': ['IARR', 'IARR', 'int', 'int'], 'CS': ['IARR', 'int', 'int', 'int']}
AXIOMS = [
    forall(lambda A_e, A_sz, A_ln: FLn(A_e, A_sz, A_ln, 0) == 0, FLn(A_e, A_sz, A_ln, 0)),
    forall(lambda A_e, A_sz, A_ln, n: implies(n >= 0, FLn(A_e, A_sz, A_ln, n + 1) == FLn(A_e, A_sz, A_ln, n) + sel(A_ln, sel(A_sz, sel(A_e, n)))), FLn(A_e, A_sz, A_ln, n + 1)),
    forall(lambda A_e, A_sz, A_ln, A_cl: FCol(A_e, A_sz, A_ln, A_cl, 0) == 0, FCol(A_e, A_sz, A_ln, A_cl, 0)),
    forall(lambda A_e, A_sz, A_ln, A_cl, n: implies(n >= 0, FCol(A_e, A_sz, A_ln, A_cl, n + 1) ==
            ite(sel(A_ln, sel(A_sz, sel(A_e, n))) != 0, sel(A_cl, sel(A_sz, sel(A_e, n))), FCol(A_e, A_sz, A_ln, A_cl, n) + sel(A_cl, sel(A_sz, sel(A_e, n))))), FCol(A_e, A_sz, A_ln, A_cl, n + 1)),
    forall(lambda A_e, A_sz, A_ln: FLni(A_e, A_sz, A_ln, 0) == -1, FLni(A_e, A_sz, A_ln, 0)),
    forall(lambda A_e, A_sz, A_ln, n: implies(n >= 0, FLni(A_e, A_sz, A_ln, n + 1) == ite(sel(A_ln, sel(A_sz, sel(A_e, n))) != 0, n, FLni(A_e, A_sz, A_ln, n))), FLni(A_e, A_sz, A_ln, n + 1)),
    # the same folds over per-index arrays  A_L[j] = line part, A_C[j] = column part of the size of the j-th token
    forall(lambda A_L: GLn(A_L, 0) == 0, GLn(A_L, 0)),
    forall(lambda A_L, n: implies(n >= 0, GLn(A_L, n + 1) == GLn(A_L, n) + sel(A_L, n)), GLn(A_L, n + 1)),
    forall(lambda A_L: GLni(A_L, 0) == -1, GLni(A_L, 0)),
    forall(lambda A_L, n: implies(n >= 0, GLni(A_L, n + 1) == ite(sel(A_L, n) != 0, n, GLni(A_L, n))), GLni(A_L, n + 1)),
    forall(lambda A_L, A_C: GCol(A_L, A_C, 0) == 0, GCol(A_L, A_C, 0)),
    forall(lambda A_L, A_C, n: implies(n >= 0, GCol(A_L, A_C, n + 1) == ite(sel(A_L, n) != 0, sel(A_C, n), GCol(A_L, A_C, n) + sel(A_C, n))), GCol(A_L, A_C, n + 1)),
    # CS(C, a, n) = C[a] + ... + C[n-1]
    forall(lambda A_C, a, n: implies(n <= a, CS(A_C, a, n) == 0), CS(A_C, a, n)),
    forall(lambda A_C, a, n: implies(n >= a, CS(A_C, a, n + 1) == CS(A_C, a, n) + sel(A_C, n)), CS(A_C, a, n + 1)),
]

# ---------------------------------------------------------------- lemmas (each proved by induction, then available as an axiom to what follows)
@lemma
def bridge(A_e, A_sz, A_ln, A_cl, A_L, A_C, n):
    requires(0 <= n and forall(lambda k: implies(0 <= k and k < n, sel(A_L, k) == sel(A_ln, sel(A_sz, sel(A_e, k))) and sel(A_C, k) == sel(A_cl, sel(A_sz, sel(A_e, k))))))
    ensures(FLn(A_e, A_sz, A_ln, n) == GLn(A_L, n) and FCol(A_e, A_sz, A_ln, A_cl, n) == GCol(A_L, A_C, n) and FLni(A_e, A_sz, A_ln, n) == GLni(A_L, n))
    induction('n', 0)
    trigger((FLn(A_e, A_sz, A_ln, n), FCol(A_e, A_sz, A_ln, A_cl, n), GLn(A_L, n), GCol(A_L, A_C, n)))

@lemma
def lni_bound(A_L, n):
    requires(0 <= n)
    ensures(GLni(A_L, n) >= -1 and GLni(A_L, n) < n and implies(GLni(A_L, n) >= 0, sel(A_L, GLni(A_L, n)) != 0))
    induction('n', 0)
    trigger(GLni(A_L, n))

@lemma
def g_prefix(A_L, A_L2, n):
    requires(0 <= n and forall(lambda k: implies(0 <= k and k < n, sel(A_L, k) == sel(A_L2, k))))
    ensures(GLn(A_L, n) == GLn(A_L2, n) and GLni(A_L, n) == GLni(A_L2, n))
    induction('n', 0)

@lemma
def cs_lower(A_C, a, n):
    requires(0 <= a and a < n)
    ensures(CS(A_C, a, n) == sel(A_C, a) + CS(A_C, a + 1, n))
    induction('n', a + 1)

@lemma
def cs_split(A_C, a, m, n):
    requires(0 <= a and a <= m and m <= n)
    ensures(CS(A_C, a, n) == CS(A_C, a, m) + CS(A_C, m, n))
    induction('n', m)

@lemma
def cs_upd(A_C, A_C2, p, a, n):
    requires(0 <= a and a <= n and forall(lambda k: implies(a <= k and k < n and k != p, sel(A_C2, k) == sel(A_C, k))))
    ensures(CS(A_C2, a, n) == CS(A_C, a, n) + ite(a <= p and p < n, sel(A_C2, p) - sel(A_C, p), 0))
    induction('n', a)

@lemma
def col_cs(A_L, A_C, n):
    requires(0 <= n)
    ensures(GCol(A_L, A_C, n) == CS(A_C, ite(GLni(A_L, n) < 0, 0, GLni(A_L, n)), n))
    induction('n', 0)

@lemma
def ln_upd(A_L, A_L2, p, n):
    requires(0 <= p and p < n and forall(lambda k: implies(0 <= k and k < n and k != p, sel(A_L2, k) == sel(A_L, k))))
    ensures(GLn(A_L2, n) == GLn(A_L, n) + sel(A_L2, p) - sel(A_L, p))
    induction('n', p + 1)

@lemma
def lni_upd(A_L, A_L2, p, n):
    requires(0 <= p and p < n and forall(lambda k: implies(0 <= k and k < n and k != p, sel(A_L2, k) == sel(A_L, k))))
    ensures(GLni(A_L2, n) == ite(GLni(A_L, n) > p, GLni(A_L, n), ite(sel(A_L2, p) != 0, p, GLni(A_L, p))))
    induction('n', p + 1)

@lemma
def lni_below(A_L, p, n):
    requires(0 <= p and p <= n and GLni(A_L, n) < p)
    ensures(GLni(A_L, n) == GLni(A_L, p))
    induction('n', p)

@lemma
def lni_ge(A_L, p, n):
    requires(0 <= p and p < n and sel(A_L, p) != 0)
    ensures(GLni(A_L, n) >= p)
    induction('n', p + 1)

@lemma
def lni_last(A_L, i, m):
    requires(-1 <= i and i < m and implies(i >= 0, sel(A_L, i) != 0) and forall(lambda k: implies(i < k and k < m, sel(A_L, k) == 0)))
    ensures(GLni(A_L, m) == i)
    induction('m', i + 1)

# ---------------------------------------------------------------- the function
@contract('_check_store_handle')
def _(token):
    requires(token != None)
    raises('ValueError', when=token.store_handle is None)
    ensures(result is token.store_handle and result != None)
    modifies()

@macro
def BlockShape(t, b):
    return (b != None and b.size != None and b.tokens != None and 0 <= t.store_handle.index and t.store_handle.index < len(b.tokens) and b.tokens[t.store_handle.index] is t
        and forall(lambda j: implies(0 <= j and j < len(b.tokens), b.tokens[j] != None and b.tokens[j].size != None and b.tokens[j].size is not b.size
                                     and implies(b.tokens[j] is t, j == t.store_handle.index)), b.tokens[j]))

@contract('TokenStore.update')
def _(self, token, raw_text, size):
    requires(token != None and size != None and token.size != None and token.store_handle != None and BlockShape(token, token.store_handle.block))
    requires(size is not token.store_handle.block.size)
    # I6 at entry
    requires(token.store_handle.block.size.line == FLn(elems(token.store_handle.block.tokens), fld('Token.size'), fld('Position.line'), len(token.store_handle.block.tokens)))
    requires(token.store_handle.block.size.column == FCol(elems(token.store_handle.block.tokens), fld('Token.size'), fld('Position.line'), fld('Position.column'), len(token.store_handle.block.tokens)))
    requires(token.store_handle.block.last_newline_index == FLni(elems(token.store_handle.block.tokens), fld('Token.size'), fld('Position.line'), len(token.store_handle.block.tokens)))
    modifies('Position.line@token.store_handle.block.size', 'Position.column@token.store_handle.block.size', '_StoreBlock.last_newline_index@token.store_handle.block')
    # per-index views of the sizes: before (A_L, A_C) and with the new size in place (A_L2, A_C2)
    after_stmt('handle = _check_store_handle(token)', 'letarr', 'A_L', lambda j: sel(fld('Position.line'), sel(fld('Token.size'), sel(elems(handle.block.tokens), j))))
    after_stmt('handle = _check_store_handle(token)', 'letarr', 'A_C', lambda j: sel(fld('Position.column'), sel(fld('Token.size'), sel(elems(handle.block.tokens), j))))
    after_stmt('handle = _check_store_handle(token)', 'letarr', 'A_L2', lambda j: ite(j == handle.index, size.line, sel(A_L, j)))
    after_stmt('handle = _check_store_handle(token)', 'letarr', 'A_C2', lambda j: ite(j == handle.index, size.column, sel(A_C, j)))
    after_stmt('handle = _check_store_handle(token)', 'use', 'bridge', elems(handle.block.tokens), fld('Token.size'), fld('Position.line'), fld('Position.column'), A_L, A_C, len(handle.block.tokens))
    after_stmt('handle = _check_store_handle(token)', 'assert', GLn(A_L, len(handle.block.tokens)) == handle.block.size.line and GCol(A_L, A_C, len(handle.block.tokens)) == handle.block.size.column
               and GLni(A_L, len(handle.block.tokens)) == handle.block.last_newline_index)
    invariant(0, col == size.column + CS(A_C, handle.index + 1, handle.index + 1 + K) and handle is pre(handle) and handle.block is pre(handle.block) and handle.block.tokens is pre(handle.block.tokens))
    invariant(1, col == handle.block.size.column + size.column - token.size.column + CS(A_C, handle.index - K, handle.index)
                 and forall(lambda k: implies(handle.index - K <= k and k < handle.index, sel(A_L, k) == 0)))
    # ---- proof steps at every exit (n = block length, p = the token's index, b = its block)
    exit_assert(use('ln_upd', A_L, A_L2, token.store_handle.index, len(token.store_handle.block.tokens)))
    exit_assert(GLn(A_L2, len(token.store_handle.block.tokens)) == token.store_handle.block.size.line)
    exit_assert(use('lni_bound', A_L, len(token.store_handle.block.tokens)), use('lni_bound', A_L, token.store_handle.index), use('lni_bound', A_L2, len(token.store_handle.block.tokens)))
    exit_assert(use('lni_upd', A_L, A_L2, token.store_handle.index, len(token.store_handle.block.tokens)))
    exit_assert(use_if(sel(A_L, token.store_handle.index) != 0, 'lni_ge', A_L, token.store_handle.index, len(token.store_handle.block.tokens)))
    exit_assert(use_if(GLni(A_L, len(token.store_handle.block.tokens)) < token.store_handle.index, 'lni_below', A_L, token.store_handle.index, len(token.store_handle.block.tokens)))
    # the 'remove new line' branch searched backwards: its result is the last newline before p
    exit_assert(use_if(old(token.store_handle.index >= token.store_handle.block.last_newline_index and token.size.line != 0 and size.line == 0),
                       'lni_last', A_L, token.store_handle.block.last_newline_index, token.store_handle.index))
    exit_assert(GLni(A_L2, len(token.store_handle.block.tokens)) == token.store_handle.block.last_newline_index)
    exit_assert(use('col_cs', A_L, A_C, len(token.store_handle.block.tokens)), use('col_cs', A_L2, A_C2, len(token.store_handle.block.tokens)))
    exit_assert(use('cs_upd', A_C, A_C2, token.store_handle.index, ite(token.store_handle.block.last_newline_index < 0, 0, token.store_handle.block.last_newline_index), len(token.store_handle.block.tokens)))
    exit_assert(use('cs_lower', A_C, token.store_handle.index, len(token.store_handle.block.tokens)))
    exit_assert(use_if(old(token.store_handle.index >= token.store_handle.block.last_newline_index and token.size.line != 0 and size.line == 0) and token.store_handle.block.last_newline_index >= 0,
                       'cs_lower', A_C, token.store_handle.block.last_newline_index, token.store_handle.index))
    exit_assert(use_if(old(token.store_handle.index >= token.store_handle.block.last_newline_index and token.size.line != 0 and size.line == 0),
                       'cs_split', A_C, ite(token.store_handle.block.last_newline_index < 0, 0, token.store_handle.block.last_newline_index), token.store_handle.index, len(token.store_handle.block.tokens)))
    exit_assert(GCol(A_L2, A_C2, len(token.store_handle.block.tokens)) == token.store_handle.block.size.column)
    exit_assert(use('bridge', elems(token.store_handle.block.tokens), upd(fld('Token.size'), token, size), fld('Position.line'), fld('Position.column'), A_L2, A_C2, len(token.store_handle.block.tokens)))
    ensures(token.store_handle.block.size.line == FLn(elems(token.store_handle.block.tokens), upd(fld('Token.size'), token, size), fld('Position.line'), len(token.store_handle.block.tokens)))
    ensures(token.store_handle.block.size.column == FCol(elems(token.store_handle.block.tokens), upd(fld('Token.size'), token, size), fld('Position.line'), fld('Position.column'), len(token.store_handle.block.tokens)))
    ensures(token.store_handle.block.last_newline_index == FLni(elems(token.store_handle.block.tokens), upd(fld('Token.size'), token, size), fld('Position.line'), len(token.store_handle.block.tokens)))

# ---------------------------------------------------------------- Token._update_raw_text: I6 of the token's block survives a text update
@contract('_token_size')
def _(raw_text):
    modifies('Position.line@fresh', 'Position.column@fresh')
    ensures(result != None and fresh(result) and result.line == count_nl(raw_text) and result.column == strlen(raw_text) - rfind_nl(raw_text) - 1)

@macro
def I6(b):
    return (b.size.line == FLn(elems(b.tokens), fld('Token.size'), fld('Position.line'), len(b.tokens))
        and b.size.column == FCol(elems(b.tokens), fld('Token.size'), fld('Position.line'), fld('Position.column'), len(b.tokens))
        and b.last_newline_index == FLni(elems(b.tokens), fld('Token.size'), fld('Position.line'), len(b.tokens)))

@contract('Token._update_raw_text')
def _(self, value):
    requires(self != None and self.size != None)
    requires(implies(self.store_handle != None, self.store_handle.block != None and self.store_handle.block.store != None and BlockShape(self, self.store_handle.block) and I6(self.store_handle.block)
                     and allocated(self.store_handle.block.size)
                     and forall(lambda j: implies(0 <= j and j < len(self.store_handle.block.tokens), allocated(self.store_handle.block.tokens[j].size)), self.store_handle.block.tokens[j])))
    modifies('Token._raw_text@self', 'Token.size@self', 'Position.line@fresh', 'Position.column@fresh',
             'Position.line@self.store_handle.block.size', 'Position.column@self.store_handle.block.size', '_StoreBlock.last_newline_index@self.store_handle.block')
    after_stmt('size = _token_size(value)', 'letarr', 'A_L', lambda j: sel(fld('Position.line'), sel(fld('Token.size'), sel(elems(self.store_handle.block.tokens), j))))
    after_stmt('size = _token_size(value)', 'letarr', 'A_C', lambda j: sel(fld('Position.column'), sel(fld('Token.size'), sel(elems(self.store_handle.block.tokens), j))))
    after_stmt('size = _token_size(value)', 'use_if', self.store_handle != None, 'bridge', elems(self.store_handle.block.tokens), fld('Token.size'), old(fld('Position.line')), old(fld('Position.column')), A_L, A_C, len(self.store_handle.block.tokens))
    after_stmt('size = _token_size(value)', 'use_if', self.store_handle != None, 'bridge', elems(self.store_handle.block.tokens), fld('Token.size'), fld('Position.line'), fld('Position.column'), A_L, A_C, len(self.store_handle.block.tokens))
    ensures(self._raw_text == value and self.size != None and fresh(self.size) and self.size.line == count_nl(value) and self.size.column == strlen(value) - rfind_nl(value) - 1)
    ensures(implies(self.store_handle != None, I6(self.store_handle.block)))

# ---------------------------------------------------------------- get_position: the two-level fold (whole blocks before the token's block, then the tokens before it in its block)
@contract('Position.__iadd__')
def _(self, other):
    types(other='Position')
    requires(self != None and other != None)
    modifies('Position.line@self', 'Position.column@self')
    ensures(result is self and self.line == old(self.line) + old(other.line) and self.column == ite(old(other.line) != 0, old(other.column), old(self.column) + old(other.column)))

@macro
def PosFrame(pos):
    return (pos != None and fresh(pos)
        and forall(lambda o: implies(o != pos and 0 < o and o < old_alloc(), sel(fld('Position.line'), o) == sel(old(fld('Position.line')), o) and sel(fld('Position.column'), o) == sel(old(fld('Position.column')), o))))

@contract('TokenStore.get_position')
def _(self, token):
    requires(self != None and token != None and self._blocks != None)
    requires(implies(token.store_handle != None, token.store_handle.block != None and token.store_handle.block.tokens != None
                     and 0 <= token.store_handle.block.index and token.store_handle.block.index <= len(self._blocks)
                     and 0 <= token.store_handle.index and token.store_handle.index <= len(token.store_handle.block.tokens)))
    requires(forall(lambda i: implies(0 <= i and i < len(self._blocks), self._blocks[i] != None and self._blocks[i].size != None and allocated(self._blocks[i].size)), self._blocks[i]))
    requires(implies(token.store_handle != None, forall(lambda j: implies(0 <= j and j < len(token.store_handle.block.tokens),
                     token.store_handle.block.tokens[j] != None and token.store_handle.block.tokens[j].size != None and allocated(token.store_handle.block.tokens[j].size)), token.store_handle.block.tokens[j])))
    modifies('Position.line@fresh', 'Position.column@fresh')
    raises('ValueError', when=token.store_handle is None)
    invariant(0, PosFrame(pos) and handle is pre(handle)
                 and pos.line == FLn(elems(self._blocks), fld('_StoreBlock.size'), old(fld('Position.line')), K)
                 and pos.column == FCol(elems(self._blocks), fld('_StoreBlock.size'), old(fld('Position.line')), old(fld('Position.column')), K))
    invariant(1, PosFrame(pos) and handle is pre(handle)
                 and pos.line == FLn(elems(self._blocks), fld('_StoreBlock.size'), old(fld('Position.line')), handle.block.index) + FLn(elems(handle.block.tokens), fld('Token.size'), old(fld('Position.line')), K)
                 and pos.column == ite(FLni(elems(handle.block.tokens), fld('Token.size'), old(fld('Position.line')), K) >= 0,
                                       FCol(elems(handle.block.tokens), fld('Token.size'), old(fld('Position.line')), old(fld('Position.column')), K),
                                       FCol(elems(self._blocks), fld('_StoreBlock.size'), old(fld('Position.line')), old(fld('Position.column')), handle.block.index)
                                       + FCol(elems(handle.block.tokens), fld('Token.size'), old(fld('Position.line')), old(fld('Position.column')), K)))
    ensures(result != None and fresh(result))
    ensures(result.line == old(FLn(elems(self._blocks), fld('_StoreBlock.size'), fld('Position.line'), token.store_handle.block.index)
                               + FLn(elems(token.store_handle.block.tokens), fld('Token.size'), fld('Position.line'), token.store_handle.index)))
    ensures(result.column == old(ite(FLni(elems(token.store_handle.block.tokens), fld('Token.size'), fld('Position.line'), token.store_handle.index) >= 0,
                                     FCol(elems(token.store_handle.block.tokens), fld('Token.size'), fld('Position.line'), fld('Position.column'), token.store_handle.index),
                                     FCol(elems(self._blocks), fld('_StoreBlock.size'), fld('Position.line'), fld('Position.column'), token.store_handle.block.index)
                                     + FCol(elems(token.store_handle.block.tokens), fld('Token.size'), fld('Position.line'), fld('Position.column'), token.store_handle.index))))
