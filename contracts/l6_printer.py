"""Contract for printer.print_model (C01, C06): what is written is exactly the raw text of every token of the model's span, in store order, nothing else.
The sink is abstract: a write appends its argument to a ghost sequence (A-io: io.StringIO.write appends, getvalue() is the concatenation)."""

@contract('RawTokenModel.raw_text')
def _(self):
    requires(self != None)
    modifies()
    ensures(result == self._raw_text)

# the model's tokens: view[first .. last] of its store (proved for the real RawModel.tokens in unit l2.base)
@contract('RawModel.tokens')
def _(self):
    modifies('list[RawTokenModel]@fresh')
    ensures(result != None and forall(lambda k: implies(0 <= k and k < len(result), result[k] != None), result[k]))

@contract('OutFile.write')
def _(self, s):
    requires(self != None and self.g_n >= 0)
    modifies('OutFile.g_n@self', 'OutFile.g_chunks@self')
    ensures(self.g_n == old(self.g_n) + 1 and sel(self.g_chunks, old(self.g_n)) == s
            and forall(lambda k: implies(k != old(self.g_n), sel(self.g_chunks, k) == sel(old(self.g_chunks), k))))

@contract('print_model')
def _(model, file):
    requires(model != None and file != None and file.g_n >= 0)
    modifies('OutFile.g_n@file', 'OutFile.g_chunks@file', 'list[RawTokenModel]@fresh')
    after_call('RawModel.tokens', 'g_T')
    invariant(0, file.g_n == old(file.g_n) + K
                 and forall(lambda k: implies(0 <= k and k < K, sel(file.g_chunks, old(file.g_n) + k) == as_list(g_T, 'RawTokenModel')[k]._raw_text), as_list(g_T, 'RawTokenModel')[k])
                 and forall(lambda k: implies(k < old(file.g_n), sel(file.g_chunks, k) == sel(old(file.g_chunks), k)))
                 and forall(lambda o: implies(o != file, sel(fld('OutFile.g_n'), o) == sel(old(fld('OutFile.g_n')), o) and sel(fld('OutFile.g_chunks'), o) == sel(old(fld('OutFile.g_chunks')), o))))
    ensures(result is file and file.g_n == old(file.g_n) + len(as_list(g_T, 'RawTokenModel')))
    ensures(forall(lambda k: implies(0 <= k and k < len(as_list(g_T, 'RawTokenModel')), sel(file.g_chunks, old(file.g_n) + k) == as_list(g_T, 'RawTokenModel')[k]._raw_text), as_list(g_T, 'RawTokenModel')[k]))
    ensures(forall(lambda k: implies(k < old(file.g_n), sel(file.g_chunks, k) == sel(old(file.g_chunks), k))))
