"""Contracts for autobean_refactor/token_store.py (layer L0).  Parsed, never imported."""
SYMBOLIC = {'_LOAD_FACTOR': 2}

# recursive spec functions: fold of token sizes over the first n tokens of a list (I6)
UFUNS = {'FLn': ['IARR', 'IARR', 'IARR', 'int', 'int'], 'FCol': ['IARR', 'IARR', 'IARR', 'IARR', 'int', 'int'], 'FLni': ['IARR', 'IARR', 'IARR', 'int', 'int']}
AXIOMS = [
    forall(lambda A_e, A_sz, A_ln: FLn(A_e, A_sz, A_ln, 0) == 0, FLn(A_e, A_sz, A_ln, 0)),
    forall(lambda A_e, A_sz, A_ln, n: implies(n >= 0, FLn(A_e, A_sz, A_ln, n + 1) == FLn(A_e, A_sz, A_ln, n) + sel(A_ln, sel(A_sz, sel(A_e, n)))), FLn(A_e, A_sz, A_ln, n + 1)),
    forall(lambda A_e, A_sz, A_ln, A_cl: FCol(A_e, A_sz, A_ln, A_cl, 0) == 0, FCol(A_e, A_sz, A_ln, A_cl, 0)),
    forall(lambda A_e, A_sz, A_ln, A_cl, n: implies(n >= 0, FCol(A_e, A_sz, A_ln, A_cl, n + 1) ==
            ite(sel(A_ln, sel(A_sz, sel(A_e, n))) != 0, sel(A_cl, sel(A_sz, sel(A_e, n))), FCol(A_e, A_sz, A_ln, A_cl, n) + sel(A_cl, sel(A_sz, sel(A_e, n))))), FCol(A_e, A_sz, A_ln, A_cl, n + 1)),
    forall(lambda A_e, A_sz, A_ln: FLni(A_e, A_sz, A_ln, 0) == -1, FLni(A_e, A_sz, A_ln, 0)),
    forall(lambda A_e, A_sz, A_ln, n: implies(n >= 0, FLni(A_e, A_sz, A_ln, n + 1) == ite(sel(A_ln, sel(A_sz, sel(A_e, n))) != 0, n, FLni(A_e, A_sz, A_ln, n))), FLni(A_e, A_sz, A_ln, n + 1)),
]



@macro
def blk(s, i):
    return s._blocks[i]

@macro
def InvView(s):
    return (sel(s.g_off, 0) == 0
        and forall(lambda i: implies(0 <= i and i < len(s._blocks), sel(s.g_off, i + 1) == sel(s.g_off, i) + len(s._blocks[i].tokens)), s._blocks[i], sel(s.g_off, i + 1))
        and forall(lambda i, k: implies(0 <= i and i <= k and k <= len(s._blocks), sel(s.g_off, i) <= sel(s.g_off, k)), (sel(s.g_off, i), sel(s.g_off, k)))
        and s.g_vlen == sel(s.g_off, len(s._blocks)) and s._len == s.g_vlen
        and forall(lambda i, j: implies(0 <= i and i < len(s._blocks) and 0 <= j and j < len(s._blocks[i].tokens),
                sel(s.g_view, sel(s.g_off, i) + j) == s._blocks[i].tokens[j]), s._blocks[i].tokens[j]))

@macro
def InStore(s, t):
    return t != None and t.store_handle != None and t.store_handle.block != None and t.store_handle.block.store is s and 0 <= t.store_handle.block.index and t.store_handle.block.index < len(s._blocks) and s._blocks[t.store_handle.block.index] is t.store_handle.block and 0 <= t.store_handle.index and t.store_handle.index < len(t.store_handle.block.tokens) and t.store_handle.block.tokens[t.store_handle.index] is t

@macro
def pos(s, t):
    return sel(s.g_off, t.store_handle.block.index) + t.store_handle.index

@contract('_check_store_handle')
def _(token):
    requires(token != None)
    raises('ValueError', when=token.store_handle is None)
    ensures(result is token.store_handle and result != None)
    modifies()

@contract('TokenStore.get_index')
def _(self, token):
    requires(Inv2(self) and InStore(self, token))
    ensures(result == pos(self, token))
    ensures(sel(self.g_view, result) is token)
    invariant(0, index == handle.index + sel(self.g_off, K))

@contract('TokenStore.get_next')
def _(self, token):
    requires(Inv2(self) and InStore(self, token))
    ensures(implies(pos(self, token) + 1 < self.g_vlen, result is sel(self.g_view, pos(self, token) + 1)))
    ensures(implies(pos(self, token) + 1 >= self.g_vlen, result is None))

@contract('TokenStore.get_prev')
def _(self, token):
    requires(Inv2(self) and InStore(self, token))
    ensures(implies(pos(self, token) > 0, result is sel(self.g_view, pos(self, token) - 1)))
    ensures(implies(pos(self, token) == 0, result is None))

@contract('TokenStore.get_first')
def _(self):
    requires(Inv2(self))
    ensures(implies(self.g_vlen > 0, result is sel(self.g_view, 0)))
    ensures(implies(self.g_vlen == 0, result is None))

@contract('TokenStore.get_last')
def _(self):
    requires(Inv2(self))
    ensures(implies(self.g_vlen > 0, result is sel(self.g_view, self.g_vlen - 1)))
    ensures(implies(self.g_vlen == 0, result is None))

@contract('TokenStore.__len__')
def _(self):
    requires(Inv2(self))
    ensures(result == self.g_vlen)

@contract('TokenStore.__iter__')
def _(self):
    requires(Inv2(self))
    ensures(len(result) == self.g_vlen)
    ensures(forall(lambda k: implies(0 <= k and k < self.g_vlen, sel(elems(result), k) == sel(self.g_view, k))))
    invariant(0, len(S_out) == sel(self.g_off, K) and forall(lambda k: implies(0 <= k and k < sel(self.g_off, K), sel(elems(S_out), k) == sel(self.g_view, k))) and self._blocks is pre(self._blocks))

@contract('TokenStore.iter')
def _(self, start, end):
    requires(Inv2(self) and InStore(self, start) and InStore(self, end) and pos(self, start) <= pos(self, end))
    ensures(len(result) == pos(self, end) - pos(self, start) + 1)
    ensures(forall(lambda k: implies(0 <= k and k < len(result), sel(elems(result), k) == sel(self.g_view, pos(self, start) + k))))
    invariant(0, len(S_out) == sel(self.g_off, start_handle.block.index + 1 + K) - pos(self, start)
                 and forall(lambda k: implies(0 <= k and k < len(S_out), sel(elems(S_out), k) == sel(self.g_view, pos(self, start) + k))))

# ---------------------------------------------------------------- structural invariant (I1-I5), conjunct by conjunct
@macro
def Shape(s):
    return (s._blocks != None and len(s._blocks) >= 1
        and forall(lambda i: implies(0 <= i and i < len(s._blocks), s._blocks[i] != None and s._blocks[i].store is s and s._blocks[i].tokens != None), s._blocks[i])
        and forall(lambda i, j: implies(0 <= i and i < j and j < len(s._blocks), s._blocks[i] != s._blocks[j] and s._blocks[i].tokens != s._blocks[j].tokens), (s._blocks[i], s._blocks[j])))

@macro
def Idx(s, upto):
    return forall(lambda i: implies(0 <= i and i < len(s._blocks) and i <= upto, s._blocks[i].index == i), s._blocks[i])

@macro
def BlockOK(s, i):
    return forall(lambda j: implies(0 <= j and j < len(s._blocks[i].tokens),
                s._blocks[i].tokens[j] != None and s._blocks[i].tokens[j].store_handle != None
                and s._blocks[i].tokens[j].store_handle.block is s._blocks[i] and s._blocks[i].tokens[j].store_handle.index == j), s._blocks[i].tokens[j])

@macro
def Hand(s):
    return forall(lambda i, j: implies(0 <= i and i < len(s._blocks) and 0 <= j and j < len(s._blocks[i].tokens),
                s._blocks[i].tokens[j] != None and s._blocks[i].tokens[j].store_handle != None
                and s._blocks[i].tokens[j].store_handle.block is s._blocks[i] and s._blocks[i].tokens[j].store_handle.index == j), s._blocks[i].tokens[j])

@macro
def NonEmpty(s):
    return forall(lambda i: implies(0 <= i and i < len(s._blocks) and len(s._blocks) > 1, len(s._blocks[i].tokens) >= 1), s._blocks[i])

@macro
def SizesOK(s):
    return (forall(lambda i: implies(0 <= i and i < len(s._blocks), s._blocks[i].size != None), s._blocks[i])
        and forall(lambda i, j: implies(0 <= i and i < len(s._blocks) and 0 <= j and j < len(s._blocks[i].tokens), s._blocks[i].tokens[j].size != None and allocated(s._blocks[i].tokens[j].size)), s._blocks[i].tokens[j]))

@macro
def Inv2(s):
    return Shape(s) and Idx(s, len(s._blocks)) and Hand(s) and NonEmpty(s) and InvView(s)

@contract('TokenStore._update_block_indexes')
def _(self, i):
    requires(0 <= i and Shape(self) and Idx(self, i - 1))
    modifies('_StoreBlock.index')
    ensures(Idx(self, len(self._blocks)))
    invariant(0, Idx(self, i - 1) and i >= old(i))

@lemma
def fold_frame(A_e, A_sz, A_ln1, A_cl1, A_ln2, A_cl2, n):
    # the folds depend only on the sizes of the first n tokens
    requires(0 <= n and forall(lambda k: implies(0 <= k and k < n, sel(A_ln1, sel(A_sz, sel(A_e, k))) == sel(A_ln2, sel(A_sz, sel(A_e, k))) and sel(A_cl1, sel(A_sz, sel(A_e, k))) == sel(A_cl2, sel(A_sz, sel(A_e, k))))))
    ensures(FLn(A_e, A_sz, A_ln1, n) == FLn(A_e, A_sz, A_ln2, n) and FCol(A_e, A_sz, A_ln1, A_cl1, n) == FCol(A_e, A_sz, A_ln2, A_cl2, n) and FLni(A_e, A_sz, A_ln1, n) == FLni(A_e, A_sz, A_ln2, n))
    induction('n', 0)

@contract('_StoreBlock.rebuild')
def _(self):
    requires(self != None and self.tokens != None)
    requires(forall(lambda j: implies(0 <= j and j < len(self.tokens), self.tokens[j] != None and self.tokens[j].size != None and allocated(self.tokens[j].size)), self.tokens[j]))
    requires(forall(lambda j, k: implies(0 <= j and j < k and k < len(self.tokens), self.tokens[j] != self.tokens[k]), (self.tokens[j], self.tokens[k])))
    modifies('Token.store_handle', '_StoreHandle.block@fresh', '_StoreHandle.index@fresh', '_StoreBlock.size@self', '_StoreBlock.last_newline_index@self', 'Position.line@fresh', 'Position.column@fresh')
    invariant(0, size is pre(size) and size != None and self.tokens is pre(self.tokens) and fresh(size),
                 forall(lambda o: implies(o != size, sel(fld('Position.line'), o) == sel(pre(fld('Position.line')), o) and sel(fld('Position.column'), o) == sel(pre(fld('Position.column')), o))),
                 forall(lambda j: implies(0 <= j and j < K, self.tokens[j].store_handle != None and fresh(self.tokens[j].store_handle)
                        and self.tokens[j].store_handle.block is self and self.tokens[j].store_handle.index == j), self.tokens[j]),
                 forall(lambda t: as_ref(t, 'Token').store_handle is pre(as_ref(t, 'Token').store_handle) or exists(lambda j: 0 <= j and j < K and self.tokens[j] == t)),
                 forall(lambda h: implies(0 < h and h < old_alloc(), as_ref(h, '_StoreHandle').block is old(as_ref(h, '_StoreHandle').block) and as_ref(h, '_StoreHandle').index == old(as_ref(h, '_StoreHandle').index))))
    invariant(0, size.line == FLn(elems(self.tokens), fld('Token.size'), pre(fld('Position.line')), K),
                 size.column == FCol(elems(self.tokens), fld('Token.size'), pre(fld('Position.line')), pre(fld('Position.column')), K),
                 last_newline_index == FLni(elems(self.tokens), fld('Token.size'), pre(fld('Position.line')), K), aspect='cache')
    ghost_assert(2, use('fold_frame', elems(self.tokens), fld('Token.size'), old(fld('Position.line')), old(fld('Position.column')), fld('Position.line'), fld('Position.column'), len(self.tokens)), aspect='cache')
    # structure: every token of the block points back to (self, j)
    ensures(forall(lambda j: implies(0 <= j and j < len(self.tokens), self.tokens[j].store_handle != None
                and self.tokens[j].store_handle.block is self and self.tokens[j].store_handle.index == j), self.tokens[j]))
    ensures(forall(lambda t: as_ref(t, 'Token').store_handle is old(as_ref(t, 'Token').store_handle) or exists(lambda j: 0 <= j and j < len(self.tokens) and self.tokens[j] == t)))
    # caches describe the final heap (I6)
    ensures(self.size != None and fresh(self.size))
    ensures(self.size.line == FLn(elems(self.tokens), fld('Token.size'), fld('Position.line'), len(self.tokens)), aspect='cache')
    ensures(self.size.column == FCol(elems(self.tokens), fld('Token.size'), fld('Position.line'), fld('Position.column'), len(self.tokens)), aspect='cache')
    ensures(self.last_newline_index == FLni(elems(self.tokens), fld('Token.size'), fld('Position.line'), len(self.tokens)), aspect='cache')

@contract('TokenStore._merge_blocks')
def _(self, a, b):
    # called by _update_block while one of the two blocks is still pending: handles of a's and b's tokens are arbitrary
    requires(Shape(self) and Idx(self, len(self._blocks)) and SizesOK(self) and InvOff(self))
    requires(a != None and b != None and 0 <= a.index and a.index + 1 < len(self._blocks) and self._blocks[a.index] is a and self._blocks[a.index + 1] is b and b.index == a.index + 1)
    requires(HandExcept2(self, a.index, b.index) and NonEmptyExcept2(self, a.index, b.index) and len(a.tokens) + len(b.tokens) >= 1)
    requires(TokOK(self, a) and TokOK(self, b))
    modifies('Token.store_handle', '_StoreHandle.block@fresh', '_StoreHandle.index@fresh', '_StoreBlock.size@a', '_StoreBlock.size@b', '_StoreBlock.last_newline_index@a', '_StoreBlock.last_newline_index@b',
             '_StoreBlock.index', 'Position.line@fresh', 'Position.column@fresh', 'list[Token]@a.tokens', 'list[Token]@b.tokens', 'list[_StoreBlock]@self._blocks', 'TokenStore.g_off@self')
    ghost_assert(0, forall(lambda k: implies(0 <= k and k < len(a.tokens), sel(self.g_view, sel(self.g_off, old(a.index)) + k) == a.tokens[k]), a.tokens[k]))
    ghost_assert(1, forall(lambda k: implies(0 <= k and k < len(a.tokens), sel(self.g_view, sel(old(self.g_off), old(a.index)) + k) == a.tokens[k]), a.tokens[k]))
    ghost_assert(1, implies(not (old(len(a.tokens)) + old(len(b.tokens)) < _DOUBLE_LOAD_FACTOR), len(a.tokens) == (old(len(a.tokens)) + old(len(b.tokens))) // 2 and len(a.tokens) + len(b.tokens) == old(len(a.tokens)) + old(len(b.tokens))
                    and forall(lambda k: implies(0 <= k and k < len(b.tokens), sel(self.g_view, sel(old(self.g_off), old(a.index)) + len(a.tokens) + k) == b.tokens[k]), b.tokens[k])))
    ghost_assert(1, implies(not (old(len(a.tokens)) + old(len(b.tokens)) < _DOUBLE_LOAD_FACTOR), len(self._blocks) == old(len(self._blocks))
                    and forall(lambda i: implies(0 <= i and i < len(self._blocks), self._blocks[i] is old(self._blocks[i])), self._blocks[i])
                    and forall(lambda i, j: implies(0 <= i and i < len(self._blocks) and i != old(a.index) and i != old(b.index) and 0 <= j and j < len(self._blocks[i].tokens),
                            len(self._blocks[i].tokens) == old(len(self._blocks[i].tokens)) and self._blocks[i].tokens[j] == old(self._blocks[i].tokens[j])
                            and sel(self.g_view, sel(old(self.g_off), i) + j) == self._blocks[i].tokens[j]), self._blocks[i].tokens[j])))
    ghost('g_off', lambda k: ite(old(len(a.tokens)) + old(len(b.tokens)) < _DOUBLE_LOAD_FACTOR,
                                 ite(k <= old(a.index), sel(old(self.g_off), k), sel(old(self.g_off), k + 1)),
                                 ite(k == old(b.index), sel(old(self.g_off), old(a.index)) + (old(len(a.tokens)) + old(len(b.tokens))) // 2, sel(old(self.g_off), k))))
    ensures(Shape(self))
    ensures(Idx(self, len(self._blocks)))
    ensures(Hand(self))
    ensures(NonEmpty(self))
    ensures(sel(self.g_off, 0) == 0)
    ensures(forall(lambda i: implies(0 <= i and i < len(self._blocks), sel(self.g_off, i + 1) == sel(self.g_off, i) + len(self._blocks[i].tokens)), self._blocks[i], sel(self.g_off, i + 1)))
    ensures(forall(lambda i, k: implies(0 <= i and i <= k and k <= len(self._blocks), sel(self.g_off, i) <= sel(self.g_off, k)), (sel(self.g_off, i), sel(self.g_off, k))))
    ensures(self.g_vlen == sel(self.g_off, len(self._blocks)) and self._len == old(self._len))
    ensures(SizesOK(self))
    ensures(forall(lambda t: as_ref(t, 'Token').store_handle is old(as_ref(t, 'Token').store_handle) or old(exists(lambda i, j: 0 <= i and i < len(self._blocks) and 0 <= j and j < len(self._blocks[i].tokens) and self._blocks[i].tokens[j] == t))))
    ensures(forall(lambda i, j: implies(0 <= i and i < len(self._blocks) and 0 <= j and j < len(self._blocks[i].tokens), sel(self.g_view, sel(self.g_off, i) + j) == self._blocks[i].tokens[j]), self._blocks[i].tokens[j]))
    ensures(self.g_vlen == old(self.g_vlen) and self.g_view == old(self.g_view))

# ---------------------------------------------------------------- _splice (structural part)
@macro
def InvOff(s):
    return (sel(s.g_off, 0) == 0
        and forall(lambda i: implies(0 <= i and i < len(s._blocks), sel(s.g_off, i + 1) == sel(s.g_off, i) + len(s._blocks[i].tokens)), s._blocks[i], sel(s.g_off, i + 1))
        and forall(lambda i, k: implies(0 <= i and i <= k and k <= len(s._blocks), sel(s.g_off, i) <= sel(s.g_off, k)), (sel(s.g_off, i), sel(s.g_off, k)))
        and s.g_vlen == sel(s.g_off, len(s._blocks))
        and forall(lambda i, j: implies(0 <= i and i < len(s._blocks) and 0 <= j and j < len(s._blocks[i].tokens),
                sel(s.g_view, sel(s.g_off, i) + j) == s._blocks[i].tokens[j]), s._blocks[i].tokens[j]))

@macro
def HandExcept(s, bi):
    return forall(lambda i, j: implies(0 <= i and i < len(s._blocks) and i != bi and 0 <= j and j < len(s._blocks[i].tokens),
                s._blocks[i].tokens[j] != None and s._blocks[i].tokens[j].store_handle != None
                and s._blocks[i].tokens[j].store_handle.block is s._blocks[i] and s._blocks[i].tokens[j].store_handle.index == j), s._blocks[i].tokens[j])

@macro
def HandExcept2(s, bi, bj):
    return forall(lambda i, j: implies(0 <= i and i < len(s._blocks) and i != bi and i != bj and 0 <= j and j < len(s._blocks[i].tokens),
                s._blocks[i].tokens[j] != None and s._blocks[i].tokens[j].store_handle != None
                and s._blocks[i].tokens[j].store_handle.block is s._blocks[i] and s._blocks[i].tokens[j].store_handle.index == j), s._blocks[i].tokens[j])

@macro
def NonEmptyExcept2(s, bi, bj):
    return forall(lambda i: implies(0 <= i and i < len(s._blocks) and i != bi and i != bj and len(s._blocks) > 1, len(s._blocks[i].tokens) >= 1), s._blocks[i])

@macro
def NonEmptyExcept(s, bi):
    return forall(lambda i: implies(0 <= i and i < len(s._blocks) and i != bi and len(s._blocks) > 1, len(s._blocks[i].tokens) >= 1), s._blocks[i])

@macro
def TokOK(s, b):
    return (forall(lambda k: implies(0 <= k and k < len(b.tokens), b.tokens[k] != None), b.tokens[k])
        and forall(lambda j, k: implies(0 <= j and j < k and k < len(b.tokens), b.tokens[j] != b.tokens[k]), (b.tokens[j], b.tokens[k]))
        and forall(lambda i, j, k: implies(0 <= i and i < len(s._blocks) and i != b.index and 0 <= j and j < len(s._blocks[i].tokens) and 0 <= k and k < len(b.tokens),
                s._blocks[i].tokens[j] != b.tokens[k]), (s._blocks[i].tokens[j], b.tokens[k])))

@contract('TokenStore._update_block')
def _(self, block):
    requires(Pending(self, block))
    modifies('*')
    ensures(Shape(self) and Idx(self, len(self._blocks)) and Hand(self) and NonEmpty(self) and SizesOK(self) and InvOff(self))
    ensures(self.g_vlen == old(self.g_vlen) and self.g_view == old(self.g_view) and self._len == old(self._len))
    ensures(forall(lambda t: as_ref(t, 'Token').store_handle is old(as_ref(t, 'Token').store_handle) or old(exists(lambda i, j: 0 <= i and i < len(self._blocks) and 0 <= j and j < len(self._blocks[i].tokens) and self._blocks[i].tokens[j] == t))))
    # lists that were not token lists of the store before the call are untouched
    ensures(forall(lambda l: implies(0 < l and l < old_alloc() and old(forall(lambda i: implies(0 <= i and i < len(self._blocks), self._blocks[i].tokens != l), self._blocks[i])),
                len(as_list(l, 'Token')) == old(len(as_list(l, 'Token'))))))

@macro
def OH(t):       # handle the token had at function entry
    return sel(old(fld('Token.store_handle')), t)

@macro
def OHB(t):
    return sel(old(fld('_StoreHandle.block')), sel(old(fld('Token.store_handle')), t))

@macro
def OHI(t):
    return sel(old(fld('_StoreHandle.index')), sel(old(fld('Token.store_handle')), t))

@macro
def FR(s, tokens):   # frame of _splice on handles: only tokens of this store (at entry) or offered tokens may change their handle
    return forall(lambda t: as_ref(t, 'Token').store_handle is old(as_ref(t, 'Token').store_handle)
                or old(exists(lambda i, j: 0 <= i and i < len(s._blocks) and 0 <= j and j < len(s._blocks[i].tokens) and s._blocks[i].tokens[j] == t))
                or old(exists(lambda k: 0 <= k and k < len(tokens) and tokens[k] == t)))

@macro
def A(s, start):      # absolute position of the first removed token (pre-state)
    return sel(old(s.g_off), start[0]) + start[1]

@macro
def Bq(s, end):
    return sel(old(s.g_off), end[0]) + end[1]

@contract('TokenStore._splice')
def _(self, tokens, start, end):
    requires(Inv2(self) and SizesOK(self) and tokens != None)
    requires(forall(lambda k: implies(0 <= k and k < len(tokens), tokens[k] != None and allocated(tokens[k]) and tokens[k].size != None), tokens[k]))
    requires(forall(lambda j, k: implies(0 <= j and j < k and k < len(tokens), tokens[j] != tokens[k]), (tokens[j], tokens[k])))
    requires(0 <= start[0] and start[0] <= end[0] and end[0] < len(self._blocks))
    requires(0 <= start[1] and start[1] <= len(self._blocks[start[0]].tokens) and 0 <= end[1] and end[1] <= len(self._blocks[end[0]].tokens))
    requires(start[0] < end[0] or start[1] <= end[1])
    requires(forall(lambda i: implies(0 <= i and i < len(self._blocks), self._blocks[i].tokens is not tokens), self._blocks[i]))
    # every offered token is free or lives in THIS store (caller obligation; the code cannot check it)
    requires(forall(lambda k: implies(0 <= k and k < len(tokens), tokens[k].store_handle is None or InStore(self, tokens[k])), tokens[k]))
    # refusal: a token that lives in the store outside the removed range -> ValueError, nothing written
    raises('ValueError', 'Token.store_handle', '_StoreBlock.tokens', '_StoreBlock.index', '_StoreBlock.size', '_StoreBlock.last_newline_index', 'TokenStore._blocks', 'TokenStore._len', 'Position.line', 'Position.column')
    # offsets of the blocks outside the removed range, proved in the small entry context and used as hints later
    ghost_assert(1, forall(lambda i, j: implies(0 <= i and i < start[0] and 0 <= j and j < old(len(self._blocks[i].tokens)),
                        sel(old(self.g_off), i) + j < sel(old(self.g_off), start[0]) and sel(old(self.g_off), i + 1) <= sel(old(self.g_off), start[0])), old(self._blocks[i].tokens[j])))
    ghost_assert(1, forall(lambda i: implies(end[0] < i and i <= old(len(self._blocks)), sel(old(self.g_off), end[0] + 1) <= sel(old(self.g_off), i)), sel(old(self.g_off), i)))
    # ---- loop 0: the check loop establishes "free or strictly inside [start, end)"
    invariant(0, forall(lambda k: implies(0 <= k and k < K, tokens[k].store_handle is None or (
                (start[0] < tokens[k].store_handle.block.index or (start[0] == tokens[k].store_handle.block.index and start[1] <= tokens[k].store_handle.index))
                and (tokens[k].store_handle.block.index < end[0] or (tokens[k].store_handle.block.index == end[0] and tokens[k].store_handle.index < end[1])))), tokens[k]))
    # ---- loop 1: same-block removal
    invariant(1, FR(self, tokens),
                 forall(lambda t: implies(old(as_ref(t, 'Token').store_handle) is None, as_ref(t, 'Token').store_handle is None)),
                 forall(lambda j: implies(start_j <= j and j < start_j + K, block.tokens[j].store_handle is None), block.tokens[j]),
                 forall(lambda i, j: implies(0 <= i and i < len(self._blocks) and 0 <= j and j < len(self._blocks[i].tokens) and not (i == start_i and start_j <= j and j < start_j + K),
                        self._blocks[i].tokens[j].store_handle is old(self._blocks[i].tokens[j].store_handle)), self._blocks[i].tokens[j]))
    # ---- ghost: view/off move right after the slice assignment (same-block) or the block replacement (multi-block)
    after_assign('block.tokens[start_j:end_j]', 'set', 'g_view', lambda k: ite(k < A(self, start), sel(old(self.g_view), k),
                ite(k < A(self, start) + old(len(tokens)), sel(old(elems(tokens)), k - A(self, start)), sel(old(self.g_view), k - old(len(tokens)) + (Bq(self, end) - A(self, start))))))
    after_assign('block.tokens[start_j:end_j]', 'set', 'g_off', lambda k: ite(k <= start[0], sel(old(self.g_off), k), sel(old(self.g_off), k) + old(len(tokens)) - (Bq(self, end) - A(self, start))))
    after_assign('block.tokens[start_j:end_j]', 'setint', 'g_vlen', old(self.g_vlen) + old(len(tokens)) - (Bq(self, end) - A(self, start)))
    after_assign('block.tokens[start_j:end_j]', 'assert', forall(lambda i, j: implies(0 <= i and i < len(self._blocks) and i != start[0] and 0 <= j and j < len(self._blocks[i].tokens),
                sel(self.g_view, sel(self.g_off, i) + j) == self._blocks[i].tokens[j]), self._blocks[i].tokens[j]))
    after_assign('block.tokens[start_j:end_j]', 'assert', forall(lambda j: implies(0 <= j and j < len(self._blocks[start[0]].tokens),
                sel(self.g_view, sel(self.g_off, start[0]) + j) == self._blocks[start[0]].tokens[j]), self._blocks[start[0]].tokens[j]))
    after_assign('self._blocks[start_i:end_i + 1]', 'set', 'g_view', lambda k: ite(k < A(self, start), sel(old(self.g_view), k),
                ite(k < A(self, start) + old(len(tokens)), sel(old(elems(tokens)), k - A(self, start)), sel(old(self.g_view), k - old(len(tokens)) + (Bq(self, end) - A(self, start))))))
    after_assign('self._blocks[start_i:end_i + 1]', 'set', 'g_off', lambda k: ite(k <= start[0], sel(old(self.g_off), k), sel(old(self.g_off), k + (end[0] - start[0])) + old(len(tokens)) - (Bq(self, end) - A(self, start))))
    after_assign('self._blocks[start_i:end_i + 1]', 'setint', 'g_vlen', old(self.g_vlen) + old(len(tokens)) - (Bq(self, end) - A(self, start)))
    # ---- hints for the multi-block call site
    before_call('TokenStore._update_block', 'assert', implies(start[0] < end[0],
        len(self._blocks) == old(len(self._blocks)) - (end[0] - start[0])
        and forall(lambda i: implies(0 <= i and i < start[0], self._blocks[i] is old(self._blocks[i])), self._blocks[i])
        and forall(lambda i: implies(start[0] < i and i < len(self._blocks), self._blocks[i] is old(self._blocks[i + (end[0] - start[0])])), self._blocks[i])))
    before_call('TokenStore._update_block', 'assert', implies(start[0] < end[0],
        len(self._blocks[start[0]].tokens) == start[1] + old(len(tokens)) + old(len(self._blocks[end[0]].tokens)) - end[1]
        and forall(lambda j: implies(0 <= j and j < start[1], self._blocks[start[0]].tokens[j] is old(self._blocks[start[0]].tokens[j])), self._blocks[start[0]].tokens[j])
        and forall(lambda j: implies(start[1] <= j and j < start[1] + old(len(tokens)), self._blocks[start[0]].tokens[j] is sel(old(elems(tokens)), j - start[1])), self._blocks[start[0]].tokens[j])
        and forall(lambda j: implies(start[1] + old(len(tokens)) <= j and j < len(self._blocks[start[0]].tokens),
                self._blocks[start[0]].tokens[j] is sel(old(elems(self._blocks[end[0]].tokens)), j - start[1] - old(len(tokens)) + end[1])), self._blocks[start[0]].tokens[j])))
    # where the tokens of the rebuilt block came from, in terms of the handles they had at entry
    before_call('TokenStore._update_block', 'assert', implies(start[0] < end[0],
        forall(lambda j: implies(0 <= j and j < start[1], OH(self._blocks[start[0]].tokens[j]) != 0 and OHB(self._blocks[start[0]].tokens[j]) == old(self._blocks[start[0]]) and OHI(self._blocks[start[0]].tokens[j]) == j), self._blocks[start[0]].tokens[j])
        and forall(lambda j: implies(start[1] + old(len(tokens)) <= j and j < len(self._blocks[start[0]].tokens),
                OH(self._blocks[start[0]].tokens[j]) != 0 and OHB(self._blocks[start[0]].tokens[j]) == old(self._blocks[end[0]]) and OHI(self._blocks[start[0]].tokens[j]) == j - start[1] - old(len(tokens)) + end[1]), self._blocks[start[0]].tokens[j])))
    before_call('TokenStore._update_block', 'assert', implies(start[0] < end[0],
        forall(lambda k: implies(0 <= k and k < len(self._blocks[start[0]].tokens), self._blocks[start[0]].tokens[k] != None), self._blocks[start[0]].tokens[k])))
    before_call('TokenStore._update_block', 'assert', implies(start[0] < end[0],
        forall(lambda j, k: implies(0 <= j and j < k and k < len(self._blocks[start[0]].tokens), self._blocks[start[0]].tokens[j] != self._blocks[start[0]].tokens[k]), (self._blocks[start[0]].tokens[j], self._blocks[start[0]].tokens[k]))))
    before_call('TokenStore._update_block', 'assert', implies(start[0] < end[0],
        forall(lambda i, j, k: implies(0 <= i and i < len(self._blocks) and i != start[0] and 0 <= j and j < len(self._blocks[i].tokens) and 0 <= k and k < len(self._blocks[start[0]].tokens),
                self._blocks[i].tokens[j] != self._blocks[start[0]].tokens[k]), (self._blocks[i].tokens[j], self._blocks[start[0]].tokens[k]))))
    # the new view read block by block: before, inside and after the rebuilt block
    before_call('TokenStore._update_block', 'assert', implies(start[0] < end[0],
        forall(lambda i, j: implies(0 <= i and i < start[0] and 0 <= j and j < len(self._blocks[i].tokens), sel(self.g_view, sel(self.g_off, i) + j) == self._blocks[i].tokens[j]), self._blocks[i].tokens[j])))
    before_call('TokenStore._update_block', 'assert', implies(start[0] < end[0],
        forall(lambda j: implies(0 <= j and j < len(self._blocks[start[0]].tokens), sel(self.g_view, sel(self.g_off, start[0]) + j) == self._blocks[start[0]].tokens[j]), self._blocks[start[0]].tokens[j])))
    before_call('TokenStore._update_block', 'assert', implies(start[0] < end[0],
        forall(lambda i, j: implies(start[0] < i and i < len(self._blocks) and 0 <= j and j < len(self._blocks[i].tokens), sel(self.g_view, sel(self.g_off, i) + j) == self._blocks[i].tokens[j]), self._blocks[i].tokens[j])))
    # ---- loop 3: fast-path re-index
    invariant(3, FR(self, tokens),
                 forall(lambda j: implies(start_j <= j and j < start_j + K, block.tokens[j].store_handle != None and block.tokens[j].store_handle.block is block and block.tokens[j].store_handle.index == j), block.tokens[j]),
                 forall(lambda t: as_ref(t, 'Token').store_handle is pre(as_ref(t, 'Token').store_handle) or exists(lambda j: start_j <= j and j < start_j + K and block.tokens[j] == t)))
    # ---- loops 4..7: multi-block removal
    invariant(4, FR(self, tokens),
                 forall(lambda t: implies(old(as_ref(t, 'Token').store_handle) is None, as_ref(t, 'Token').store_handle is None)),
                 forall(lambda j: implies(start_j <= j and j < start_j + K, self._blocks[start_i].tokens[j].store_handle is None), self._blocks[start_i].tokens[j]),
                 forall(lambda i, j: implies(0 <= i and i < len(self._blocks) and 0 <= j and j < len(self._blocks[i].tokens) and not (i == start_i and start_j <= j and j < start_j + K),
                        self._blocks[i].tokens[j].store_handle is old(self._blocks[i].tokens[j].store_handle)), self._blocks[i].tokens[j]))
    invariant(5, FR(self, tokens),
                 forall(lambda t: implies(old(as_ref(t, 'Token').store_handle) is None, as_ref(t, 'Token').store_handle is None)),
                 len_removed == len(self._blocks[start_i].tokens) - start_j + end_j + sel(self.g_off, start_i + 1 + K) - sel(self.g_off, start_i + 1),
                 forall(lambda i, j: implies(0 <= i and i < len(self._blocks) and 0 <= j and j < len(self._blocks[i].tokens) and ((i == start_i and start_j <= j) or (start_i < i and i < start_i + 1 + K)),
                        self._blocks[i].tokens[j].store_handle is None), self._blocks[i].tokens[j]),
                 forall(lambda i, j: implies(0 <= i and i < len(self._blocks) and 0 <= j and j < len(self._blocks[i].tokens) and not ((i == start_i and start_j <= j) or (start_i < i and i < start_i + 1 + K)),
                        self._blocks[i].tokens[j].store_handle is old(self._blocks[i].tokens[j].store_handle)), self._blocks[i].tokens[j]))
    invariant(6, FR(self, tokens),
                 forall(lambda t: implies(old(as_ref(t, 'Token').store_handle) is None, as_ref(t, 'Token').store_handle is None)),
                 forall(lambda i2, j: implies(0 <= i2 and i2 < len(self._blocks) and 0 <= j and j < len(self._blocks[i2].tokens) and ((i2 == start_i and start_j <= j) or (start_i < i2 and i2 < i) or (i2 == i and j < K)),
                        self._blocks[i2].tokens[j].store_handle is None), self._blocks[i2].tokens[j]),
                 forall(lambda i2, j: implies(0 <= i2 and i2 < len(self._blocks) and 0 <= j and j < len(self._blocks[i2].tokens) and not ((i2 == start_i and start_j <= j) or (start_i < i2 and i2 < i) or (i2 == i and j < K)),
                        self._blocks[i2].tokens[j].store_handle is old(self._blocks[i2].tokens[j].store_handle)), self._blocks[i2].tokens[j]))
    invariant(7, FR(self, tokens),
                 forall(lambda t: implies(old(as_ref(t, 'Token').store_handle) is None, as_ref(t, 'Token').store_handle is None)),
                 forall(lambda i, j: implies(0 <= i and i < len(self._blocks) and 0 <= j and j < len(self._blocks[i].tokens) and ((i == start_i and start_j <= j) or (start_i < i and i < end_i) or (i == end_i and j < K)),
                        self._blocks[i].tokens[j].store_handle is None), self._blocks[i].tokens[j]),
                 forall(lambda i, j: implies(0 <= i and i < len(self._blocks) and 0 <= j and j < len(self._blocks[i].tokens) and not ((i == start_i and start_j <= j) or (start_i < i and i < end_i) or (i == end_i and j < K)),
                        self._blocks[i].tokens[j].store_handle is old(self._blocks[i].tokens[j].store_handle)), self._blocks[i].tokens[j]))
    ensures(Shape(self))
    ensures(Idx(self, len(self._blocks)))
    ensures(Hand(self))
    ensures(NonEmpty(self))
    ensures(InvOff(self))
    ensures(self.g_vlen == old(self.g_vlen) + old(len(tokens)) - (Bq(self, end) - A(self, start)))
    ensures(self._len == self.g_vlen)
    ensures(SizesOK(self))
    # refinement: the view is the old view with [A, B) replaced by `tokens`
    ensures(forall(lambda k: implies(0 <= k and k < A(self, start), sel(self.g_view, k) == sel(old(self.g_view), k)), sel(self.g_view, k)))
    ensures(forall(lambda k: implies(A(self, start) <= k and k < A(self, start) + old(len(tokens)), sel(self.g_view, k) == sel(old(elems(tokens)), k - A(self, start))), sel(self.g_view, k)))
    ensures(forall(lambda k: implies(A(self, start) + old(len(tokens)) <= k and k < self.g_vlen, sel(self.g_view, k) == sel(old(self.g_view), k - old(len(tokens)) + (Bq(self, end) - A(self, start)))), sel(self.g_view, k)))
    # removed and not re-inserted tokens are detached (block coordinates of the entry state)
    ensures(forall(lambda i, j: implies(0 <= i and i < old(len(self._blocks)) and 0 <= j and j < old(len(self._blocks[i].tokens))
                and (start[0] < i or (start[0] == i and start[1] <= j)) and (i < end[0] or (i == end[0] and j < end[1])),
                as_ref(old(self._blocks[i].tokens[j]), 'Token').store_handle is None
                or exists(lambda k: 0 <= k and k < old(len(tokens)) and sel(old(elems(tokens)), k) == old(self._blocks[i].tokens[j]))), old(self._blocks[i].tokens[j])))
    # nothing else is touched: a token whose handle changed was in this store at entry or was offered in `tokens`
    ensures(FR(self, tokens))
    ensures(Inv2(self))
    # a normal return means every offered token was free or strictly inside the removed range (the must-refuse half of C19)
    ensures(forall(lambda k: implies(0 <= k and k < old(len(tokens)), OH(sel(old(elems(tokens)), k)) == 0 or (
                (start[0] < sel(old(fld('_StoreBlock.index')), OHB(sel(old(elems(tokens)), k))) or (start[0] == sel(old(fld('_StoreBlock.index')), OHB(sel(old(elems(tokens)), k))) and start[1] <= OHI(sel(old(elems(tokens)), k))))
                and (sel(old(fld('_StoreBlock.index')), OHB(sel(old(elems(tokens)), k))) < end[0] or (sel(old(fld('_StoreBlock.index')), OHB(sel(old(elems(tokens)), k))) == end[0] and OHI(sel(old(elems(tokens)), k)) < end[1])))), sel(old(elems(tokens)), k)))

# ---------------------------------------------------------------- block construction
@macro
def TokList(l):      # a list of usable tokens: non-null, sized, pairwise distinct
    return (l != None
        and forall(lambda j: implies(0 <= j and j < len(l), l[j] != None and l[j].size != None and allocated(l[j].size)), l[j])
        and forall(lambda j, k: implies(0 <= j and j < k and k < len(l), l[j] != l[k]), (l[j], l[k])))

@contract('_StoreBlock.from_tokens')
def _(cls, tokens, store, index):
    requires(TokList(tokens))
    modifies('Token.store_handle', '_StoreHandle.block@fresh', '_StoreHandle.index@fresh', '_StoreBlock.store@fresh', '_StoreBlock.index@fresh', '_StoreBlock.tokens@fresh',
             '_StoreBlock.size@fresh', '_StoreBlock.last_newline_index@fresh', 'Position.line@fresh', 'Position.column@fresh')
    invariant(0, block != None and fresh(block) and block.size is pre(block.size) and block.size != None and fresh(block.size) and block.tokens is tokens
                 and block.store is store and block.index == index,
                 forall(lambda o: implies(o != block.size, sel(fld('Position.line'), o) == sel(pre(fld('Position.line')), o) and sel(fld('Position.column'), o) == sel(pre(fld('Position.column')), o))),
                 forall(lambda j: implies(0 <= j and j < K, tokens[j].store_handle != None and fresh(tokens[j].store_handle)
                        and tokens[j].store_handle.block is block and tokens[j].store_handle.index == j), tokens[j]),
                 forall(lambda t: as_ref(t, 'Token').store_handle is pre(as_ref(t, 'Token').store_handle) or exists(lambda j: 0 <= j and j < K and tokens[j] == t)),
                 forall(lambda h: implies(0 < h and h < old_alloc(), as_ref(h, '_StoreHandle').block is old(as_ref(h, '_StoreHandle').block) and as_ref(h, '_StoreHandle').index == old(as_ref(h, '_StoreHandle').index))))
    invariant(0, block.size.line == FLn(elems(tokens), fld('Token.size'), pre(fld('Position.line')), K),
                 block.size.column == FCol(elems(tokens), fld('Token.size'), pre(fld('Position.line')), pre(fld('Position.column')), K),
                 block.last_newline_index == FLni(elems(tokens), fld('Token.size'), pre(fld('Position.line')), K), aspect='cache')
    ghost_assert(1, use('fold_frame', elems(tokens), fld('Token.size'), old(fld('Position.line')), old(fld('Position.column')), fld('Position.line'), fld('Position.column'), len(tokens)), aspect='cache')
    ensures(result != None and fresh(result) and result.store is store and result.index == index and result.tokens is tokens)
    ensures(forall(lambda j: implies(0 <= j and j < len(tokens), tokens[j].store_handle != None and tokens[j].store_handle.block is result and tokens[j].store_handle.index == j), tokens[j]))
    ensures(forall(lambda t: as_ref(t, 'Token').store_handle is old(as_ref(t, 'Token').store_handle) or exists(lambda j: 0 <= j and j < len(tokens) and tokens[j] == t)))
    ensures(result.size != None and fresh(result.size))
    ensures(result.size.line == FLn(elems(tokens), fld('Token.size'), fld('Position.line'), len(tokens)), aspect='cache')
    ensures(result.size.column == FCol(elems(tokens), fld('Token.size'), fld('Position.line'), fld('Position.column'), len(tokens)), aspect='cache')
    ensures(result.last_newline_index == FLni(elems(tokens), fld('Token.size'), fld('Position.line'), len(tokens)), aspect='cache')

@macro
def Built(store, bl, m, tokens, start_index):
    # the first m blocks of `bl` were built from consecutive chunks of `tokens`; store.g_boff[k] is the offset of chunk k
    return (sel(store.g_boff, 0) == 0
        and forall(lambda k: implies(0 <= k and k < m, bl[k] != None and bl[k].store is store and bl[k].index == start_index + k and bl[k].tokens != None and bl[k].tokens != tokens
                and bl[k].size != None and len(bl[k].tokens) >= 1
                and sel(store.g_boff, k + 1) == sel(store.g_boff, k) + len(bl[k].tokens)), bl[k], sel(store.g_boff, k + 1))
        and forall(lambda i, k: implies(0 <= i and i <= k and k <= m, sel(store.g_boff, i) <= sel(store.g_boff, k)), (sel(store.g_boff, i), sel(store.g_boff, k)))
        and forall(lambda i, k: implies(0 <= i and i < k and k < m, bl[i] != bl[k] and bl[i].tokens != bl[k].tokens), (bl[i], bl[k]))
        and forall(lambda k, j: implies(0 <= k and k < m and 0 <= j and j < len(bl[k].tokens),
                bl[k].tokens[j] == tokens[sel(store.g_boff, k) + j] and bl[k].tokens[j].store_handle != None
                and bl[k].tokens[j].store_handle.block is bl[k] and bl[k].tokens[j].store_handle.index == j), bl[k].tokens[j]))

@contract('_build_blocks')
def _(store, start_index, tokens):
    types(blocks='list[_StoreBlock]')
    requires(store != None and TokList(tokens))
    modifies('Token.store_handle', '_StoreHandle.block@fresh', '_StoreHandle.index@fresh', '_StoreBlock.store@fresh', '_StoreBlock.index@fresh', '_StoreBlock.tokens@fresh',
             '_StoreBlock.size@fresh', '_StoreBlock.last_newline_index@fresh', 'Position.line@fresh', 'Position.column@fresh',
             'list[_StoreBlock]@fresh', 'list[Token]@fresh', 'TokenStore.g_boff@store')
    after_stmt('blocks = []', 'seto', store, 'g_boff', lambda k: 0)
    after_stmt('blocks.append(_StoreBlock.from_tokens(tokens[start:start + _LOAD_FACTOR], store, start_index))', 'seto', store, 'g_boff',
               lambda k: ite(k == len(blocks), sel(store.g_boff, len(blocks) - 1) + len(blocks[len(blocks) - 1].tokens), sel(store.g_boff, k)))
    after_stmt('blocks.append(_StoreBlock.from_tokens(tokens[start:start + length], store, start_index))', 'seto', store, 'g_boff',
               lambda k: ite(k == len(blocks), sel(store.g_boff, len(blocks) - 1) + len(blocks[len(blocks) - 1].tokens), sel(store.g_boff, k)))
    after_stmt('blocks.append(_StoreBlock.from_tokens(tokens[start + length:], store, start_index + 1))', 'seto', store, 'g_boff',
               lambda k: ite(k == len(blocks), sel(store.g_boff, len(blocks) - 1) + len(blocks[len(blocks) - 1].tokens), sel(store.g_boff, k)))
    after_stmt('blocks.append(_StoreBlock.from_tokens(tokens[start:], store, start_index))', 'seto', store, 'g_boff',
               lambda k: ite(k == len(blocks), sel(store.g_boff, len(blocks) - 1) + len(blocks[len(blocks) - 1].tokens), sel(store.g_boff, k)))
    invariant(0, blocks is pre(blocks) and blocks != None and fresh(blocks) and start >= 0 and remaining >= 0 and start + remaining == len(tokens)
                 and start_index == old(start_index) + len(blocks) and sel(store.g_boff, len(blocks)) == start,
                 len(tokens) == old(len(tokens)) and forall(lambda j: implies(0 <= j and j < len(tokens), tokens[j] == old(tokens[j])), tokens[j]),
                 Built(store, blocks, len(blocks), tokens, old(start_index)),
                 forall(lambda k: implies(0 <= k and k < len(blocks), fresh(blocks[k]) and fresh(blocks[k].tokens) and fresh(blocks[k].size)), blocks[k]),
                 forall(lambda j: implies(start <= j and j < len(tokens), tokens[j].store_handle is old(tokens[j].store_handle)), tokens[j]),
                 forall(lambda t: as_ref(t, 'Token').store_handle is old(as_ref(t, 'Token').store_handle) or exists(lambda j: 0 <= j and j < start and tokens[j] == t)),
                 forall(lambda t: implies(0 < t and t < old_alloc(), as_ref(t, 'Token').size is old(as_ref(t, 'Token').size))))
    ensures(result != None and fresh(result))
    ensures(implies(len(tokens) > 0, len(result) >= 1))
    ensures(len(tokens) == old(len(tokens)) and forall(lambda j: implies(0 <= j and j < len(tokens), tokens[j] == old(tokens[j])), tokens[j]))
    ensures(Built(store, result, len(result), tokens, old(start_index)))
    ensures(sel(store.g_boff, len(result)) == len(tokens))
    ensures(forall(lambda k: implies(0 <= k and k < len(result), fresh(result[k]) and fresh(result[k].tokens) and fresh(result[k].size)), result[k]))
    ensures(forall(lambda t: as_ref(t, 'Token').store_handle is old(as_ref(t, 'Token').store_handle) or exists(lambda j: 0 <= j and j < len(tokens) and tokens[j] == t)))

# ---------------------------------------------------------------- Pending: the state in which _splice hands a block to _update_block
@macro
def Pending(s, block):
    return (Shape(s) and Idx(s, len(s._blocks)) and SizesOK(s)
        and block != None and 0 <= block.index and block.index < len(s._blocks) and s._blocks[block.index] is block
        and HandExcept(s, block.index) and NonEmptyExcept(s, block.index) and TokOK(s, block)
        and forall(lambda k: implies(0 <= k and k < len(block.tokens), block.tokens[k].size != None and allocated(block.tokens[k].size)), block.tokens[k])
        and InvOff(s))

@contract('TokenStore._split_block')
def _(self, block):
    requires(Pending(self, block) and len(block.tokens) >= 1)
    modifies('*')
    ghost_assert(0, len(new_blocks) >= 1 and Built(self, new_blocks, len(new_blocks), block.tokens, block.index) and sel(self.g_boff, len(new_blocks)) == len(block.tokens)
                    and block.index == old(block.index) and len(self._blocks) == old(len(self._blocks)))
    ghost('g_off', lambda k: ite(k <= old(block.index), sel(old(self.g_off), k),
                             ite(k <= old(block.index) + len(new_blocks), sel(old(self.g_off), old(block.index)) + sel(self.g_boff, k - old(block.index)),
                                 sel(old(self.g_off), k - len(new_blocks) + 1))))
    ensures(Shape(self) and Idx(self, len(self._blocks)) and Hand(self) and NonEmpty(self) and SizesOK(self))
    ensures(InvOff(self))
    ensures(self.g_vlen == old(self.g_vlen) and self.g_view == old(self.g_view) and self._len == old(self._len))
    ensures(forall(lambda t: as_ref(t, 'Token').store_handle is old(as_ref(t, 'Token').store_handle) or old(exists(lambda i, j: 0 <= i and i < len(self._blocks) and 0 <= j and j < len(self._blocks[i].tokens) and self._blocks[i].tokens[j] == t))))
    ensures(forall(lambda l: implies(0 < l and l < old_alloc() and old(forall(lambda i: implies(0 <= i and i < len(self._blocks), self._blocks[i].tokens != l), self._blocks[i])),
                len(as_list(l, 'Token')) == old(len(as_list(l, 'Token'))))))

@contract('TokenStore.__init__')
def _(self):
    modifies('TokenStore._blocks@self', 'TokenStore._len@self', 'TokenStore.g_off@self', 'TokenStore.g_vlen@self', 'TokenStore.g_view@self',
             '_StoreBlock.store@fresh', '_StoreBlock.index@fresh', '_StoreBlock.tokens@fresh', '_StoreBlock.size@fresh', '_StoreBlock.last_newline_index@fresh',
             'Position.line@fresh', 'Position.column@fresh', 'list[_StoreBlock]@fresh', 'list[Token]@fresh')
    ghost('g_off', lambda k: 0)
    ghost('g_vlen', 0)
    ensures(Inv2(self) and SizesOK(self) and self.g_vlen == 0 and fresh(self._blocks))

@contract('TokenStore.from_tokens')
def _(cls, tokens):
    requires(TokList(tokens))
    raises('ValueError', 'Token.store_handle', '_StoreBlock.tokens', '_StoreBlock.index', 'TokenStore._blocks', 'TokenStore._len', 'list[Token]', 'list[_StoreBlock]')
    modifies('Token.store_handle', '_StoreHandle.block@fresh', '_StoreHandle.index@fresh', '_StoreBlock.store@fresh', '_StoreBlock.index@fresh', '_StoreBlock.tokens@fresh',
             '_StoreBlock.size@fresh', '_StoreBlock.last_newline_index@fresh', 'Position.line@fresh', 'Position.column@fresh',
             'list[_StoreBlock]@fresh', 'list[Token]@fresh', 'TokenStore._blocks@fresh', 'TokenStore._len@fresh', 'TokenStore.g_boff@fresh', 'TokenStore.g_off@fresh', 'TokenStore.g_view@fresh', 'TokenStore.g_vlen@fresh')
    invariant(0, forall(lambda k: implies(0 <= k and k < K, tokens[k].store_handle is None), tokens[k]))
    ghost('result:g_off', lambda k: ite(len(tokens) > 0, sel(result.g_boff, k), 0))
    ghost('result:g_view', lambda k: tokens[k])
    ghost('result:g_vlen', len(tokens))
    ensures(result != None and fresh(result))
    ensures(Shape(result) and Idx(result, len(result._blocks)) and Hand(result) and NonEmpty(result) and SizesOK(result))
    ensures(InvView(result))
    ensures(result.g_vlen == len(tokens) and forall(lambda k: implies(0 <= k and k < len(tokens), sel(result.g_view, k) == tokens[k]), tokens[k]))
    ensures(forall(lambda t: as_ref(t, 'Token').store_handle is old(as_ref(t, 'Token').store_handle) or exists(lambda j: 0 <= j and j < len(tokens) and tokens[j] == t)))

# ---------------------------------------------------------------- public mutators, specified on the abstract view
@macro
def OfferOK(s, tokens):   # what a caller must guarantee about offered tokens (the code cannot check it)
    return (tokens != None
        and forall(lambda k: implies(0 <= k and k < len(tokens), tokens[k] != None and allocated(tokens[k]) and tokens[k].size != None and allocated(tokens[k].size)
                and (tokens[k].store_handle is None or InStore(s, tokens[k]))), tokens[k])
        and forall(lambda j, k: implies(0 <= j and j < k and k < len(tokens), tokens[j] != tokens[k]), (tokens[j], tokens[k]))
        and forall(lambda i: implies(0 <= i and i < len(s._blocks), s._blocks[i].tokens is not tokens), s._blocks[i]))

@macro
def Spliced(s, tokens, a, b):   # view' == old view[:a] ++ old tokens ++ old view[b:]
    return (s.g_vlen == old(s.g_vlen) + old(len(tokens)) - (b - a)
        and forall(lambda k: implies(0 <= k and k < a, sel(s.g_view, k) == sel(old(s.g_view), k)), sel(s.g_view, k))
        and forall(lambda k: implies(a <= k and k < a + old(len(tokens)), sel(s.g_view, k) == sel(old(elems(tokens)), k - a)), sel(s.g_view, k))
        and forall(lambda k: implies(a + old(len(tokens)) <= k and k < s.g_vlen, sel(s.g_view, k) == sel(old(s.g_view), k - old(len(tokens)) + (b - a))), sel(s.g_view, k)))

@macro
def Refusal():
    return ('Token.store_handle', '_StoreBlock.tokens', '_StoreBlock.index', '_StoreBlock.size', '_StoreBlock.last_newline_index', 'TokenStore._blocks', 'TokenStore._len', 'Position.line', 'Position.column', 'list[Token]', 'list[_StoreBlock]')

@contract('TokenStore.splice')
def _(self, tokens, ref, del_end):
    requires(Inv2(self) and SizesOK(self) and OfferOK(self, tokens))
    requires(ref is None or ref.store_handle is None or InStore(self, ref))
    requires(del_end is None or del_end.store_handle is None or InStore(self, del_end))
    requires(implies(ref != None and del_end != None and ref.store_handle != None and del_end.store_handle != None, pos(self, ref) <= pos(self, del_end)))
    raises('ValueError', 'Token.store_handle', '_StoreBlock.tokens', '_StoreBlock.index', '_StoreBlock.size', '_StoreBlock.last_newline_index', 'TokenStore._blocks', 'TokenStore._len', 'Position.line', 'Position.column', 'list[Token]', 'list[_StoreBlock]')
    ensures(Inv2(self) and SizesOK(self))
    ensures(Spliced(self, tokens, old(ite(ref is None, 0, pos(self, ref))), old(ite(del_end is None, ite(ref is None, 0, pos(self, ref)), pos(self, del_end) + 1))))
    ensures(FR(self, tokens))
    # a normal return means no reference was free
    ensures(old(ref is None or ref.store_handle != None) and old(del_end is None or del_end.store_handle != None))
    # ... and every offered token was free or strictly inside the removed range: re-inserting a token that lives elsewhere is always refused
    ensures(forall(lambda k: implies(0 <= k and k < old(len(tokens)), OH(sel(old(elems(tokens)), k)) == 0 or (
                old(ite(ref is None, 0, pos(self, ref))) <= sel(old(self.g_off), sel(old(fld('_StoreBlock.index')), OHB(sel(old(elems(tokens)), k)))) + OHI(sel(old(elems(tokens)), k))
                and sel(old(self.g_off), sel(old(fld('_StoreBlock.index')), OHB(sel(old(elems(tokens)), k)))) + OHI(sel(old(elems(tokens)), k)) < old(ite(del_end is None, ite(ref is None, 0, pos(self, ref)), pos(self, del_end) + 1)))), sel(old(elems(tokens)), k)))

@contract('TokenStore.insert_after')
def _(self, ref, tokens):
    requires(Inv2(self) and SizesOK(self) and OfferOK(self, tokens))
    requires(ref is None or ref.store_handle is None or InStore(self, ref))
    raises('ValueError', 'Token.store_handle', '_StoreBlock.tokens', '_StoreBlock.index', '_StoreBlock.size', '_StoreBlock.last_newline_index', 'TokenStore._blocks', 'TokenStore._len', 'Position.line', 'Position.column', 'list[Token]', 'list[_StoreBlock]')
    ensures(Inv2(self) and SizesOK(self))
    ensures(Spliced(self, tokens, old(ite(ref is None, 0, pos(self, ref) + 1)), old(ite(ref is None, 0, pos(self, ref) + 1))))
    ensures(FR(self, tokens))
    ensures(old(ref is None or ref.store_handle != None))

@contract('TokenStore.insert_before')
def _(self, ref, tokens):
    requires(Inv2(self) and SizesOK(self) and OfferOK(self, tokens))
    requires(ref is None or ref.store_handle is None or InStore(self, ref))
    raises('ValueError', 'Token.store_handle', '_StoreBlock.tokens', '_StoreBlock.index', '_StoreBlock.size', '_StoreBlock.last_newline_index', 'TokenStore._blocks', 'TokenStore._len', 'Position.line', 'Position.column', 'list[Token]', 'list[_StoreBlock]')
    ensures(Inv2(self) and SizesOK(self))
    ensures(Spliced(self, tokens, old(ite(ref is None, 0, pos(self, ref))), old(ite(ref is None, 0, pos(self, ref)))))
    ensures(FR(self, tokens))

@contract('TokenStore.replace')
def _(self, token, repl):
    requires(Inv2(self) and SizesOK(self))
    requires(token != None and (token.store_handle is None or InStore(self, token)))
    requires(repl != None and allocated(repl) and repl.size != None and allocated(repl.size) and (repl.store_handle is None or InStore(self, repl)))
    raises('ValueError', 'Token.store_handle', '_StoreBlock.tokens', '_StoreBlock.index', '_StoreBlock.size', '_StoreBlock.last_newline_index', 'TokenStore._blocks', 'TokenStore._len', 'Position.line', 'Position.column', 'list[_StoreBlock]')
    ensures(Inv2(self) and SizesOK(self))
    ensures(self.g_vlen == old(self.g_vlen) and sel(self.g_view, old(pos(self, token))) == repl)
    ensures(forall(lambda k: implies(0 <= k and k < self.g_vlen and k != old(pos(self, token)), sel(self.g_view, k) == sel(old(self.g_view), k)), sel(self.g_view, k)))
    ensures(old(token.store_handle != None))
    # re-inserting a token that lives elsewhere in the store is always refused
    ensures(old(repl.store_handle is None or repl is token))

@contract('TokenStore.remove')
def _(self, start, end):
    requires(Inv2(self) and SizesOK(self))
    requires(start != None and (start.store_handle is None or InStore(self, start)))
    requires(end is None or end.store_handle is None or InStore(self, end))
    requires(implies(end != None and start.store_handle != None and end.store_handle != None, pos(self, start) <= pos(self, end)))
    raises('ValueError', 'Token.store_handle', '_StoreBlock.tokens', '_StoreBlock.index', '_StoreBlock.size', '_StoreBlock.last_newline_index', 'TokenStore._blocks', 'TokenStore._len', 'Position.line', 'Position.column', 'list[_StoreBlock]')
    ensures(Inv2(self) and SizesOK(self))
    ensures(self.g_vlen == old(self.g_vlen) - (old(ite(end is None, pos(self, start), pos(self, end))) + 1 - old(pos(self, start))))
    ensures(forall(lambda k: implies(0 <= k and k < old(pos(self, start)), sel(self.g_view, k) == sel(old(self.g_view), k)), sel(self.g_view, k)))
    ensures(forall(lambda k: implies(old(pos(self, start)) <= k and k < self.g_vlen, sel(self.g_view, k) == sel(old(self.g_view), k + (old(ite(end is None, pos(self, start), pos(self, end))) + 1 - old(pos(self, start))))), sel(self.g_view, k)))
    ensures(old(start.store_handle != None))

# ---- _StoreBlock.extend (not called by the current code; under contract so that a caller that starts using it is checked against what it really does):
# appends the tokens and gives exactly the APPENDED tokens fresh handles (self, position); the handles of the tokens that were already there are not touched
@contract('_StoreBlock.extend')
def _(self, tokens):
    types(tokens='list[Token]')
    requires(self != None and self.tokens != None and self.size != None and tokens != None and tokens is not self.tokens)
    requires(forall(lambda j: implies(0 <= j and j < len(tokens), tokens[j] != None and tokens[j].size != None and tokens[j].size is not self.size), tokens[j]))
    requires(forall(lambda j, k: implies(0 <= j and j < k and k < len(tokens), tokens[j] != tokens[k]), (tokens[j], tokens[k])))
    modifies('list[Token]@self.tokens', 'Token.store_handle', '_StoreHandle.block@fresh', '_StoreHandle.index@fresh', 'Position.line@self.size', 'Position.column@self.size', '_StoreBlock.last_newline_index@self')
    invariant(0, self.tokens is pre(self.tokens) and self.size is pre(self.size) and len(self.tokens) == pre(len(self.tokens)) and elems(self.tokens) == pre(elems(self.tokens)) and start == pre(start) and start == old(len(self.tokens)) and len(self.tokens) == start + len(tokens),
                 forall(lambda j, k: implies(start <= j and j < k and k < len(self.tokens), self.tokens[j] != self.tokens[k]), (self.tokens[j], self.tokens[k])),
                 forall(lambda j: implies(start <= j and j < start + K, self.tokens[j].store_handle != None and fresh(self.tokens[j].store_handle)
                        and self.tokens[j].store_handle.block is self and self.tokens[j].store_handle.index == j), self.tokens[j]),
                 forall(lambda t: as_ref(t, 'Token').store_handle is pre(as_ref(t, 'Token').store_handle) or exists(lambda j: start <= j and j < start + K and self.tokens[j] == t)),
                 forall(lambda h: implies(0 < h and h < old_alloc(), as_ref(h, '_StoreHandle').block is old(as_ref(h, '_StoreHandle').block) and as_ref(h, '_StoreHandle').index == old(as_ref(h, '_StoreHandle').index))))
    ensures(len(self.tokens) == old(len(self.tokens)) + len(tokens))
    ensures(forall(lambda k: implies(0 <= k and k < old(len(self.tokens)), self.tokens[k] == old(self.tokens[k])), self.tokens[k]))
    ensures(forall(lambda k: implies(0 <= k and k < len(tokens), self.tokens[old(len(self.tokens)) + k] == tokens[k]), tokens[k]))
    ensures(forall(lambda j: implies(old(len(self.tokens)) <= j and j < len(self.tokens), self.tokens[j].store_handle != None and fresh(self.tokens[j].store_handle)
                   and self.tokens[j].store_handle.block is self and self.tokens[j].store_handle.index == j), self.tokens[j]))
    ensures(forall(lambda t: as_ref(t, 'Token').store_handle is old(as_ref(t, 'Token').store_handle) or exists(lambda j: old(len(self.tokens)) <= j and j < len(self.tokens) and self.tokens[j] == t)))
    ensures(forall(lambda h: implies(0 < h and h < old_alloc(), as_ref(h, '_StoreHandle').block is old(as_ref(h, '_StoreHandle').block) and as_ref(h, '_StoreHandle').index == old(as_ref(h, '_StoreHandle').index))))
