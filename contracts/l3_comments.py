"""Contracts for models/internal/surrounding_comments.py (C14, C04): the scanning helper of comment claiming.
The successor callable is an arbitrary total function (ghost array), chain(succ, x, k) its k-fold application."""

UFUNS = {'chain': ['IARR', 'int', 'int', 'int']}
AXIOMS = [
    forall(lambda A_f, x: chain(A_f, x, 0) == x, chain(A_f, x, 0)),
    forall(lambda A_f, x, k: implies(k >= 0, chain(A_f, x, k + 1) == sel(A_f, chain(A_f, x, k))), chain(A_f, x, k + 1)),
]

# skips exactly the run of Placeholder tokens in front of `token` (nothing else - in particular no Eol / DedentMark / Indent mark, which delimit
# indentation classes), appends them in order to `ignored`, and returns the first token that is not a Placeholder (or None at the end)
@contract('_take_ignored')
def _(token, succ, ignored):
    types(succ='IARR', succ__ret='RawTokenModel')
    requires(ignored != None)
    modifies('list[RawTokenModel]@ignored')
    invariant(0, token == chain(succ, old(token), K) and len(ignored) == old(len(ignored)) + K
                 and forall(lambda k: implies(0 <= k and k < K, isinstance(as_ref(chain(succ, old(token), k), 'RawTokenModel'), Placeholder) and ignored[old(len(ignored)) + k] == chain(succ, old(token), k)), chain(succ, old(token), k))
                 and forall(lambda k: implies(0 <= k and k < old(len(ignored)), ignored[k] == old(ignored[k])), ignored[k]))
    # caller-facing form: the number of skipped tokens is the growth of `ignored`
    ensures(len(ignored) >= old(len(ignored)) and result == chain(succ, old(token), len(ignored) - old(len(ignored))) and not isinstance(result, Placeholder))
    ensures(forall(lambda k: implies(0 <= k and k < len(ignored) - old(len(ignored)), isinstance(as_ref(chain(succ, old(token), k), 'RawTokenModel'), Placeholder) and ignored[old(len(ignored)) + k] == chain(succ, old(token), k)), chain(succ, old(token), k)))
    ensures(forall(lambda k: implies(0 <= k and k < len(ignored) - old(len(ignored)), ignored[old(len(ignored)) + k] == chain(succ, old(token), k)), ignored[old(len(ignored)) + k]))
    ensures(forall(lambda k: implies(0 <= k and k < old(len(ignored)), ignored[k] == old(ignored[k])), ignored[k]))

# ================================================================ _claim_comment (store seen through its abstract interface)
@macro
def AbsInv(s):
    return (s.g_vlen >= 0
        and forall(lambda k: implies(0 <= k and k < s.g_vlen, allocated(as_ref(sel(s.g_view, k), 'RawTokenModel')) and as_ref(sel(s.g_view, k), 'RawTokenModel').g_store is s and as_ref(sel(s.g_view, k), 'RawTokenModel').g_pos == k), sel(s.g_view, k)))

@macro
def In(s, t):
    return t != None and t.g_store is s and 0 <= t.g_pos and t.g_pos < s.g_vlen and sel(s.g_view, t.g_pos) is t

@macro
def IsPh(t):
    return isinstance(as_ref(t, 'RawTokenModel'), Placeholder)

@contract('TokenStore.get_next')
def _(self, token):
    requires(AbsInv(self) and In(self, token))
    modifies()
    ensures(result == ite(token.g_pos + 1 < self.g_vlen, sel(self.g_view, token.g_pos + 1), 0))

@contract('TokenStore.get_prev')
def _(self, token):
    requires(AbsInv(self) and In(self, token))
    modifies()
    ensures(result == ite(token.g_pos > 0, sel(self.g_view, token.g_pos - 1), 0))

# splice with re-offered tokens: every offered token is free or lies inside the removed range (the refusal of anything else is a proved L0 postcondition)
@contract('TokenStore.splice')
def _(self, tokens, ref, del_end):
    requires(AbsInv(self) and In(self, ref) and In(self, del_end) and ref.g_pos <= del_end.g_pos and tokens != None)
    requires(forall(lambda k: implies(0 <= k and k < len(tokens), tokens[k] != None and (tokens[k].g_store is None or (tokens[k].g_store is self and ref.g_pos <= tokens[k].g_pos and tokens[k].g_pos <= del_end.g_pos))), tokens[k]))
    requires(forall(lambda j, k: implies(0 <= j and j < k and k < len(tokens), tokens[j] != tokens[k])))
    modifies('TokenStore.g_view@self', 'TokenStore.g_vlen@self', 'RawTokenModel.g_store', 'RawTokenModel.g_pos')
    ensures(self.g_vlen == old(self.g_vlen) - (old(del_end.g_pos) + 1 - old(ref.g_pos)) + len(tokens) and AbsInv(self))
    ensures(forall(lambda k: sel(self.g_view, k) == ite(k < old(ref.g_pos), sel(old(self.g_view), k),
                             ite(k < old(ref.g_pos) + len(tokens), sel(elems(tokens), k - old(ref.g_pos)), sel(old(self.g_view), k - len(tokens) + (old(del_end.g_pos) + 1 - old(ref.g_pos)))))))

@contract('BlockComment.claimed')
def _(self):
    requires(self != None)
    modifies()
    ensures(result == self._claimed)

@contract('BlockComment.claimed.setter')
def _(self, claimed):
    requires(self != None)
    modifies('BlockComment._claimed@self')
    ensures(self._claimed == claimed)

@lemma
def chain_next_all(A_f, A_v, n, p, N):
    requires(0 <= p and p < n and 0 <= N and p + N <= n and forall(lambda i: implies(0 <= i and i < n, sel(A_f, sel(A_v, i)) == ite(i + 1 < n, sel(A_v, i + 1), 0))))
    ensures(forall(lambda k: implies(0 <= k and k <= N, chain(A_f, sel(A_v, p), k) == ite(p + k < n, sel(A_v, p + k), 0)), chain(A_f, sel(A_v, p), k)))
    hint(chain(A_f, sel(A_v, p), N + 1) == sel(A_f, chain(A_f, sel(A_v, p), N)))
    induction('N', 0)

@lemma
def chain_prev_all(A_f, A_v, n, p, N):
    requires(0 <= p and p < n and 0 <= N and N <= p + 1 and forall(lambda i: implies(0 <= i and i < n, sel(A_f, sel(A_v, i)) == ite(i > 0, sel(A_v, i - 1), 0))))
    ensures(forall(lambda k: implies(0 <= k and k <= N, chain(A_f, sel(A_v, p), k) == ite(k <= p, sel(A_v, p - k), 0)), chain(A_f, sel(A_v, p), k)))
    hint(chain(A_f, sel(A_v, p), N + 1) == sel(A_f, chain(A_f, sel(A_v, p), N)))
    induction('N', 0)

# ghost on the store: g_ca / g_cb = number of Placeholder tokens between the start token and the newline / between the newline and the comment
@macro
def ShapeFwd(s, v, p, a, b, c):      # view[p+1 .. p+a] placeholders, view[p+1+a] a Newline, view[p+2+a .. p+1+a+b] placeholders, view[p+2+a+b] == c
    return (0 <= a and 0 <= b and p + 2 + a + b < s.g_vlen and sel(v, p + 2 + a + b) == c and isinstance(as_ref(sel(v, p + 1 + a), 'RawTokenModel'), Newline)
        and forall(lambda k: implies((p + 1 <= k and k <= p + a) or (p + 2 + a <= k and k <= p + 1 + a + b), IsPh(sel(v, k))), sel(v, k)))

@macro
def ShapeBwd(s, v, p, a, b, c):      # mirrored: view[p-a .. p-1] placeholders, view[p-1-a] a Newline, view[p-1-a-b .. p-2-a] placeholders, view[p-2-a-b] == c
    return (0 <= a and 0 <= b and p - 2 - a - b >= 0 and sel(v, p - 2 - a - b) == c and isinstance(as_ref(sel(v, p - 1 - a), 'RawTokenModel'), Newline)
        and forall(lambda k: implies((p - a <= k and k <= p - 1) or (p - 1 - a - b <= k and k <= p - 2 - a), IsPh(sel(v, k))), sel(v, k)))

@contract('_claim_comment')
def _(current, token_store, start, backwards, ignore_if_already_claimed):
    types(ignored='list[RawTokenModel]')
    requires(token_store != None and AbsInv(token_store) and In(token_store, start))
    modifies('TokenStore.g_view@token_store', 'TokenStore.g_vlen@token_store', 'RawTokenModel.g_store', 'RawTokenModel.g_pos', 'BlockComment._claimed', 'list[RawTokenModel]@fresh',
             'TokenStore.g_ca@token_store', 'TokenStore.g_cb@token_store')
    raises('ValueError', 'TokenStore.g_view', 'TokenStore.g_vlen', 'RawTokenModel.g_store', 'RawTokenModel.g_pos', 'BlockComment._claimed')
    ghost('token_store:g_ca', g_a)
    ghost('token_store:g_cb', len(ignored) - g_a)
    after_stmt('ignored: list[base.RawTokenModel] = []', 'let', 'g_a', 0)
    after_stmt('newline = _take_ignored(first, succ, ignored)', 'let', 'g_a', len(ignored))
    # ---- proof steps: the walk with get_next / get_prev is a walk along the view
    after_stmt('first = succ(start)', 'use_if', not backwards and start.g_pos + 1 < token_store.g_vlen, 'chain_next_all', succ, token_store.g_view, token_store.g_vlen, start.g_pos + 1, token_store.g_vlen - start.g_pos - 1)
    after_stmt('first = succ(start)', 'use_if', backwards and start.g_pos > 0, 'chain_prev_all', succ, token_store.g_view, token_store.g_vlen, start.g_pos - 1, start.g_pos)
    after_stmt('first = succ(start)', 'assert', implies(not backwards, first == ite(start.g_pos + 1 < token_store.g_vlen, sel(token_store.g_view, start.g_pos + 1), 0)) and implies(backwards, first == ite(start.g_pos > 0, sel(token_store.g_view, start.g_pos - 1), 0)))
    after_stmt('first = succ(start)', 'assert', implies(first != None and not backwards, chain(succ, first, token_store.g_vlen - start.g_pos - 1) == 0) and implies(first != None and backwards, chain(succ, first, start.g_pos) == 0))
    after_stmt('newline = _take_ignored(first, succ, ignored)', 'assert', implies(not backwards, g_a <= token_store.g_vlen - start.g_pos - 1) and implies(backwards, g_a <= start.g_pos))
    after_stmt('newline = _take_ignored(first, succ, ignored)', 'assert', implies(not backwards, newline == ite(start.g_pos + 1 + g_a < token_store.g_vlen, sel(token_store.g_view, start.g_pos + 1 + g_a), 0))
                                                                          and implies(backwards, newline == ite(g_a <= start.g_pos - 1, sel(token_store.g_view, start.g_pos - 1 - g_a), 0)))
    after_stmt('newline = _take_ignored(first, succ, ignored)', 'assert', forall(lambda j: implies(0 <= j and j < g_a, ignored[j] == sel(token_store.g_view, ite(backwards, start.g_pos - 1 - j, start.g_pos + 1 + j)) and IsPh(ignored[j])), ignored[j]))
    # second walk, from the token next to the newline
    after_stmt('comment = _take_ignored(succ(newline), succ, ignored)', 'use_if', not backwards and start.g_pos + 2 + g_a < token_store.g_vlen, 'chain_next_all', succ, token_store.g_view, token_store.g_vlen, start.g_pos + 2 + g_a, token_store.g_vlen - start.g_pos - 2 - g_a)
    after_stmt('comment = _take_ignored(succ(newline), succ, ignored)', 'use_if', backwards and start.g_pos - 2 - g_a >= 0, 'chain_prev_all', succ, token_store.g_view, token_store.g_vlen, start.g_pos - 2 - g_a, start.g_pos - 1 - g_a)
    after_stmt('comment = _take_ignored(succ(newline), succ, ignored)', 'assert', implies(not backwards, sel(succ, newline) == ite(start.g_pos + 2 + g_a < token_store.g_vlen, sel(token_store.g_view, start.g_pos + 2 + g_a), 0))
                                                                                  and implies(backwards, sel(succ, newline) == ite(start.g_pos - 2 - g_a >= 0, sel(token_store.g_view, start.g_pos - 2 - g_a), 0)))
    after_stmt('comment = _take_ignored(succ(newline), succ, ignored)', 'assert', implies(sel(succ, newline) != 0 and not backwards, chain(succ, sel(succ, newline), token_store.g_vlen - start.g_pos - 2 - g_a) == 0)
                                                                                  and implies(sel(succ, newline) != 0 and backwards, chain(succ, sel(succ, newline), start.g_pos - 1 - g_a) == 0)
                                                                                  and implies(sel(succ, newline) == 0, chain(succ, sel(succ, newline), 0) == 0 and len(ignored) == g_a))
    after_stmt('comment = _take_ignored(succ(newline), succ, ignored)', 'assert', implies(not backwards, len(ignored) - g_a <= token_store.g_vlen - start.g_pos - 2 - g_a) and implies(backwards, len(ignored) - g_a <= start.g_pos - 1 - g_a))
    after_stmt('comment = _take_ignored(succ(newline), succ, ignored)', 'assert', implies(not backwards, comment == ite(start.g_pos + 2 + len(ignored) < token_store.g_vlen, sel(token_store.g_view, start.g_pos + 2 + len(ignored)), 0))
                                                                                  and implies(backwards, comment == ite(start.g_pos - 2 - len(ignored) >= 0, sel(token_store.g_view, start.g_pos - 2 - len(ignored)), 0)))
    after_stmt('comment = _take_ignored(succ(newline), succ, ignored)', 'assert', forall(lambda j: implies(g_a <= j and j < len(ignored), ignored[j] == chain(succ, sel(succ, newline), j - g_a) and IsPh(ignored[j])), ignored[j]))
    after_stmt('comment = _take_ignored(succ(newline), succ, ignored)', 'assert', forall(lambda j: implies(0 <= j and j < len(ignored), IsPh(ignored[j]) and ignored[j] == sel(token_store.g_view,
                        ite(backwards, ite(j < g_a, start.g_pos - 1 - j, start.g_pos - 2 - j), ite(j < g_a, start.g_pos + 1 + j, start.g_pos + 2 + j)))), ignored[j]))
    # the same facts indexed by view position
    exit_assert(forall(lambda k: implies(ite(backwards, old(start.g_pos) - g_a <= k and k <= old(start.g_pos) - 1, old(start.g_pos) + 1 <= k and k <= old(start.g_pos) + g_a),
                                         ignored[ite(backwards, old(start.g_pos) - 1 - k, k - old(start.g_pos) - 1)] == sel(old(token_store.g_view), k)), sel(old(token_store.g_view), k)))
    exit_assert(forall(lambda k: implies(ite(backwards, old(start.g_pos) - 1 - len(ignored) <= k and k <= old(start.g_pos) - 2 - g_a, old(start.g_pos) + 2 + g_a <= k and k <= old(start.g_pos) + 1 + len(ignored)),
                                         ignored[ite(backwards, old(start.g_pos) - 2 - k, k - old(start.g_pos) - 2)] == sel(old(token_store.g_view), k)), sel(old(token_store.g_view), k)))
    # an owner is kept; without a comment to take nothing at all changes
    ensures(implies(old(current) != None, result is old(current)))
    ensures(implies(old(current) != None or result is None, token_store.g_view == old(token_store.g_view) and token_store.g_vlen == old(token_store.g_vlen)
                    and forall(lambda t: as_ref(t, 'BlockComment')._claimed == old(as_ref(t, 'BlockComment')._claimed))))
    # a comment is taken only if it was free, and it is the only token whose flag changes
    ensures(implies(old(current) is None and result != None, old(as_ref(result, 'BlockComment')._claimed) == False and as_ref(result, 'BlockComment')._claimed == True
                    and forall(lambda t: implies(t != result, as_ref(t, 'BlockComment')._claimed == old(as_ref(t, 'BlockComment')._claimed)))))
    # it is the block comment on the line next to the start token, with nothing but Placeholder tokens and one Newline in between
    ensures(implies(old(current) is None and result != None and not backwards, ShapeFwd(token_store, old(token_store.g_view), old(start.g_pos), token_store.g_ca, token_store.g_cb, result)))
    ensures(implies(old(current) is None and result != None and backwards, ShapeBwd(token_store, old(token_store.g_view), old(start.g_pos), token_store.g_ca, token_store.g_cb, result)))
    # the placeholders are moved behind (in front of) the pair newline + comment: same tokens, same length, everything else in place
    ensures(token_store.g_vlen == old(token_store.g_vlen) and AbsInv(token_store))
    ensures(implies(old(current) is None and result != None and not backwards,
                    forall(lambda k: sel(token_store.g_view, k) == sel(old(token_store.g_view),
                        ite(k <= old(start.g_pos) or k > old(start.g_pos) + 2 + token_store.g_ca + token_store.g_cb, k,
                        ite(k == old(start.g_pos) + 1, old(start.g_pos) + 1 + token_store.g_ca,
                        ite(k == old(start.g_pos) + 2, old(start.g_pos) + 2 + token_store.g_ca + token_store.g_cb,
                        ite(k < old(start.g_pos) + 3 + token_store.g_ca, k - 2, k - 1))))))))
    ensures(implies(old(current) is None and result != None and backwards,
                    forall(lambda k: sel(token_store.g_view, k) == sel(old(token_store.g_view),
                        ite(k >= old(start.g_pos) or k < old(start.g_pos) - 2 - token_store.g_ca - token_store.g_cb, k,
                        ite(k == old(start.g_pos) - 1, old(start.g_pos) - 1 - token_store.g_ca,
                        ite(k == old(start.g_pos) - 2, old(start.g_pos) - 2 - token_store.g_ca - token_store.g_cb,
                        ite(k < old(start.g_pos) - 2 - token_store.g_ca, k + 1, k + 2))))))))

# ================================================================ the four public methods of SurroundingCommentsMixin
# (_leading_comment / _trailing_comment are data fields: plain per-instance slots - assumption A-datafield)
@contract('RawModel.first_token')
def _(self):
    modifies()
    ensures(result is self.g_first and result != None)

@contract('RawModel.last_token')
def _(self):
    modifies()
    ensures(result is self.g_last and result != None)

@contract('RawTreeModel.token_store')
def _(self):
    modifies()
    ensures(result is self._token_store)

@macro
def Att(m):
    return m != None and m._token_store != None and AbsInv(m._token_store) and In(m._token_store, m.g_first) and In(m._token_store, m.g_last)

@contract('SurroundingCommentsMixin.claim_leading_comment')
def _(self, ignore_if_already_claimed):
    requires(Att(self))
    modifies('TokenStore.g_view@self._token_store', 'TokenStore.g_vlen@self._token_store', 'RawTokenModel.g_store', 'RawTokenModel.g_pos', 'BlockComment._claimed', 'list[RawTokenModel]@fresh',
             'TokenStore.g_ca@self._token_store', 'TokenStore.g_cb@self._token_store', 'SurroundingCommentsMixin._leading_comment@self')
    raises('ValueError', 'TokenStore.g_view', 'TokenStore.g_vlen', 'RawTokenModel.g_store', 'RawTokenModel.g_pos', 'BlockComment._claimed', 'SurroundingCommentsMixin._leading_comment')
    ensures(result is self._leading_comment and implies(old(self._leading_comment) != None, result is old(self._leading_comment)))
    ensures(implies(old(self._leading_comment) != None or result is None, self._token_store.g_view == old(self._token_store.g_view) and self._token_store.g_vlen == old(self._token_store.g_vlen)
                    and forall(lambda t: as_ref(t, 'BlockComment')._claimed == old(as_ref(t, 'BlockComment')._claimed))))
    ensures(implies(old(self._leading_comment) is None and result != None, old(as_ref(result, 'BlockComment')._claimed) == False and as_ref(result, 'BlockComment')._claimed == True
                    and forall(lambda t: implies(t != result, as_ref(t, 'BlockComment')._claimed == old(as_ref(t, 'BlockComment')._claimed)))
                    and ShapeBwd(self._token_store, old(self._token_store.g_view), old(self.g_first.g_pos), self._token_store.g_ca, self._token_store.g_cb, result)))
    ensures(self._token_store.g_vlen == old(self._token_store.g_vlen) and AbsInv(self._token_store))

@contract('SurroundingCommentsMixin.claim_trailing_comment')
def _(self, ignore_if_already_claimed):
    requires(Att(self))
    modifies('TokenStore.g_view@self._token_store', 'TokenStore.g_vlen@self._token_store', 'RawTokenModel.g_store', 'RawTokenModel.g_pos', 'BlockComment._claimed', 'list[RawTokenModel]@fresh',
             'TokenStore.g_ca@self._token_store', 'TokenStore.g_cb@self._token_store', 'SurroundingCommentsMixin._trailing_comment@self')
    raises('ValueError', 'TokenStore.g_view', 'TokenStore.g_vlen', 'RawTokenModel.g_store', 'RawTokenModel.g_pos', 'BlockComment._claimed', 'SurroundingCommentsMixin._trailing_comment')
    ensures(result is self._trailing_comment and implies(old(self._trailing_comment) != None, result is old(self._trailing_comment)))
    ensures(implies(old(self._trailing_comment) != None or result is None, self._token_store.g_view == old(self._token_store.g_view) and self._token_store.g_vlen == old(self._token_store.g_vlen)
                    and forall(lambda t: as_ref(t, 'BlockComment')._claimed == old(as_ref(t, 'BlockComment')._claimed))))
    ensures(implies(old(self._trailing_comment) is None and result != None, old(as_ref(result, 'BlockComment')._claimed) == False and as_ref(result, 'BlockComment')._claimed == True
                    and forall(lambda t: implies(t != result, as_ref(t, 'BlockComment')._claimed == old(as_ref(t, 'BlockComment')._claimed)))
                    and ShapeFwd(self._token_store, old(self._token_store.g_view), old(self.g_last.g_pos), self._token_store.g_ca, self._token_store.g_cb, result)))
    ensures(self._token_store.g_vlen == old(self._token_store.g_vlen) and AbsInv(self._token_store))

# releasing: only the owner's slot and that comment's flag change - no token moves
@contract('SurroundingCommentsMixin.unclaim_leading_comment')
def _(self):
    requires(self != None)
    modifies('BlockComment._claimed@self._leading_comment', 'SurroundingCommentsMixin._leading_comment@self')
    ensures(result is old(self._leading_comment) and self._leading_comment is None and implies(result != None, as_ref(result, 'BlockComment')._claimed == False))

@contract('SurroundingCommentsMixin.unclaim_trailing_comment')
def _(self):
    requires(self != None)
    modifies('BlockComment._claimed@self._trailing_comment', 'SurroundingCommentsMixin._trailing_comment@self')
    ensures(result is old(self._trailing_comment) and self._trailing_comment is None and implies(result != None, as_ref(result, 'BlockComment')._claimed == False))
