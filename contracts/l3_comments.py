"""Contracts for models/internal/surrounding_comments.py (C14, C04): the scanning helper of comment claiming.
The successor callable is an arbitrary total function (ghost array), chain(succ, x, k) its k-fold application."""

UFUNS = {'chain': ['IARR', 'int', 'int', 'int']}
AXIOMS = [
    forall(lambda A_f, x: chain(A_f, x, 0) == x, chain(A_f, x, 0)),
    forall(lambda A_f, x, k: implies(k >= 0, chain(A_f, x, k + 1) == sel(A_f, chain(A_f, x, k))), chain(A_f, x, k + 1)),
]

# skips exactly the run of Placeholder tokens in front of `token` (nothing else - in particular no Eol / DedentMark / Indent mark, which delimit
# indentation classes), appends them in order to `ignored`, and returns the first token that is not a Placeholder (or None at the end)
@contract('_take_ignored')
def _(token, succ, ignored):
    types(succ='IARR', succ__ret='RawTokenModel')
    requires(ignored != None)
    modifies('list[RawTokenModel]@ignored')
    invariant(0, token == chain(succ, old(token), K) and len(ignored) == old(len(ignored)) + K
                 and forall(lambda k: implies(0 <= k and k < K, isinstance(as_ref(chain(succ, old(token), k), 'RawTokenModel'), Placeholder) and ignored[old(len(ignored)) + k] == chain(succ, old(token), k)), chain(succ, old(token), k))
                 and forall(lambda k: implies(0 <= k and k < old(len(ignored)), ignored[k] == old(ignored[k])), ignored[k]))
    ensures(result == chain(succ, old(token), K_loop0) and not isinstance(result, Placeholder))
    ensures(len(ignored) == old(len(ignored)) + K_loop0)
    ensures(forall(lambda k: implies(0 <= k and k < K_loop0, isinstance(as_ref(chain(succ, old(token), k), 'RawTokenModel'), Placeholder) and ignored[old(len(ignored)) + k] == chain(succ, old(token), k)), chain(succ, old(token), k)))
    ensures(forall(lambda k: implies(0 <= k and k < old(len(ignored)), ignored[k] == old(ignored[k])), ignored[k]))
