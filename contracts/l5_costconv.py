"""Contracts for models/cost.py (C09, C03): converting a unit cost {...} into a total cost {{...}} and back replaces exactly the two brace tokens in place
(same positions, same length, everything else untouched) and returns a model over the SAME component list in the same store."""

@macro
def AbsInv(s):
    return (s.g_vlen >= 0
        and forall(lambda k: implies(0 <= k and k < s.g_vlen, allocated(as_ref(sel(s.g_view, k), 'RawTokenModel')) and as_ref(sel(s.g_view, k), 'RawTokenModel').g_store is s and as_ref(sel(s.g_view, k), 'RawTokenModel').g_pos == k), sel(s.g_view, k)))

@macro
def In(s, t):
    return t != None and t.g_store is s and 0 <= t.g_pos and t.g_pos < s.g_vlen and sel(s.g_view, t.g_pos) is t

# abstract store: replace one token by a free one at the same position (restates the L0 contract of TokenStore.replace)
@contract('TokenStore.replace')
def _(self, token, repl):
    requires(AbsInv(self) and In(self, token) and repl != None and repl.g_store is None)
    modifies('TokenStore.g_view@self', 'RawTokenModel.g_store@token', 'RawTokenModel.g_store@repl', 'RawTokenModel.g_pos@repl')
    ensures(self.g_vlen == old(self.g_vlen) and AbsInv(self) and token.g_store is None
            and forall(lambda k: sel(self.g_view, k) == ite(k == old(token.g_pos), repl, sel(old(self.g_view), k))))

@contract('LeftBrace.from_default')
def _(cls):
    modifies('RawTokenModel.g_store@fresh', 'RawTokenModel.g_pos@fresh')
    ensures(result != None and fresh(result) and result.g_store is None)
@contract('RightBrace.from_default')
def _(cls):
    modifies('RawTokenModel.g_store@fresh', 'RawTokenModel.g_pos@fresh')
    ensures(result != None and fresh(result) and result.g_store is None)
@contract('DblLeftBrace.from_default')
def _(cls):
    modifies('RawTokenModel.g_store@fresh', 'RawTokenModel.g_pos@fresh')
    ensures(result != None and fresh(result) and result.g_store is None)
@contract('DblRightBrace.from_default')
def _(cls):
    modifies('RawTokenModel.g_store@fresh', 'RawTokenModel.g_pos@fresh')
    ensures(result != None and fresh(result) and result.g_store is None)

@contract('UnitCostGenerated.token_store')
def _(self):
    modifies()
    ensures(result is self._token_store)
@contract('TotalCostGenerated.token_store')
def _(self):
    modifies()
    ensures(result is self._token_store)

# generated constructors store their arguments in the slots (l4.templates checks the generated classes' slot tables)
@contract('UnitCostGenerated.__init__')
def _(self, token_store, left_brace, components, right_brace):
    modifies('UnitCostGenerated._token_store@self', 'UnitCostGenerated._left_brace@self', 'UnitCostGenerated._components@self', 'UnitCostGenerated._right_brace@self')
    ensures(self._token_store is token_store and self._left_brace is left_brace and self._components is components and self._right_brace is right_brace)
@contract('TotalCostGenerated.__init__')
def _(self, token_store, dbl_left_brace, components, dbl_right_brace):
    modifies('TotalCostGenerated._token_store@self', 'TotalCostGenerated._dbl_left_brace@self', 'TotalCostGenerated._components@self', 'TotalCostGenerated._dbl_right_brace@self')
    ensures(self._token_store is token_store and self._dbl_left_brace is dbl_left_brace and self._components is components and self._dbl_right_brace is dbl_right_brace)

@contract('UnitCost.into_total_cost')
def _(self):
    requires(self != None and self._token_store != None and AbsInv(self._token_store) and In(self._token_store, self._left_brace) and In(self._token_store, self._right_brace)
             and self._left_brace.g_pos < self._right_brace.g_pos)
    modifies('TokenStore.g_view@self._token_store', 'RawTokenModel.g_store', 'RawTokenModel.g_pos@fresh',
             'TotalCostGenerated._token_store@fresh', 'TotalCostGenerated._dbl_left_brace@fresh', 'TotalCostGenerated._components@fresh', 'TotalCostGenerated._dbl_right_brace@fresh')
    ensures(result != None and fresh(result) and result._token_store is self._token_store and result._components is self._components)
    ensures(fresh(result._dbl_left_brace) and fresh(result._dbl_right_brace) and In(self._token_store, result._dbl_left_brace) and In(self._token_store, result._dbl_right_brace)
            and result._dbl_left_brace.g_pos == old(self._left_brace.g_pos) and result._dbl_right_brace.g_pos == old(self._right_brace.g_pos))
    ensures(self._token_store.g_vlen == old(self._token_store.g_vlen) and AbsInv(self._token_store)
            and forall(lambda k: implies(k != old(self._left_brace.g_pos) and k != old(self._right_brace.g_pos), sel(self._token_store.g_view, k) == sel(old(self._token_store.g_view), k))))
    ensures(self._left_brace.g_store is None and self._right_brace.g_store is None)

@contract('TotalCost.into_unit_cost')
def _(self):
    requires(self != None and self._token_store != None and AbsInv(self._token_store) and In(self._token_store, self._dbl_left_brace) and In(self._token_store, self._dbl_right_brace)
             and self._dbl_left_brace.g_pos < self._dbl_right_brace.g_pos)
    modifies('TokenStore.g_view@self._token_store', 'RawTokenModel.g_store', 'RawTokenModel.g_pos@fresh',
             'UnitCostGenerated._token_store@fresh', 'UnitCostGenerated._left_brace@fresh', 'UnitCostGenerated._components@fresh', 'UnitCostGenerated._right_brace@fresh')
    ensures(result != None and fresh(result) and result._token_store is self._token_store and result._components is self._components)
    ensures(fresh(result._left_brace) and fresh(result._right_brace) and In(self._token_store, result._left_brace) and In(self._token_store, result._right_brace)
            and result._left_brace.g_pos == old(self._dbl_left_brace.g_pos) and result._right_brace.g_pos == old(self._dbl_right_brace.g_pos))
    ensures(self._token_store.g_vlen == old(self._token_store.g_vlen) and AbsInv(self._token_store)
            and forall(lambda k: implies(k != old(self._dbl_left_brace.g_pos) and k != old(self._dbl_right_brace.g_pos), sel(self._token_store.g_view, k) == sel(old(self._token_store.g_view), k))))
    ensures(self._dbl_left_brace.g_store is None and self._dbl_right_brace.g_store is None)
