"""Contracts for models/internal/repeated.py (C05, C11, C20): the container behind every repeated field.
clone / reattach / __eq__ of the items are virtual (one contract on RawModel): CLONE, REATT, EQ are uninterpreted."""

UFUNS = {'CLONE': ['int', 'int', 'int', 'int'], 'REATT': ['int', 'int', 'int', 'int'], 'EQ': ['int', 'int', 'bool'], 'LASTTOK': ['int', 'int']}

@contract('RawModel.clone')
def _(self, token_store, token_transformer):
    modifies()
    functional('CLONE')

@contract('RawModel.reattach')
def _(self, token_store, token_transformer):
    modifies()
    functional('REATT')

@contract('RawModel.last_token')
def _(self):
    modifies()
    ensures(result == LASTTOK(self) and result != None)

@macro
def Items(r):
    return r != None and r.items != None and forall(lambda k: implies(0 <= k and k < len(r.items), r.items[k] != None), r.items[k])

# the item list of a Repeated is its own: never the caller's list (two trees must not share it)
@contract('Repeated.__init__')
def _(self, token_store, items, placeholder):
    requires(items != None)
    modifies('RawTreeModel._token_store@self', 'Repeated.items@self', 'Repeated._placeholder@self', 'list[RawModel]@fresh')
    ensures(self._token_store is token_store and self._placeholder is placeholder)
    ensures(self.items != None and fresh(self.items) and self.items is not items and len(self.items) == len(items)
            and forall(lambda k: implies(0 <= k and k < len(items), self.items[k] == items[k]), self.items[k]))

@contract('Repeated.first_token')
def _(self):
    requires(self != None)
    modifies()
    ensures(result is self._placeholder)

@contract('Repeated.last_token')
def _(self):
    requires(Items(self))
    modifies()
    ensures(result == ite(len(self.items) > 0, LASTTOK(self.items[len(self.items) - 1]), self._placeholder))

@contract('Repeated._eq')
def _(self, other):
    types(other='Repeated')
    requires(Items(self) and (other is None or other.items != None))
    modifies()
    ensures(result == (other != None and len(self.items) == len(other.items) and forall(lambda k: implies(0 <= k and k < len(self.items), EQ(self.items[k], other.items[k])))))

@contract('Repeated.clone')
def _(self, token_store, token_transformer):
    requires(Items(self) and self._placeholder != None)
    modifies('RawTreeModel._token_store@fresh', 'Repeated.items@fresh', 'Repeated._placeholder@fresh', 'list[RawModel]@fresh')
    ensures(result != None and fresh(result) and result._token_store is token_store and result._placeholder == CLONE(self._placeholder, token_store, token_transformer))
    ensures(result.items != None and fresh(result.items) and result.items is not self.items and len(result.items) == len(self.items)
            and forall(lambda k: implies(0 <= k and k < len(self.items), result.items[k] == CLONE(self.items[k], token_store, token_transformer)), result.items[k]))

@contract('Repeated._reattach')
def _(self, token_store, token_transformer):
    requires(Items(self) and self._placeholder != None)
    modifies('RawTreeModel._token_store@self', 'Repeated.items@self', 'Repeated._placeholder@self', 'list[RawModel]@fresh')
    ensures(self._token_store is token_store and self._placeholder == REATT(old(self._placeholder), token_store, token_transformer))
    ensures(self.items != None and len(self.items) == old(len(self.items))
            and forall(lambda k: implies(0 <= k and k < len(self.items), self.items[k] == REATT(old(self.items[k]), token_store, token_transformer)), self.items[k]))
