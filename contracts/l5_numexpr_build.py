"""Contracts for NumberAddExpr.from_children / NumberMulExpr.from_children (C15, C05): the new expression owns a fresh store and EVERY operand and EVERY operator has been
reattached to that store (a child left behind would still point at its old, emptied store). Token movement itself (detach / from_tokens) is abstract here."""

@contract('RawModel.detach')
def _(self):
    modifies()
    ensures(result != None and fresh(result))

@contract('RawModel.reattach')
def _(self, token_store):
    requires(self != None)
    modifies('RawModel.g_ts@self')
    ensures(self.g_ts is token_store)

@contract('RawTokenModel.from_default')
def _(cls):
    modifies('RawTokenModel._raw_text@fresh')
    ensures(result != None and fresh(result))

@contract('TokenStore.from_tokens')
def _(cls, tokens):
    modifies()
    ensures(result != None and fresh(result))

@macro
def NonNull(l):
    return l != None and forall(lambda k: implies(0 <= k and k < len(l), l[k] != None), l[k])

@contract('NumberAddExpr.from_children')
def _(cls, operands, ops):
    types(operands='list[NumberMulExpr]', ops='list[RawTokenModel]', tokens='list[RawTokenModel]')
    requires(NonNull(operands) and NonNull(ops) and len(operands) == len(ops) + 1)
    modifies('RawModel.g_ts', 'list[RawTokenModel]@fresh', 'RawTokenModel._raw_text@fresh', 'RawTreeModel._token_store@fresh', 'NumberAddExpr._raw_operands@fresh', 'NumberAddExpr._raw_ops@fresh',
             'list[AddOp]@ops')      # (engine: passing `ops` to the constructor re-types the same sequence as tuple[AddOp, ...])
    invariant(1, token_store is pre(token_store) and forall(lambda k: implies(0 <= k and k < K, operands[k].g_ts is token_store), operands[k]))
    invariant(2, token_store is pre(token_store) and forall(lambda k: implies(0 <= k and k < len(operands), operands[k].g_ts is token_store), operands[k])
                 and forall(lambda k: implies(0 <= k and k < K, ops[k].g_ts is token_store), ops[k]))
    ensures(result != None and fresh(result) and result._token_store != None and fresh(result._token_store))
    ensures(forall(lambda k: implies(0 <= k and k < len(operands), operands[k].g_ts is result._token_store), operands[k]))
    ensures(forall(lambda k: implies(0 <= k and k < len(ops), ops[k].g_ts is result._token_store), ops[k]))
    ensures(result._raw_operands is operands and result._raw_ops is ops)

@contract('NumberMulExpr.from_children')
def _(cls, operands, ops):
    types(operands='list[NumberAtomExpr]', ops='list[RawTokenModel]', tokens='list[RawTokenModel]')
    requires(NonNull(operands) and NonNull(ops) and len(operands) == len(ops) + 1)
    modifies('RawModel.g_ts', 'list[RawTokenModel]@fresh', 'RawTokenModel._raw_text@fresh', 'RawTreeModel._token_store@fresh', 'NumberMulExpr._raw_operands@fresh', 'NumberMulExpr._raw_ops@fresh',
             'list[MulOp]@ops')
    invariant(1, token_store is pre(token_store) and forall(lambda k: implies(0 <= k and k < K, operands[k].g_ts is token_store), operands[k]))
    invariant(2, token_store is pre(token_store) and forall(lambda k: implies(0 <= k and k < len(operands), operands[k].g_ts is token_store), operands[k])
                 and forall(lambda k: implies(0 <= k and k < K, ops[k].g_ts is token_store), ops[k]))
    ensures(result != None and fresh(result) and result._token_store != None and fresh(result._token_store))
    ensures(forall(lambda k: implies(0 <= k and k < len(operands), operands[k].g_ts is result._token_store), operands[k]))
    ensures(forall(lambda k: implies(0 <= k and k < len(ops), ops[k].g_ts is result._token_store), ops[k]))
    ensures(result._raw_operands is operands and result._raw_ops is ops)

# ---- clone of a product / a sum: operand k of the copy is the clone of operand k, operator k the clone of operator k - same order (C11)
UFUNS = {'CLONE': ['int', 'int', 'int', 'int']}

@contract('RawModel.clone')
def _(self, token_store, token_transformer):
    modifies()
    functional('CLONE')

@contract('NumberMulExpr.clone')
def _(self, token_store, token_transformer):
    functional('CLONE')      # (names the result for the pointwise description of NumberAddExpr.clone; CLONE is uninterpreted)
    requires(self != None and NonNull(self._raw_operands) and NonNull(self._raw_ops))
    modifies('RawTreeModel._token_store@fresh', 'NumberMulExpr._raw_operands@fresh', 'NumberMulExpr._raw_ops@fresh', 'list[NumberAtomExpr]@fresh', 'list[MulOp]@fresh')
    ensures(result != None and fresh(result) and result._token_store is token_store)
    ensures(len(result._raw_operands) == len(self._raw_operands) and forall(lambda k: implies(0 <= k and k < len(self._raw_operands), result._raw_operands[k] == CLONE(self._raw_operands[k], token_store, token_transformer)), result._raw_operands[k]))
    ensures(len(result._raw_ops) == len(self._raw_ops) and forall(lambda k: implies(0 <= k and k < len(self._raw_ops), result._raw_ops[k] == CLONE(self._raw_ops[k], token_store, token_transformer)), result._raw_ops[k]))

@contract('NumberAddExpr.clone')
def _(self, token_store, token_transformer):
    requires(self != None and NonNull(self._raw_operands) and NonNull(self._raw_ops))
    modifies('RawTreeModel._token_store@fresh', 'NumberAddExpr._raw_operands@fresh', 'NumberAddExpr._raw_ops@fresh', 'list[NumberMulExpr]@fresh', 'list[AddOp]@fresh')
    ensures(result != None and fresh(result) and result._token_store is token_store)
    ensures(len(result._raw_operands) == len(self._raw_operands) and forall(lambda k: implies(0 <= k and k < len(self._raw_operands), result._raw_operands[k] == CLONE(self._raw_operands[k], token_store, token_transformer)), result._raw_operands[k]))
    ensures(len(result._raw_ops) == len(self._raw_ops) and forall(lambda k: implies(0 <= k and k < len(self._raw_ops), result._raw_ops[k] == CLONE(self._raw_ops[k], token_store, token_transformer)), result._raw_ops[k]))
