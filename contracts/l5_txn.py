"""Contracts for the dependent pair payee / narration of models/transaction.py (C09): the written value is the value read back; the other one is left alone
except for the one documented coupling - a payee needs a narration, so an empty narration is created (never an existing one replaced, never the payee touched)."""

@contract('EscapedString.from_value')
def _(cls, value):
    modifies('EscapedString.g_val@fresh')
    ensures(result != None and fresh(result) and result.g_val == value)

@macro
def CanonT(t):      # a transaction with a payee has a narration
    return t != None and implies(t.raw_string1 != None, t.raw_string2 != None)

@contract('Transaction.raw_payee')
def _(self):
    requires(self != None)
    modifies()
    ensures(result is self.raw_string1)

@contract('Transaction.raw_narration')
def _(self):
    requires(self != None)
    modifies()
    ensures(result is self.raw_string2)

@contract('Transaction.__raw_payee.setter')
def _(self, value):
    requires(CanonT(self))
    modifies('TransactionGenerated.raw_string1@self', 'TransactionGenerated.raw_string2@self', 'EscapedString.g_val@fresh')
    ensures(CanonT(self) and self.raw_string1 is value and self.raw_string0 is old(self.raw_string0))
    # the narration is kept; only when there was none and a payee arrives an EMPTY one is created
    ensures(implies(old(self.raw_string2) != None or value is None, self.raw_string2 is old(self.raw_string2)))
    ensures(implies(old(self.raw_string2) is None and value != None, fresh(self.raw_string2) and self.raw_string2.g_val == ''))

@contract('Transaction.__raw_narration.setter')
def _(self, value):
    requires(CanonT(self))
    modifies('TransactionGenerated.raw_string2@self', 'EscapedString.g_val@fresh')
    ensures(CanonT(self) and self.raw_string1 is old(self.raw_string1) and self.raw_string0 is old(self.raw_string0))
    # the narration becomes the value - except that removing it under a payee leaves an EMPTY narration instead
    ensures(implies(value != None or old(self.raw_string1) is None, self.raw_string2 is value))
    ensures(implies(value is None and old(self.raw_string1) != None, fresh(self.raw_string2) and self.raw_string2.g_val == ''))
