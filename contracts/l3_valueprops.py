"""Contracts for the value-level descriptors of models/internal/value_properties.py (C09: a value assigned through a property is the value read back).
The raw descriptor a value descriptor delegates to is abstract: `g_slot` maps an instance to the node it currently holds there (None: absent).
A node carries its value in `g_val` (and, for comments, its indentation in `g_indent`). Values are opaque objects: nothing is known about
their truthiness (zero, the empty string and False are in the domain and falsy), only whether they are None."""

@macro
def Slot(p, instance):
    return as_ref(sel(p.g_slot, instance), 'RWValue')

# ---------------------------------------------------------------- assumed: the raw descriptors and the node classes (proved elsewhere: l2.fields / l1.tokens / l4.templates)
@contract('InnerRO.__get__')
def _(self, instance):
    requires(self != None)
    modifies()
    ensures(result is Slot(self, instance))

@contract('InnerRW.__set__')
def _(self, instance, value):
    requires(self != None)
    modifies('InnerRO.g_slot@self')
    ensures(self.g_slot == upd(old(self.g_slot), instance, value))

@contract('RWValue.value')
def _(self):
    requires(self != None)
    modifies()
    ensures(result is self.g_val)

@contract('RWValue.value.setter')
def _(self, value):
    requires(self != None)
    modifies('RWValue.g_val@self')
    ensures(self.g_val is value)

@contract('RWValueType.from_value')
def _(self, value):
    requires(value != None)
    modifies('RWValue.g_val@fresh', 'RWValue.g_indent@fresh')
    ensures(result != None and fresh(result) and result.g_val is value)

@contract('RWValueWithIndentType.from_value')
def _(self, value, indent):
    requires(value != None)
    modifies('RWValue.g_val@fresh', 'RWValue.g_indent@fresh')
    ensures(result != None and fresh(result) and result.g_val is value and result.g_indent == indent)

@contract('IndentRO.__get__')
def _(self, instance):
    modifies()
    ensures(result != None)

@contract('IndentToken.value')
def _(self):
    modifies()
    ensures(result == self.g_text)

# ---------------------------------------------------------------- read: the value of the node in the slot, None when the slot is empty
@macro
def Reads(p, instance):
    return ite(Slot(p, instance) != None, Slot(p, instance).g_val, None)

@contract('required_value_property._get')
def _(self, instance):
    requires(self != None and self._inner_property != None and Slot(self._inner_property, instance) != None)
    modifies()
    ensures(result is Slot(self._inner_property, instance).g_val)

@contract('required_value_property.__set__')
def _(self, instance, value):
    types(value='object')
    requires(self != None and self._inner_property != None and Slot(self._inner_property, instance) != None)
    modifies('RWValue.g_val@Slot(self._inner_property, instance)')
    ensures(Slot(self._inner_property, instance).g_val is value)

# ---------------------------------------------------------------- write: afterwards the property reads the assigned value - for EVERY value, falsy ones included;
# an existing node is updated in place (same node), an absent one is created, None empties the slot; no other instance's slot and no other node's value changes
@macro
def Written(p, instance, value):
    return (p.g_slot == upd(old(p.g_slot), instance, Slot(p, instance))
        and ite(value == None, Slot(p, instance) == None,
                Slot(p, instance) != None and Slot(p, instance).g_val is value
                and (old(Slot(p, instance)) == None or Slot(p, instance) is old(Slot(p, instance)))
                and (old(Slot(p, instance)) != None or fresh(Slot(p, instance)))))

@contract('optional_string_property._get')
def _(self, instance):
    requires(self != None and self._inner_property != None)
    modifies()
    ensures(result is Reads(self._inner_property, instance))

@contract('optional_string_property.__set__')
def _(self, instance, value):
    types(value='object')
    requires(self != None and self._inner_property != None and self._inner_type != None)
    modifies('InnerRO.g_slot@self._inner_property', 'RWValue.g_val@Slot(self._inner_property, instance)', 'RWValue.g_val@fresh', 'RWValue.g_indent@fresh')
    ensures(Written(self._inner_property, instance, value))

@contract('optional_decimal_property._get')
def _(self, instance):
    requires(self != None and self._inner_property != None)
    modifies()
    ensures(result is Reads(self._inner_property, instance))

@contract('optional_decimal_property.__set__')
def _(self, instance, value):
    types(value='object')
    requires(self != None and self._inner_property != None and self._inner_type != None)
    modifies('InnerRO.g_slot@self._inner_property', 'RWValue.g_val@Slot(self._inner_property, instance)', 'RWValue.g_val@fresh', 'RWValue.g_indent@fresh')
    ensures(Written(self._inner_property, instance, value))

@contract('optional_date_property._get')
def _(self, instance):
    requires(self != None and self._inner_property != None)
    modifies()
    ensures(result is Reads(self._inner_property, instance))

@contract('optional_date_property.__set__')
def _(self, instance, value):
    types(value='object')
    requires(self != None and self._inner_property != None and self._inner_type != None)
    modifies('InnerRO.g_slot@self._inner_property', 'RWValue.g_val@Slot(self._inner_property, instance)', 'RWValue.g_val@fresh', 'RWValue.g_indent@fresh')
    ensures(Written(self._inner_property, instance, value))

# comments of indented models: a created comment takes the owner's indentation at that moment (C18)
@contract('optional_indented_string_property._get')
def _(self, instance):
    requires(self != None and self._inner_property != None)
    modifies()
    ensures(result is Reads(self._inner_property, instance))

@contract('optional_indented_string_property.__set__')
def _(self, instance, value):
    types(value='object')
    requires(self != None and self._inner_property != None and self._inner_type != None and self._indent_property != None)
    modifies('InnerRO.g_slot@self._inner_property', 'RWValue.g_val@Slot(self._inner_property, instance)', 'RWValue.g_val@fresh', 'RWValue.g_indent@fresh')
    ensures(Written(self._inner_property, instance, value))
