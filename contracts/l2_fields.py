@macro
def AbsInv(s):
    return (s.g_vlen >= 0
        and forall(lambda k: implies(0 <= k and k < s.g_vlen, sel(s.g_view, k) != None and as_ref(sel(s.g_view, k), 'RawTokenModel').g_store is s and as_ref(sel(s.g_view, k), 'RawTokenModel').g_pos == k), sel(s.g_view, k)))

@macro
def In(s, t):
    return t != None and t.g_store is s and 0 <= t.g_pos and t.g_pos < s.g_vlen and sel(s.g_view, t.g_pos) is t

@contract('TokenStore.get_next')
def _(self, token):
    requires(AbsInv(self) and In(self, token))
    modifies()
    ensures(implies(token.g_pos + 1 < self.g_vlen, result is sel(self.g_view, token.g_pos + 1)))
    ensures(implies(token.g_pos + 1 >= self.g_vlen, result is None))

@contract('TokenStore.get_prev')
def _(self, token):
    requires(AbsInv(self) and In(self, token))
    modifies()
    ensures(implies(token.g_pos > 0, result is sel(self.g_view, token.g_pos - 1)))
    ensures(implies(token.g_pos == 0, result is None))

@contract('TokenStore.remove')
def _(self, start, end):
    requires(AbsInv(self) and In(self, start) and In(self, end) and start.g_pos <= end.g_pos)
    modifies('TokenStore.g_view', 'TokenStore.g_vlen', 'RawTokenModel.g_store', 'RawTokenModel.g_pos')
    ensures(self.g_vlen == old(self.g_vlen) - (old(end.g_pos) - old(start.g_pos) + 1))
    ensures(forall(lambda k: sel(self.g_view, k) == ite(k < old(start.g_pos), sel(old(self.g_view), k), sel(old(self.g_view), k + (old(end.g_pos) - old(start.g_pos) + 1)))))
    ensures(AbsInv(self))
    ensures(forall(lambda k: implies(old(start.g_pos) <= k and k <= old(end.g_pos), as_ref(sel(old(self.g_view), k), 'RawTokenModel').g_store is None)))

@contract('RawModel.last_token')
def _(self):
    modifies()
    ensures(result is self.g_last and result != None)

@contract('RawModel.first_token')
def _(self):
    modifies()
    ensures(result is self.g_first and result != None)

@contract('optional_left_field._remove_node')
def _(self, token_store, pivot, current):
    requires(token_store != None and current != None and AbsInv(token_store) and In(token_store, pivot) and In(token_store, current.g_last) and pivot.g_pos < current.g_last.g_pos)
    ensures(token_store.g_vlen == old(token_store.g_vlen) - (old(current.g_last.g_pos) - old(pivot.g_pos)))
    ensures(forall(lambda k: sel(token_store.g_view, k) == ite(k <= old(pivot.g_pos), sel(old(token_store.g_view), k), sel(old(token_store.g_view), k + (old(current.g_last.g_pos) - old(pivot.g_pos))))))
    ensures(AbsInv(token_store))

@contract('optional_right_field._remove_node')
def _(self, token_store, pivot, current):
    requires(token_store != None and current != None and AbsInv(token_store) and In(token_store, pivot) and In(token_store, current.g_first) and current.g_first.g_pos < pivot.g_pos)
    ensures(token_store.g_vlen == old(token_store.g_vlen) - (old(pivot.g_pos) - old(current.g_first.g_pos)))
    ensures(forall(lambda k: sel(token_store.g_view, k) == ite(k < old(current.g_first.g_pos), sel(old(token_store.g_view), k), sel(old(token_store.g_view), k + (old(pivot.g_pos) - old(current.g_first.g_pos))))))
    ensures(AbsInv(token_store))

@contract('RawModel.detach')
def _(self):
    requires(self != None and implies(self.g_ts != None, AbsInv(self.g_ts)))
    modifies('TokenStore.g_view', 'TokenStore.g_vlen', 'RawTokenModel.g_store', 'RawTokenModel.g_pos')
    ensures(result != None and fresh(result) and len(result) >= 1)
    ensures(forall(lambda k: implies(0 <= k and k < len(result), result[k] != None and allocated(result[k]) and result[k].g_store is None), result[k]))
    ensures(forall(lambda j, k: implies(0 <= j and j < k and k < len(result), result[j] != result[k])))
    ensures(implies(old(self.g_ts) is None, len(result) == 1 and result[0] is self))
    ensures(implies(old(self.g_ts) != None, forall(lambda k: implies(0 <= k and k < len(result), old(as_ref(sel(elems(result), k), 'RawTokenModel').g_store) is old(self.g_ts)), result[k])))
    ensures(forall(lambda t: implies(old(as_ref(t, 'RawTokenModel').g_store) is None, as_ref(t, 'RawTokenModel').g_store is None)))
    ensures(forall(lambda s: implies(as_ref(s, 'TokenStore') is not old(self.g_ts), as_ref(s, 'TokenStore').g_view == old(as_ref(s, 'TokenStore').g_view) and as_ref(s, 'TokenStore').g_vlen == old(as_ref(s, 'TokenStore').g_vlen))))
    ensures(forall(lambda t: implies(old(as_ref(t, 'RawTokenModel').g_store) is not old(self.g_ts), as_ref(t, 'RawTokenModel').g_store is old(as_ref(t, 'RawTokenModel').g_store) and as_ref(t, 'RawTokenModel').g_pos == old(as_ref(t, 'RawTokenModel').g_pos))))

@contract('RawModel.reattach')
def _(self, token_store):
    modifies('RawModel.g_ts')
    ensures(self.g_ts is token_store and result is self)

@contract('TokenStore.insert_after')
def _(self, ref, tokens):
    requires(AbsInv(self) and (ref is None or In(self, ref)) and tokens != None)
    requires(forall(lambda k: implies(0 <= k and k < len(tokens), tokens[k] != None and tokens[k].g_store is None), tokens[k]))
    requires(forall(lambda j, k: implies(0 <= j and j < k and k < len(tokens), tokens[j] != tokens[k])))
    modifies('TokenStore.g_view', 'TokenStore.g_vlen', 'RawTokenModel.g_store', 'RawTokenModel.g_pos')
    ensures(self.g_vlen == old(self.g_vlen) + len(tokens))
    ensures(forall(lambda k: sel(self.g_view, k) == ite(k < old(ite(ref is None, 0, ref.g_pos + 1)), sel(old(self.g_view), k),
                    ite(k < old(ite(ref is None, 0, ref.g_pos + 1)) + len(tokens), sel(elems(tokens), k - old(ite(ref is None, 0, ref.g_pos + 1))), sel(old(self.g_view), k - len(tokens))))))
    ensures(AbsInv(self))

@contract('optional_left_field._create_node')
def _(self, token_store, pivot, value):
    requires(token_store != None and value != None and self != None and self._separators != None and AbsInv(token_store) and In(token_store, pivot))
    requires(value.g_ts is not token_store and implies(value.g_ts != None, AbsInv(value.g_ts)))
    ensures(token_store.g_vlen >= old(token_store.g_vlen) + len(self._separators) + 1)
    ensures(forall(lambda k: implies(0 <= k and k <= old(pivot.g_pos), sel(token_store.g_view, k) == sel(old(token_store.g_view), k))))
    ensures(forall(lambda k: implies(old(pivot.g_pos) < k and k < old(token_store.g_vlen), sel(token_store.g_view, k + (token_store.g_vlen - old(token_store.g_vlen))) == sel(old(token_store.g_view), k))))
    ensures(AbsInv(token_store) and value.g_ts is token_store)

@contract('TokenStore.insert_before')
def _(self, ref, tokens):
    requires(AbsInv(self) and (ref is None or In(self, ref)) and tokens != None)
    requires(forall(lambda k: implies(0 <= k and k < len(tokens), tokens[k] != None and tokens[k].g_store is None), tokens[k]))
    requires(forall(lambda j, k: implies(0 <= j and j < k and k < len(tokens), tokens[j] != tokens[k])))
    modifies('TokenStore.g_view', 'TokenStore.g_vlen', 'RawTokenModel.g_store', 'RawTokenModel.g_pos')
    ensures(self.g_vlen == old(self.g_vlen) + len(tokens))
    ensures(forall(lambda k: sel(self.g_view, k) == ite(k < old(ite(ref is None, 0, ref.g_pos)), sel(old(self.g_view), k),
                    ite(k < old(ite(ref is None, 0, ref.g_pos)) + len(tokens), sel(elems(tokens), k - old(ite(ref is None, 0, ref.g_pos))), sel(old(self.g_view), k - len(tokens))))))
    ensures(AbsInv(self))

@contract('optional_right_field._create_node')
def _(self, token_store, pivot, value):
    requires(token_store != None and value != None and self != None and self._separators != None and AbsInv(token_store) and In(token_store, pivot))
    requires(value.g_ts is not token_store and implies(value.g_ts != None, AbsInv(value.g_ts)))
    ensures(token_store.g_vlen >= old(token_store.g_vlen) + len(self._separators) + 1)
    ensures(forall(lambda k: implies(0 <= k and k < old(pivot.g_pos), sel(token_store.g_view, k) == sel(old(token_store.g_view), k))))
    ensures(forall(lambda k: implies(old(pivot.g_pos) <= k and k < old(token_store.g_vlen), sel(token_store.g_view, k + (token_store.g_vlen - old(token_store.g_vlen))) == sel(old(token_store.g_view), k))))
    ensures(AbsInv(token_store) and value.g_ts is token_store)
