@macro
def AbsInv(s):
    return (s.g_vlen >= 0
        and forall(lambda k: implies(0 <= k and k < s.g_vlen, sel(s.g_view, k) != None and as_ref(sel(s.g_view, k), 'RawTokenModel').g_store is s and as_ref(sel(s.g_view, k), 'RawTokenModel').g_pos == k), sel(s.g_view, k)))

@macro
def In(s, t):
    return t != None and t.g_store is s and 0 <= t.g_pos and t.g_pos < s.g_vlen and sel(s.g_view, t.g_pos) is t

@contract('TokenStore.get_next')
def _(self, token):
    requires(AbsInv(self) and In(self, token))
    modifies()
    ensures(implies(token.g_pos + 1 < self.g_vlen, result is sel(self.g_view, token.g_pos + 1)))
    ensures(implies(token.g_pos + 1 >= self.g_vlen, result is None))

@contract('TokenStore.get_prev')
def _(self, token):
    requires(AbsInv(self) and In(self, token))
    modifies()
    ensures(implies(token.g_pos > 0, result is sel(self.g_view, token.g_pos - 1)))
    ensures(implies(token.g_pos == 0, result is None))

@contract('TokenStore.remove')
def _(self, start, end):
    requires(AbsInv(self) and In(self, start) and In(self, end) and start.g_pos <= end.g_pos)
    modifies('TokenStore.g_view@self', 'TokenStore.g_vlen@self', 'RawTokenModel.g_store', 'RawTokenModel.g_pos')
    ensures(self.g_vlen == old(self.g_vlen) - (old(end.g_pos) - old(start.g_pos) + 1))
    ensures(forall(lambda k: sel(self.g_view, k) == ite(k < old(start.g_pos), sel(old(self.g_view), k), sel(old(self.g_view), k + (old(end.g_pos) - old(start.g_pos) + 1)))))
    ensures(AbsInv(self))
    ensures(forall(lambda k: implies(old(start.g_pos) <= k and k <= old(end.g_pos), as_ref(sel(old(self.g_view), k), 'RawTokenModel').g_store is None)))

@contract('RawModel.token_store')
def _(self):
    modifies()
    ensures(result is self.g_ts)

@contract('RawModel.last_token')
def _(self):
    modifies()
    ensures(result is self.g_last and result != None)

@contract('RawModel.first_token')
def _(self):
    modifies()
    ensures(result is self.g_first and result != None)

@contract('optional_left_field._remove_node')
def _(self, token_store, pivot, current):
    requires(token_store != None and current != None and AbsInv(token_store) and In(token_store, pivot) and In(token_store, current.g_last) and pivot.g_pos < current.g_last.g_pos)
    ensures(token_store.g_vlen == old(token_store.g_vlen) - (old(current.g_last.g_pos) - old(pivot.g_pos)))
    ensures(forall(lambda k: sel(token_store.g_view, k) == ite(k <= old(pivot.g_pos), sel(old(token_store.g_view), k), sel(old(token_store.g_view), k + (old(current.g_last.g_pos) - old(pivot.g_pos))))))
    ensures(AbsInv(token_store))

@contract('optional_right_field._remove_node')
def _(self, token_store, pivot, current):
    requires(token_store != None and current != None and AbsInv(token_store) and In(token_store, pivot) and In(token_store, current.g_first) and current.g_first.g_pos < pivot.g_pos)
    ensures(token_store.g_vlen == old(token_store.g_vlen) - (old(pivot.g_pos) - old(current.g_first.g_pos)))
    ensures(forall(lambda k: sel(token_store.g_view, k) == ite(k < old(current.g_first.g_pos), sel(old(token_store.g_view), k), sel(old(token_store.g_view), k + (old(pivot.g_pos) - old(current.g_first.g_pos))))))
    ensures(AbsInv(token_store))

@contract('RawModel.detach')
def _(self):
    requires(self != None and implies(self.g_ts != None, AbsInv(self.g_ts)))
    modifies('TokenStore.g_view', 'TokenStore.g_vlen', 'RawTokenModel.g_store', 'RawTokenModel.g_pos')
    raises('ValueError', 'TokenStore.g_view', 'TokenStore.g_vlen', 'RawTokenModel.g_store', 'RawTokenModel.g_pos')      # a node that does not span its store is refused
    ensures(result != None and fresh(result) and len(result) >= 1)
    ensures(forall(lambda k: implies(0 <= k and k < len(result), result[k] != None and allocated(result[k]) and result[k].g_store is None), result[k]))
    ensures(forall(lambda j, k: implies(0 <= j and j < k and k < len(result), result[j] != result[k])))
    ensures(implies(old(self.g_ts) is None, len(result) == 1 and result[0] is self))
    # (proved for the real RawModel.detach in unit l2.base) a node in a store comes out with the whole view of that store, in order, and leaves it empty
    ensures(implies(old(self.g_ts) != None, len(result) == old(self.g_ts.g_vlen) and old(self.g_ts).g_vlen == 0
                    and forall(lambda k: implies(0 <= k and k < len(result), result[k] == sel(old(self.g_ts.g_view), k)), result[k])))
    ensures(implies(old(self.g_ts) != None, forall(lambda k: implies(0 <= k and k < len(result), old(as_ref(sel(elems(result), k), 'RawTokenModel').g_store) is old(self.g_ts)), result[k])))
    ensures(forall(lambda t: implies(old(as_ref(t, 'RawTokenModel').g_store) is None, as_ref(t, 'RawTokenModel').g_store is None)))
    ensures(forall(lambda s: implies(as_ref(s, 'TokenStore') is not old(self.g_ts), as_ref(s, 'TokenStore').g_view == old(as_ref(s, 'TokenStore').g_view) and as_ref(s, 'TokenStore').g_vlen == old(as_ref(s, 'TokenStore').g_vlen))))
    ensures(forall(lambda t: implies(old(as_ref(t, 'RawTokenModel').g_store) is not old(self.g_ts), as_ref(t, 'RawTokenModel').g_store is old(as_ref(t, 'RawTokenModel').g_store) and as_ref(t, 'RawTokenModel').g_pos == old(as_ref(t, 'RawTokenModel').g_pos))))

@contract('RawModel.reattach')
def _(self, token_store):
    modifies('RawModel.g_ts')
    ensures(self.g_ts is token_store and result is self)

@contract('TokenStore.insert_after')
def _(self, ref, tokens):
    requires(AbsInv(self) and (ref is None or In(self, ref)) and tokens != None)
    requires(forall(lambda k: implies(0 <= k and k < len(tokens), tokens[k] != None and tokens[k].g_store is None), tokens[k]))
    requires(forall(lambda j, k: implies(0 <= j and j < k and k < len(tokens), tokens[j] != tokens[k])))
    modifies('TokenStore.g_view@self', 'TokenStore.g_vlen@self', 'RawTokenModel.g_store', 'RawTokenModel.g_pos')
    ensures(self.g_vlen == old(self.g_vlen) + len(tokens))
    ensures(forall(lambda k: sel(self.g_view, k) == ite(k < old(ite(ref is None, 0, ref.g_pos + 1)), sel(old(self.g_view), k),
                    ite(k < old(ite(ref is None, 0, ref.g_pos + 1)) + len(tokens), sel(elems(tokens), k - old(ite(ref is None, 0, ref.g_pos + 1))), sel(old(self.g_view), k - len(tokens))))))
    ensures(AbsInv(self))

@contract('optional_left_field._create_node')
def _(self, token_store, pivot, value):
    requires(token_store != None and value != None and self != None and self._separators != None and AbsInv(token_store) and In(token_store, pivot))
    requires(implies(value.g_ts != None, AbsInv(value.g_ts)))
    # a node of the destination document itself is refused before anything is touched (fix b2fd10c)
    raises('ValueError', 'TokenStore.g_view', 'TokenStore.g_vlen', 'RawTokenModel.g_store', 'RawTokenModel.g_pos', 'RawModel.g_ts')
    ensures(old(value.g_ts) is not token_store)
    ensures(token_store.g_vlen >= old(token_store.g_vlen) + len(self._separators) + 1)
    ensures(forall(lambda k: implies(0 <= k and k <= old(pivot.g_pos), sel(token_store.g_view, k) == sel(old(token_store.g_view), k))))
    ensures(forall(lambda k: implies(old(pivot.g_pos) < k and k < old(token_store.g_vlen), sel(token_store.g_view, k + (token_store.g_vlen - old(token_store.g_vlen))) == sel(old(token_store.g_view), k))))
    ensures(AbsInv(token_store) and value.g_ts is token_store)

@contract('TokenStore.insert_before')
def _(self, ref, tokens):
    requires(AbsInv(self) and (ref is None or In(self, ref)) and tokens != None)
    requires(forall(lambda k: implies(0 <= k and k < len(tokens), tokens[k] != None and tokens[k].g_store is None), tokens[k]))
    requires(forall(lambda j, k: implies(0 <= j and j < k and k < len(tokens), tokens[j] != tokens[k])))
    modifies('TokenStore.g_view@self', 'TokenStore.g_vlen@self', 'RawTokenModel.g_store', 'RawTokenModel.g_pos')
    ensures(self.g_vlen == old(self.g_vlen) + len(tokens))
    ensures(forall(lambda k: sel(self.g_view, k) == ite(k < old(ite(ref is None, 0, ref.g_pos)), sel(old(self.g_view), k),
                    ite(k < old(ite(ref is None, 0, ref.g_pos)) + len(tokens), sel(elems(tokens), k - old(ite(ref is None, 0, ref.g_pos))), sel(old(self.g_view), k - len(tokens))))))
    ensures(AbsInv(self))

@contract('optional_right_field._create_node')
def _(self, token_store, pivot, value):
    requires(token_store != None and value != None and self != None and self._separators != None and AbsInv(token_store) and In(token_store, pivot))
    requires(implies(value.g_ts != None, AbsInv(value.g_ts)))
    # a node of the destination document itself is refused before anything is touched (fix b2fd10c)
    raises('ValueError', 'TokenStore.g_view', 'TokenStore.g_vlen', 'RawTokenModel.g_store', 'RawTokenModel.g_pos', 'RawModel.g_ts')
    ensures(old(value.g_ts) is not token_store)
    ensures(token_store.g_vlen >= old(token_store.g_vlen) + len(self._separators) + 1)
    ensures(forall(lambda k: implies(0 <= k and k < old(pivot.g_pos), sel(token_store.g_view, k) == sel(old(token_store.g_view), k))))
    ensures(forall(lambda k: implies(old(pivot.g_pos) <= k and k < old(token_store.g_vlen), sel(token_store.g_view, k + (token_store.g_vlen - old(token_store.g_vlen))) == sel(old(token_store.g_view), k))))
    ensures(AbsInv(token_store) and value.g_ts is token_store)

# ---- replace_node (C03, C05, C19)
@contract('TokenStore.__len__')
def _(self):
    requires(AbsInv(self))
    modifies()
    ensures(result == self.g_vlen)

@contract('TokenStore.splice')
def _(self, tokens, ref, del_end):
    requires(AbsInv(self) and In(self, ref) and In(self, del_end) and ref.g_pos <= del_end.g_pos and tokens != None)
    requires(forall(lambda k: implies(0 <= k and k < len(tokens), tokens[k] != None and tokens[k].g_store is None), tokens[k]))
    requires(forall(lambda j, k: implies(0 <= j and j < k and k < len(tokens), tokens[j] != tokens[k])))
    modifies('TokenStore.g_view@self', 'TokenStore.g_vlen@self', 'RawTokenModel.g_store', 'RawTokenModel.g_pos')
    ensures(self.g_vlen == old(self.g_vlen) - (old(del_end.g_pos) + 1 - old(ref.g_pos)) + len(tokens) and AbsInv(self))
    ensures(forall(lambda k: sel(self.g_view, k) == ite(k < old(ref.g_pos), sel(old(self.g_view), k),
                             ite(k < old(ref.g_pos) + len(tokens), sel(elems(tokens), k - old(ref.g_pos)), sel(old(self.g_view), k - len(tokens) + (old(del_end.g_pos) + 1 - old(ref.g_pos)))))))
    ensures(forall(lambda s: implies(as_ref(s, 'TokenStore') is not self, as_ref(s, 'TokenStore').g_view == old(as_ref(s, 'TokenStore').g_view) and as_ref(s, 'TokenStore').g_vlen == old(as_ref(s, 'TokenStore').g_vlen))))

@contract('_check_not_in_store')
def _(value, token_store):
    requires(value != None)
    modifies()
    raises('ValueError', when=value.g_ts is token_store)

@contract('replace_node')
def _(node, repl):
    types(node='RawModel', repl='RawModel')
    requires(node != None and repl != None and implies(repl.g_ts != None, AbsInv(repl.g_ts)))
    requires(implies(node.g_ts != None, AbsInv(node.g_ts) and In(node.g_ts, node.g_first) and In(node.g_ts, node.g_last) and node.g_first.g_pos <= node.g_last.g_pos))
    # every refusal (free node, replacement from this very store, replacement that cannot be detached) leaves everything as it was
    raises('ValueError', 'TokenStore.g_view', 'TokenStore.g_vlen', 'RawTokenModel.g_store', 'RawTokenModel.g_pos', 'RawModel.g_ts')
    ensures(old(node.g_ts) != None and old(node.g_ts.g_vlen) > 0)
    ensures(implies(node is repl, node.g_ts.g_view == old(node.g_ts.g_view) and node.g_ts.g_vlen == old(node.g_ts.g_vlen)))
    ensures(implies(node is not repl, old(repl.g_ts) is not old(node.g_ts)))
    # the node's span [a, b] is replaced by the (>= 1) tokens of the replacement; what was before stays, what was behind is shifted
    ensures(implies(node is not repl, AbsInv(old(node.g_ts)) and old(node.g_ts).g_vlen >= old(node.g_ts.g_vlen) - (old(node.g_last.g_pos) + 1 - old(node.g_first.g_pos)) + 1))
    ensures(implies(node is not repl, forall(lambda k: implies(0 <= k and k < old(node.g_first.g_pos), sel(old(node.g_ts).g_view, k) == sel(old(node.g_ts.g_view), k)))))
    ensures(implies(node is not repl, forall(lambda k: implies(old(node.g_last.g_pos) < k and k < old(node.g_ts.g_vlen), sel(old(node.g_ts).g_view, k + (old(node.g_ts).g_vlen - old(node.g_ts.g_vlen))) == sel(old(node.g_ts.g_view), k)))))
    # the tokens in between are exactly those the replacement's own store held (its store is empty afterwards), and a tree replacement now lives in the node's store
    ensures(implies(node is not repl and old(repl.g_ts) != None, old(repl.g_ts).g_vlen == 0 and old(node.g_ts).g_vlen == old(node.g_ts.g_vlen) - (old(node.g_last.g_pos) + 1 - old(node.g_first.g_pos)) + old(repl.g_ts.g_vlen)
                    and forall(lambda k: implies(0 <= k and k < old(repl.g_ts.g_vlen), sel(old(node.g_ts).g_view, old(node.g_first.g_pos) + k) == sel(old(repl.g_ts.g_view), k)))))
    ensures(implies(node is not repl and isinstance(repl, RawTreeModel), repl.g_ts is old(node.g_ts)))

# ---- token side of the raw repeated wrapper (C03, C05): layout invariant of a repeated field in its store and what _del_tokens removes
@contract('Repeated.placeholder')
def _(self):
    modifies()
    ensures(result is self.g_ph and result != None)

@macro
def RepInv(r):      # the placeholder, then the items in list order, each in the store, spans disjoint and ascending (separators lie in between)
    return (r != None and r.items != None and r.g_ts != None and AbsInv(r.g_ts) and In(r.g_ts, r.g_ph)
        and forall(lambda i: implies(0 <= i and i < len(r.items), r.items[i] != None and In(r.g_ts, r.items[i].g_first) and In(r.g_ts, r.items[i].g_last)
                                     and r.items[i].g_first.g_pos <= r.items[i].g_last.g_pos and r.g_ph.g_pos < r.items[i].g_first.g_pos), r.items[i])
        and forall(lambda i, j: implies(0 <= i and i < j and j < len(r.items), r.items[i].g_last.g_pos < r.items[j].g_first.g_pos)))

@contract('RepeatedNodeWrapper._prev_last')
def _(self, index):
    requires(self != None and RepInv(self._repeated) and 0 <= index and index <= len(self._repeated.items))
    modifies()
    ensures(result is ite(index > 0, self._repeated.items[index - 1].g_last, self._repeated.g_ph))

# removes the items start..stop-1 together with ONE adjacent group of separators: the one in front of them, or - when they are at the front of a longer list -
# the one behind them; nothing of any other item, not the placeholder
@contract('RepeatedNodeWrapper._del_tokens')
def _(self, start, stop):
    requires(self != None and RepInv(self._repeated) and 0 <= start and stop <= len(self._repeated.items))
    modifies('TokenStore.g_view@self._repeated.g_ts', 'TokenStore.g_vlen@self._repeated.g_ts', 'RawTokenModel.g_store', 'RawTokenModel.g_pos',
             'RepeatedNodeWrapper.g_da@self', 'RepeatedNodeWrapper.g_db@self')
    ghost('g_da', ite(stop <= start, 0, ite(start == 0 and stop < len(self._repeated.items), old(self._repeated.items[0].g_first.g_pos),
                  ite(start > 0, old(self._repeated.items[start - 1].g_last.g_pos) + 1, old(self._repeated.g_ph.g_pos) + 1))))
    ghost('g_db', ite(stop <= start, 0, ite(start == 0 and stop < len(self._repeated.items), old(self._repeated.items[stop].g_first.g_pos) - 1, old(self._repeated.items[stop - 1].g_last.g_pos))))
    ensures(implies(stop <= start, self._repeated.g_ts.g_view == old(self._repeated.g_ts.g_view) and self._repeated.g_ts.g_vlen == old(self._repeated.g_ts.g_vlen)))
    ensures(implies(stop > start, self.g_da <= self.g_db and self._repeated.g_ts.g_vlen == old(self._repeated.g_ts.g_vlen) - (self.g_db - self.g_da + 1) and AbsInv(self._repeated.g_ts)
                    and forall(lambda k: sel(self._repeated.g_ts.g_view, k) == ite(k < self.g_da, sel(old(self._repeated.g_ts.g_view), k), sel(old(self._repeated.g_ts.g_view), k + (self.g_db - self.g_da + 1))))))
    # what is cut: every token of the deleted items, no token of a surviving item, not the placeholder
    ensures(implies(stop > start, forall(lambda i: implies(start <= i and i < stop, self.g_da <= old(self._repeated.items[i].g_first.g_pos) and old(self._repeated.items[i].g_last.g_pos) <= self.g_db), self._repeated.items[i])))
    ensures(implies(stop > start, forall(lambda i: implies(0 <= i and i < len(self._repeated.items) and (i < start or i >= stop),
                                                          old(self._repeated.items[i].g_last.g_pos) < self.g_da or old(self._repeated.items[i].g_first.g_pos) > self.g_db), self._repeated.items[i])))
    ensures(implies(stop > start, old(self._repeated.g_ph.g_pos) < self.g_da))

# ---- _insert_tokens (default arguments: the item list describes the store): a pure insertion at one place, next to the neighbouring item
# STATUS: written but NOT a target of any unit - 379 of 389 obligations discharge, the distinctness of the accumulated token list over the three branches and one
# `ref` invariant do not (solver timeouts); nothing is claimed from it and no verified function calls it through this contract.
@macro
def Donor(v, dest):      # a node that may be adopted: a free token, or the root of a non-empty store of its own
    return (v != None and implies(v.g_ts != None, AbsInv(v.g_ts) and v.g_ts.g_vlen >= 1)
        and implies(v.g_ts is None, as_ref(v, 'RawTokenModel').g_store is None))

@contract('RepeatedNodeWrapper._separators')
def _(self):
    modifies()
    ensures(result is self._field.separators)

@contract('RepeatedNodeWrapper._separators_before')
def _(self):
    modifies()
    ensures(result is ite(self._field.separators_before != None, self._field.separators_before, self._field.separators))

@contract('RepeatedNodeWrapper._insert_tokens')
def _(self, index, values, length, separators_before_last):
    types(values='list[RawModel]', length='int', tokens='list[RawTokenModel]')
    requires(self != None and RepInv(self._repeated) and 0 <= index and index <= len(self._repeated.items) and length == len(self._repeated.items) and separators_before_last is None)
    requires(self._field != None and self._field.separators != None and values != None and values is not self._repeated.items)
    requires(forall(lambda k: implies(0 <= k and k < len(values), Donor(values[k], self._repeated.g_ts)), values[k]))
    requires(forall(lambda j, k: implies(0 <= j and j < k and k < len(values), values[j] != values[k] and (values[j].g_ts is None or values[j].g_ts is not values[k].g_ts))))
    modifies('TokenStore.g_view', 'TokenStore.g_vlen', 'RawTokenModel.g_store', 'RawTokenModel.g_pos', 'list[RawTokenModel]@fresh', 'RepeatedNodeWrapper.g_ia@self')
    raises('ValueError')
    ghost('g_ia', ite(index > 0, old(self._repeated.items[index - 1].g_last.g_pos) + 1,
              ite(len(self._repeated.items) > 0 and len(values) > 0, old(as_ref(sel(elems(self._repeated.items), 0), 'RawModel').g_first.g_pos), old(self._repeated.g_ph.g_pos) + 1)))
    # bookkeeping for distinctness: g_kind[j] = 1 if tokens[j] came out of a donor (g_src[j] = which one), 0 if it is a copy of a separator
    after_stmt('tokens: list[base.RawTokenModel] = []', 'letarr', 'g_kind', lambda j: 0)
    after_stmt('tokens: list[base.RawTokenModel] = []', 'letarr', 'g_src', lambda j: 0)
    after_call('RawModel.detach', 'g_det')
    after_stmt('tokens.extend(value.detach())', 'letarr', 'g_kind', lambda j: ite(j >= len(tokens) - len(as_list(g_det, 'RawTokenModel')), 1, sel(g_kind, j)))
    after_stmt('tokens.extend(value.detach())', 'letarr', 'g_src', lambda j: ite(j >= len(tokens) - len(as_list(g_det, 'RawTokenModel')), K, sel(g_src, j)))
    after_stmt('tokens.extend(copy.deepcopy(self._separators))', 'letarr', 'g_kind', lambda j: ite(j >= len(tokens) - len(self._field.separators), 0, sel(g_kind, j)))
    after_stmt('tokens.extend(copy.deepcopy(self._separators_before))', 'letarr', 'g_kind', lambda j: ite(j >= len(tokens) - len(ite(self._field.separators_before != None, self._field.separators_before, self._field.separators)), 0, sel(g_kind, j)))
    invariant(0, forall(lambda j: implies(0 <= j and j < len(tokens), ite(sel(g_kind, j) == 0, fresh(tokens[j]),
                            not fresh(tokens[j]) and 0 <= sel(g_src, j) and sel(g_src, j) < K and ite(old(values[sel(g_src, j)].g_ts) != None,
                                old(tokens[j].g_store) is old(values[sel(g_src, j)].g_ts), tokens[j] is values[sel(g_src, j)]))), tokens[j]))
    invariant(0, tokens is pre(tokens) and fresh(tokens) and length == pre(length) and self._repeated.g_ts is old(self._repeated.g_ts)
                 and self._repeated.g_ts.g_view == old(self._repeated.g_ts.g_view) and self._repeated.g_ts.g_vlen == old(self._repeated.g_ts.g_vlen) and RepInv(self._repeated)
                 and self._repeated.items is old(self._repeated.items) and len(self._repeated.items) == old(len(self._repeated.items)),
                 forall(lambda t: implies(old(as_ref(t, 'RawTokenModel').g_store) is old(self._repeated.g_ts), as_ref(t, 'RawTokenModel').g_store is old(as_ref(t, 'RawTokenModel').g_store) and as_ref(t, 'RawTokenModel').g_pos == old(as_ref(t, 'RawTokenModel').g_pos))),
                 forall(lambda k: implies(0 <= k and k < len(tokens), tokens[k] != None and allocated(tokens[k]) and tokens[k].g_store is None), tokens[k]),
                 forall(lambda j, k: implies(0 <= j and j < k and k < len(tokens), tokens[j] != tokens[k])),
                 # donors not yet consumed are as they were
                 forall(lambda k: implies(K <= k and k < len(values), Donor(values[k], self._repeated.g_ts) and values[k].g_ts is old(values[k].g_ts)
                        and implies(values[k].g_ts != None, values[k].g_ts.g_view == old(values[k].g_ts.g_view) and values[k].g_ts.g_vlen == old(values[k].g_ts.g_vlen))), values[k]),
                 ref is ite(index > 0, self._repeated.items[index - 1].g_last, ite(len(self._repeated.items) > 0 and K > 0, as_ref(sel(self._repeated.g_ts.g_view, self._repeated.items[0].g_first.g_pos - 1), 'RawTokenModel'), self._repeated.g_ph)))
    # a pure insertion at g_ia: nothing removed, nothing before it moved, everything behind it shifted by the number of inserted tokens
    ensures(self._repeated.g_ts.g_vlen >= old(self._repeated.g_ts.g_vlen) and AbsInv(self._repeated.g_ts))
    ensures(forall(lambda k: implies(0 <= k and k < self.g_ia, sel(self._repeated.g_ts.g_view, k) == sel(old(self._repeated.g_ts.g_view), k))))
    ensures(forall(lambda k: implies(self.g_ia <= k and k < old(self._repeated.g_ts.g_vlen), sel(self._repeated.g_ts.g_view, k + (self._repeated.g_ts.g_vlen - old(self._repeated.g_ts.g_vlen))) == sel(old(self._repeated.g_ts.g_view), k))))
    # ... right behind the previous item (or the placeholder), or right in front of the first item
    ensures(old(self._repeated.g_ph.g_pos) < self.g_ia and forall(lambda i: implies(0 <= i and i < len(self._repeated.items),
                ite(i < index, old(self._repeated.items[i].g_last.g_pos) < self.g_ia, self.g_ia <= old(self._repeated.items[i].g_first.g_pos))), self._repeated.items[i]))
