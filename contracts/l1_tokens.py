"""Contracts for the token layer (L1): token_store.Token, models/base.RawTokenModel, internal/base_token_models, block_comment.
Strings are opaque values with the observers strlen / count_nl / rfind_nl (A-str).  parse/fmt are the (virtual) value codecs of a
token class, uninterpreted here: the base-class code is verified for every codec; each concrete codec is checked separately (C12)."""

UFUNS = {'parse': ['int', 'int'], 'fmt': ['int', 'int'], 'can_parse': ['int', 'bool'],
         'bc_indent': ['int', 'int'], 'bc_value': ['int', 'int'], 'bc_fmt': ['int', 'int', 'int']}

@macro
def TI(t):      # I7: the cached size of a token is the size of its text, in a Position of its own
    return t.size != None and t.size.line == count_nl(t._raw_text) and t.size.column == strlen(t._raw_text) - rfind_nl(t._raw_text) - 1

@contract('_token_size')
def _(raw_text):
    modifies('Position.line@fresh', 'Position.column@fresh')
    ensures(result != None and fresh(result) and result.line == count_nl(raw_text) and result.column == strlen(raw_text) - rfind_nl(raw_text) - 1)

@contract('Position.__iadd__')
def _(self, other):
    types(other='Position')
    requires(self != None and other != None)
    modifies('Position.line@self', 'Position.column@self')
    ensures(result is self and self.line == old(self.line) + old(other.line) and self.column == ite(old(other.line) != 0, old(other.column), old(self.column) + old(other.column)))

@contract('Token.__init__')
def _(self, raw_text):
    modifies('Token._raw_text@self', 'Token.store_handle@self', 'Token.size@self', 'Position.line@fresh', 'Position.column@fresh')
    ensures(self._raw_text == raw_text and self.store_handle is None and TI(self) and fresh(self.size))

# the store's half of a text update: only the caches of the token's own block may change (structure aspect; the cache aspect is in l0)
@contract('TokenStore.update')
def _(self, token, raw_text, size):
    requires(token != None and size != None and token.size != None and token.store_handle != None)
    requires(token.store_handle.block != None and token.store_handle.block.size != None and token.store_handle.block.tokens != None)
    requires(0 <= token.store_handle.index and token.store_handle.index < len(token.store_handle.block.tokens))
    requires(forall(lambda j: implies(0 <= j and j < len(token.store_handle.block.tokens), token.store_handle.block.tokens[j] != None and token.store_handle.block.tokens[j].size != None), token.store_handle.block.tokens[j]))
    modifies('Position.line@token.store_handle.block.size', 'Position.column@token.store_handle.block.size', '_StoreBlock.last_newline_index@token.store_handle.block')

@macro
def BlockOf(t):   # what Token._update_raw_text needs of the block a stored token lives in (part of the store invariant)
    return implies(t.store_handle != None,
        t.store_handle.block != None and t.store_handle.block.store != None and t.store_handle.block.size != None and t.store_handle.block.tokens != None
        and t.store_handle.block.size is not t.size
        and 0 <= t.store_handle.index and t.store_handle.index < len(t.store_handle.block.tokens)
        and forall(lambda j: implies(0 <= j and j < len(t.store_handle.block.tokens), t.store_handle.block.tokens[j] != None and t.store_handle.block.tokens[j].size != None
                and t.store_handle.block.tokens[j].size is not t.store_handle.block.size), t.store_handle.block.tokens[j]))

@contract('Token._update_raw_text')
def _(self, value):
    requires(self != None and self.size != None and BlockOf(self))
    modifies('Token._raw_text@self', 'Token.size@self', 'Position.line@fresh', 'Position.column@fresh',
             'Position.line@self.store_handle.block.size', 'Position.column@self.store_handle.block.size', '_StoreBlock.last_newline_index@self.store_handle.block')
    ensures(self._raw_text == value and TI(self) and fresh(self.size))
    ensures(implies(old(self.store_handle) is None, forall(lambda o: implies(0 < o and o < old_alloc(), sel(fld('Position.line'), o) == sel(old(fld('Position.line')), o) and sel(fld('Position.column'), o) == sel(old(fld('Position.column')), o)))))

@contract('Token.raw_text.setter')
def _(self, value):
    requires(self != None and self.size != None and BlockOf(self))
    modifies('Token._raw_text@self', 'Token.size@self', 'Position.line@fresh', 'Position.column@fresh',
             'Position.line@self.store_handle.block.size', 'Position.column@self.store_handle.block.size', '_StoreBlock.last_newline_index@self.store_handle.block')
    ensures(self._raw_text == value and TI(self))

# ---------------------------------------------------------------- virtual codecs (one contract on the base class)
@contract('SingleValueRawTokenModel._parse_value')
def _(cls, raw_text):
    modifies()
    raises('ValueError', when=not can_parse(raw_text))
    ensures(result == parse(raw_text))

@contract('SingleValueRawTokenModel._format_value')
def _(cls, value):
    modifies()
    ensures(result == fmt(value))

@contract('SingleValueRawTokenModel.__init__')
def _(self, raw_text, value):
    modifies('Token._raw_text@self', 'Token.store_handle@self', 'Token.size@self', 'SingleValueRawTokenModel._value@self', 'Position.line@fresh', 'Position.column@fresh')
    ensures(self._raw_text == raw_text and self._value == value and self.store_handle is None and TI(self) and fresh(self.size))

@contract('SingleValueRawTokenModel.from_raw_text')
def _(cls, raw_text):
    modifies('Token._raw_text@fresh', 'Token.store_handle@fresh', 'Token.size@fresh', 'SingleValueRawTokenModel._value@fresh', 'Position.line@fresh', 'Position.column@fresh')
    raises('ValueError', when=not can_parse(raw_text))
    ensures(result != None and fresh(result) and result._raw_text == raw_text and result._value == parse(raw_text) and result.store_handle is None and TI(result))

@contract('SingleValueRawTokenModel.from_value')
def _(cls, value):
    modifies('Token._raw_text@fresh', 'Token.store_handle@fresh', 'Token.size@fresh', 'SingleValueRawTokenModel._value@fresh', 'Position.line@fresh', 'Position.column@fresh')
    ensures(result != None and fresh(result) and result._raw_text == fmt(value) and result._value == value and result.store_handle is None and TI(result))

@contract('SingleValueRawTokenModel.raw_text.setter')
def _(self, raw_text):
    requires(self != None and self.size != None and BlockOf(self))
    modifies('Token._raw_text@self', 'Token.size@self', 'SingleValueRawTokenModel._value@self', 'Position.line@fresh', 'Position.column@fresh',
             'Position.line@self.store_handle.block.size', 'Position.column@self.store_handle.block.size', '_StoreBlock.last_newline_index@self.store_handle.block')
    raises('ValueError', 'Token._raw_text', 'Token.size', 'SingleValueRawTokenModel._value', 'Position.line', 'Position.column', '_StoreBlock.last_newline_index', when=not can_parse(raw_text))
    ensures(self._raw_text == raw_text and self._value == parse(raw_text) and TI(self))

@contract('SingleValueRawTokenModel.value.setter')
def _(self, value):
    requires(self != None and self.size != None and BlockOf(self))
    modifies('Token._raw_text@self', 'Token.size@self', 'SingleValueRawTokenModel._value@self', 'Position.line@fresh', 'Position.column@fresh',
             'Position.line@self.store_handle.block.size', 'Position.column@self.store_handle.block.size', '_StoreBlock.last_newline_index@self.store_handle.block')
    ensures(self._raw_text == fmt(value) and self._value == value and TI(self))

@contract('SingleValueRawTokenModel._clone')
def _(self):
    requires(self != None)
    modifies('Token._raw_text@fresh', 'Token.store_handle@fresh', 'Token.size@fresh', 'SingleValueRawTokenModel._value@fresh', 'Position.line@fresh', 'Position.column@fresh')
    ensures(result != None and fresh(result) and result._raw_text == self._raw_text and result._value == self._value and result.store_handle is None and TI(result))

@contract('SimpleRawTokenModel._clone')
def _(self):
    requires(self != None)
    modifies('Token._raw_text@fresh', 'Token.store_handle@fresh', 'Token.size@fresh', 'Position.line@fresh', 'Position.column@fresh')
    ensures(result != None and fresh(result) and result._raw_text == self._raw_text and result.store_handle is None and TI(result))

# ---------------------------------------------------------------- BlockComment
@contract('BlockComment._parse_value')
def _(cls, raw_text):
    modifies()
    raises('ValueError', when=not can_parse(raw_text))
    ensures(result[0] == bc_indent(raw_text) and result[1] == bc_value(raw_text))

@contract('BlockComment._format_value')
def _(cls, indent, value):
    modifies()
    ensures(result == bc_fmt(indent, value))

@contract('BlockComment.raw_text.setter')
def _(self, raw_text):
    requires(self != None and self.size != None and BlockOf(self))
    modifies('Token._raw_text@self', 'Token.size@self', 'BlockComment._value@self', 'BlockComment._indent@self', 'Position.line@fresh', 'Position.column@fresh',
             'Position.line@self.store_handle.block.size', 'Position.column@self.store_handle.block.size', '_StoreBlock.last_newline_index@self.store_handle.block')
    raises('ValueError', 'Token._raw_text', 'Token.size', 'BlockComment._value', 'BlockComment._indent', 'Position.line', 'Position.column', '_StoreBlock.last_newline_index', when=not can_parse(raw_text))
    ensures(self._raw_text == raw_text and self._indent == bc_indent(raw_text) and self._value == bc_value(raw_text) and TI(self))

@contract('BlockComment.value.setter')
def _(self, value):
    requires(self != None and self.size != None and BlockOf(self))
    modifies('Token._raw_text@self', 'Token.size@self', 'BlockComment._value@self', 'Position.line@fresh', 'Position.column@fresh',
             'Position.line@self.store_handle.block.size', 'Position.column@self.store_handle.block.size', '_StoreBlock.last_newline_index@self.store_handle.block')
    ensures(self._raw_text == bc_fmt(old(self._indent), value) and self._value == value and TI(self))

@contract('BlockComment.indent.setter')
def _(self, indent):
    requires(self != None and self.size != None and BlockOf(self))
    modifies('Token._raw_text@self', 'Token.size@self', 'BlockComment._indent@self', 'Position.line@fresh', 'Position.column@fresh',
             'Position.line@self.store_handle.block.size', 'Position.column@self.store_handle.block.size', '_StoreBlock.last_newline_index@self.store_handle.block')
    ensures(self._raw_text == bc_fmt(indent, old(self._value)) and self._indent == indent and TI(self))

@contract('BlockComment.claimed.setter')
def _(self, claimed):
    requires(self != None)
    modifies('BlockComment._claimed@self')
    ensures(self._claimed == claimed)

@contract('BlockComment._clone')
def _(self):
    requires(self != None)
    modifies('Token._raw_text@fresh', 'Token.store_handle@fresh', 'Token.size@fresh', 'BlockComment._value@fresh', 'BlockComment._indent@fresh', 'BlockComment._claimed@fresh', 'Position.line@fresh', 'Position.column@fresh')
    ensures(result != None and fresh(result) and result._raw_text == self._raw_text and result._value == self._value and result._indent == self._indent
            and result._claimed == self._claimed and result.store_handle is None and TI(result))

@contract('BlockComment.from_raw_text')
def _(cls, raw_text):
    modifies('Token._raw_text@fresh', 'Token.store_handle@fresh', 'Token.size@fresh', 'BlockComment._value@fresh', 'BlockComment._indent@fresh', 'BlockComment._claimed@fresh', 'Position.line@fresh', 'Position.column@fresh')
    raises('ValueError', when=not can_parse(raw_text))
    ensures(result != None and fresh(result) and result._raw_text == raw_text and result._indent == bc_indent(raw_text) and result._value == bc_value(raw_text) and result.store_handle is None and TI(result))

@contract('BlockComment.from_value')
def _(cls, value, indent):
    modifies('Token._raw_text@fresh', 'Token.store_handle@fresh', 'Token.size@fresh', 'BlockComment._value@fresh', 'BlockComment._indent@fresh', 'BlockComment._claimed@fresh', 'Position.line@fresh', 'Position.column@fresh')
    ensures(result != None and fresh(result) and result._raw_text == bc_fmt(indent, value) and result._indent == indent and result._value == value and result.store_handle is None and TI(result))

# ---- getters: pure reads of the stored field (C04: nothing is written; C09/C12: what the setter stored is what is read)
@contract('Token.raw_text')
def _(self):
    requires(self != None)
    modifies()
    ensures(result == self._raw_text)

@contract('SingleValueRawTokenModel.value')
def _(self):
    requires(self != None)
    modifies()
    ensures(result == self._value)

@contract('BlockComment.value')
def _(self):
    requires(self != None)
    modifies()
    ensures(result == self._value)

@contract('BlockComment.indent')
def _(self):
    requires(self != None)
    modifies()
    ensures(result == self._indent)

@contract('BlockComment.claimed')
def _(self):
    requires(self != None)
    modifies()
    ensures(result == self._claimed)

@contract('SingleValueRawTokenModel.raw_text')
def _(self):
    requires(self != None)
    modifies()
    ensures(result == self._raw_text)

@contract('BlockComment.raw_text')
def _(self):
    requires(self != None)
    modifies()
    ensures(result == self._raw_text)
