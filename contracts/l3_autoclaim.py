"""Contract for RepeatedNodeWithInterleavingCommentsWrapper.auto_claim_comments (C14): default attribution of a repeated field is, on EVERY path and whatever
the field holds (an empty field can still be the only possible owner of a comment), one walk over the items followed by one unrestricted
claim_interleaving_comments() - counted in two ghost counters. What the claim itself does is the claimer class: bounded only (drivers/comments.py)."""

@contract('ItemsWrapperBase.auto_claim_comments')
def _(self):
    requires(self != None)
    modifies('ItemsWrapperBase.g_items_walked@self')
    ensures(self.g_items_walked == old(self.g_items_walked) + 1)

@contract('RepeatedNodeWithInterleavingCommentsWrapper.claim_interleaving_comments')
def _(self, comments):
    requires(self != None)
    modifies('ItemsWrapperBase.g_interleaving_claims@self')
    ensures(implies(comments == None, self.g_interleaving_claims == old(self.g_interleaving_claims) + 1))

@contract('RepeatedNodeWithInterleavingCommentsWrapper.auto_claim_comments')
def _(self):
    requires(self != None)
    modifies('ItemsWrapperBase.g_items_walked@self', 'ItemsWrapperBase.g_interleaving_claims@self')
    ensures(self.g_items_walked == old(self.g_items_walked) + 1 and self.g_interleaving_claims == old(self.g_interleaving_claims) + 1)
