(set-logic ALL)
; benchmark generated from python API
(set-info :status unknown)
(declare-fun last_token (Int) Int)
(declare-fun first_token (Int) Int)
(declare-fun slot_hash (Int) Int)
(declare-fun self () Int)
(declare-fun other () Int)
(declare-fun slot_currency (Int) Int)
(declare-fun slot_number_per (Int) Int)
(declare-fun bool_of (Int) Bool)
(assert
 (forall ((x Int) )(let (($x365 (and (and (distinct (first_token x) 0) true) (and (distinct (last_token x) 0) true))))
 (=> (and (distinct x 0) true) $x365)))
 )
(assert
 (let ((?x164 (slot_hash self)))
 (and (distinct ?x164 0) true)))
(assert
 (let ((?x158 (slot_hash other)))
 (and (distinct ?x158 0) true)))
(assert
 (let ((?x105 (slot_currency self)))
 (and (distinct ?x105 0) true)))
(assert
 (let ((?x180 (slot_currency other)))
 (and (distinct ?x180 0) true)))
(assert
 (and (distinct self 0) true))
(assert
 (let ((?x164 (slot_hash self)))
(let ((?x796 (first_token ?x164)))
(let ((?x381 (slot_number_per self)))
(let ((?x905 (first_token ?x381)))
(let (($x589 (and (distinct ?x381 0) true)))
(let ((?x698 (ite (and $x589 (bool_of ?x381)) ?x905 ?x381)))
(let ((?x524 (ite (and (distinct ?x698 0) true) ?x698 ?x796)))
(let (($x70 (= ?x524 (ite $x589 ?x905 ?x796))))
(not $x70))))))))))
(check-sat)
