(set-logic ALL)
; benchmark generated from python API
(set-info :status unknown)
(declare-fun last_token (Int) Int)
(declare-fun first_token (Int) Int)
(declare-fun slot_indent (Int) Int)
(declare-fun self () Int)
(declare-fun other () Int)
(declare-fun slot_account (Int) Int)
(declare-fun slot_eol (Int) Int)
(declare-fun slot_meta (Int) Int)
(declare-fun slot_number (Int) Int)
(declare-fun bool_of (Int) Bool)
(assert
 (forall ((x Int) )(let (($x332 (and (and (distinct (first_token x) 0) true) (and (distinct (last_token x) 0) true))))
 (=> (and (distinct x 0) true) $x332)))
 )
(assert
 (let ((?x183 (slot_indent self)))
 (and (distinct ?x183 0) true)))
(assert
 (let ((?x128 (slot_indent other)))
 (and (distinct ?x128 0) true)))
(assert
 (let ((?x175 (slot_account self)))
 (and (distinct ?x175 0) true)))
(assert
 (let ((?x160 (slot_account other)))
 (and (distinct ?x160 0) true)))
(assert
 (let ((?x356 (slot_eol self)))
 (and (distinct ?x356 0) true)))
(assert
 (let ((?x651 (slot_eol other)))
 (and (distinct ?x651 0) true)))
(assert
 (let ((?x331 (slot_meta self)))
 (and (distinct ?x331 0) true)))
(assert
 (let ((?x174 (slot_meta other)))
 (and (distinct ?x174 0) true)))
(assert
 (and (distinct self 0) true))
(assert
 (let ((?x175 (slot_account self)))
(let ((?x691 (last_token ?x175)))
(let ((?x152 (slot_number self)))
(let ((?x329 (last_token ?x152)))
(let (($x153 (and (distinct ?x152 0) true)))
(let ((?x782 (ite $x153 ?x329 ?x691)))
(let ((?x613 (ite (and $x153 (bool_of ?x152)) ?x329 ?x152)))
(let ((?x251 (ite (and (distinct ?x613 0) true) ?x613 ?x691)))
(let (($x630 (= ?x251 ?x782)))
(not $x630)))))))))))
(check-sat)
