(set-logic ALL)
; benchmark generated from python API
(set-info :status unknown)
(declare-fun last_token (Int) Int)
(declare-fun first_token (Int) Int)
(declare-fun slot_label (Int) Int)
(declare-fun self () Int)
(declare-fun other () Int)
(declare-fun slot_number (Int) Int)
(declare-fun bool_of (Int) Bool)
(assert
 (forall ((x Int) )(let (($x365 (and (and (distinct (first_token x) 0) true) (and (distinct (last_token x) 0) true))))
 (=> (and (distinct x 0) true) $x365)))
 )
(assert
 (let ((?x140 (slot_label self)))
 (and (distinct ?x140 0) true)))
(assert
 (let ((?x146 (slot_label other)))
 (and (distinct ?x146 0) true)))
(assert
 (and (distinct self 0) true))
(assert
 (let ((?x140 (slot_label self)))
(let ((?x589 (last_token ?x140)))
(let ((?x814 (slot_number self)))
(let ((?x116 (last_token ?x814)))
(let (($x63 (and (distinct ?x814 0) true)))
(let ((?x807 (ite $x63 ?x116 ?x589)))
(let ((?x121 (ite (and $x63 (bool_of ?x814)) ?x116 ?x814)))
(let ((?x772 (ite (and (distinct ?x121 0) true) ?x121 ?x589)))
(let (($x165 (= ?x772 ?x807)))
(not $x165)))))))))))
(check-sat)
