(set-logic ALL)
; benchmark generated from python API
(set-info :status unknown)
(declare-fun last_token (Int) Int)
(declare-fun first_token (Int) Int)
(declare-fun slot_label (Int) Int)
(declare-fun self () Int)
(declare-fun other () Int)
(declare-fun slot_number (Int) Int)
(declare-fun bool_of (Int) Bool)
(assert
 (forall ((x Int) )(let (($x365 (and (and (distinct (first_token x) 0) true) (and (distinct (last_token x) 0) true))))
 (=> (and (distinct x 0) true) $x365)))
 )
(assert
 (let ((?x100 (slot_label self)))
 (and (distinct ?x100 0) true)))
(assert
 (let ((?x119 (slot_label other)))
 (and (distinct ?x119 0) true)))
(assert
 (and (distinct self 0) true))
(assert
 (let ((?x100 (slot_label self)))
(let ((?x914 (last_token ?x100)))
(let ((?x165 (slot_number self)))
(let ((?x117 (last_token ?x165)))
(let (($x112 (and (distinct ?x165 0) true)))
(let ((?x333 (ite $x112 ?x117 ?x914)))
(let ((?x183 (ite (and $x112 (bool_of ?x165)) ?x117 ?x165)))
(let ((?x824 (ite (and (distinct ?x183 0) true) ?x183 ?x914)))
(let (($x385 (= ?x824 ?x333)))
(not $x385)))))))))))
(check-sat)
