(set-logic ALL)
; benchmark generated from python API
(set-info :status unknown)
(declare-fun last_token (Int) Int)
(declare-fun first_token (Int) Int)
(declare-fun slot_label (Int) Int)
(declare-fun self () Int)
(declare-fun other () Int)
(declare-fun slot_number (Int) Int)
(declare-fun bool_of (Int) Bool)
(assert
 (forall ((x Int) )(let (($x332 (and (and (distinct (first_token x) 0) true) (and (distinct (last_token x) 0) true))))
 (=> (and (distinct x 0) true) $x332)))
 )
(assert
 (let ((?x63 (slot_label self)))
 (and (distinct ?x63 0) true)))
(assert
 (let ((?x160 (slot_label other)))
 (and (distinct ?x160 0) true)))
(assert
 (and (distinct self 0) true))
(assert
 (let ((?x63 (slot_label self)))
(let ((?x429 (last_token ?x63)))
(let ((?x155 (slot_number self)))
(let ((?x329 (last_token ?x155)))
(let (($x694 (and (distinct ?x155 0) true)))
(let ((?x791 (ite $x694 ?x329 ?x429)))
(let ((?x157 (ite (and $x694 (bool_of ?x155)) ?x329 ?x155)))
(let ((?x356 (ite (and (distinct ?x157 0) true) ?x157 ?x429)))
(let (($x543 (= ?x356 ?x791)))
(not $x543)))))))))))
(check-sat)
