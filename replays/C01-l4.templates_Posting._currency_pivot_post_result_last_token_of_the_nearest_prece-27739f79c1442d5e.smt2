(set-logic ALL)
; benchmark generated from python API
(set-info :status unknown)
(declare-fun last_token (Int) Int)
(declare-fun first_token (Int) Int)
(declare-fun slot_indent (Int) Int)
(declare-fun self () Int)
(declare-fun other () Int)
(declare-fun slot_account (Int) Int)
(declare-fun slot_eol (Int) Int)
(declare-fun slot_meta (Int) Int)
(declare-fun slot_number (Int) Int)
(declare-fun bool_of (Int) Bool)
(assert
 (forall ((x Int) )(let (($x365 (and (and (distinct (first_token x) 0) true) (and (distinct (last_token x) 0) true))))
 (=> (and (distinct x 0) true) $x365)))
 )
(assert
 (let ((?x174 (slot_indent self)))
 (and (distinct ?x174 0) true)))
(assert
 (let ((?x142 (slot_indent other)))
 (and (distinct ?x142 0) true)))
(assert
 (let ((?x193 (slot_account self)))
 (and (distinct ?x193 0) true)))
(assert
 (let ((?x119 (slot_account other)))
 (and (distinct ?x119 0) true)))
(assert
 (let ((?x824 (slot_eol self)))
 (and (distinct ?x824 0) true)))
(assert
 (let ((?x755 (slot_eol other)))
 (and (distinct ?x755 0) true)))
(assert
 (let ((?x114 (slot_meta self)))
 (and (distinct ?x114 0) true)))
(assert
 (let ((?x816 (slot_meta other)))
 (and (distinct ?x816 0) true)))
(assert
 (and (distinct self 0) true))
(assert
 (let ((?x193 (slot_account self)))
(let ((?x641 (last_token ?x193)))
(let ((?x166 (slot_number self)))
(let ((?x117 (last_token ?x166)))
(let (($x129 (and (distinct ?x166 0) true)))
(let ((?x127 (ite $x129 ?x117 ?x641)))
(let ((?x912 (ite (and $x129 (bool_of ?x166)) ?x117 ?x166)))
(let ((?x331 (ite (and (distinct ?x912 0) true) ?x912 ?x641)))
(let (($x808 (= ?x331 ?x127)))
(not $x808)))))))))))
(check-sat)
