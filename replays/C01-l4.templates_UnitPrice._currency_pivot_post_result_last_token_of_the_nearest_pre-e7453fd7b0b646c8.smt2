(set-logic ALL)
; benchmark generated from python API
(set-info :status unknown)
(declare-fun last_token (Int) Int)
(declare-fun first_token (Int) Int)
(declare-fun slot_label (Int) Int)
(declare-fun self () Int)
(declare-fun other () Int)
(declare-fun slot_number (Int) Int)
(declare-fun bool_of (Int) Bool)
(assert
 (forall ((x Int) )(let (($x332 (and (and (distinct (first_token x) 0) true) (and (distinct (last_token x) 0) true))))
 (=> (and (distinct x 0) true) $x332)))
 )
(assert
 (let ((?x126 (slot_label self)))
 (and (distinct ?x126 0) true)))
(assert
 (let ((?x132 (slot_label other)))
 (and (distinct ?x132 0) true)))
(assert
 (and (distinct self 0) true))
(assert
 (let ((?x126 (slot_label self)))
(let ((?x1329 (last_token ?x126)))
(let ((?x869 (slot_number self)))
(let ((?x185 (last_token ?x869)))
(let (($x286 (and (distinct ?x869 0) true)))
(let ((?x648 (ite $x286 ?x185 ?x1329)))
(let ((?x151 (ite (and $x286 (bool_of ?x869)) ?x185 ?x869)))
(let ((?x364 (ite (and (distinct ?x151 0) true) ?x151 ?x1329)))
(let (($x155 (= ?x364 ?x648)))
(not $x155)))))))))))
(check-sat)
