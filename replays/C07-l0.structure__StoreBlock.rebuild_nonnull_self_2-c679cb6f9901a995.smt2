(set-logic ALL)
; benchmark generated from python API
(set-info :status unknown)
(declare-fun str_rfind_nl (Int) Int)
(declare-fun str_count_nl (Int) Int)
(declare-fun str_len (Int) Int)
(declare-fun self () Int)
(declare-fun H__StoreBlock_tokens () (Array Int Int))
(declare-fun H_list_ref_Token_elem () (Array Int (Array Int Int)))
(declare-fun H_list_ref_Token_len () (Array Int Int))
(declare-fun K!173 () Int)
(declare-fun H_Token_size () (Array Int Int))
(declare-fun alloc0 () Int)
(declare-fun H_Token_store_handle () (Array Int Int))
(declare-fun H__StoreHandle_block () (Array Int Int))
(declare-fun H__StoreBlock_store () (Array Int Int))
(declare-fun H__StoreBlock_size () (Array Int Int))
(declare-fun H_TokenStore__blocks () (Array Int Int))
(declare-fun H_list_ref__StoreBlock_len () (Array Int Int))
(declare-fun H_list_ref__StoreBlock_elem () (Array Int (Array Int Int)))
(declare-fun position!163 () Int)
(declare-fun alloc!164 () Int)
(declare-fun typ (Int) Int)
(declare-fun H__StoreHandle_block_L0!168 () (Array Int Int))
(declare-fun H__StoreHandle_index () (Array Int Int))
(declare-fun H__StoreHandle_index_L0!169 () (Array Int Int))
(declare-fun alloc!170 () Int)
(declare-fun H_Token_store_handle_L0!167 () (Array Int Int))
(declare-fun size!172 () Int)
(assert
 (forall ((sx Int) )(let (($x24 (= (= (str_count_nl sx) 0) (= (str_rfind_nl sx) (- 1)))))
 (let ((?x20 (str_rfind_nl sx)))
 (let (($x27 (>= ?x20 (- 1))))
 (let ((?x22 (str_count_nl sx)))
 (let (($x28 (>= ?x22 0)))
 (let ((?x25 (str_len sx)))
 (let (($x29 (>= ?x25 0)))
 (and $x29 $x28 $x27 (< ?x20 ?x25) $x24)))))))))
 )
(assert
 (let (($x450 (and (and (distinct 0 self) true))))
 (ite $x450 (and (and (distinct 0 (select H__StoreBlock_tokens self)) true)) $x450)))
(assert
 (forall ((j!q162 Int) )(! (let ((?x204 (select H__StoreBlock_tokens self)))
 (let ((?x523 (select H_list_ref_Token_elem ?x204)))
 (let ((?x772 (select ?x523 j!q162)))
 (let (($x143 (and (<= 0 j!q162))))
 (let (($x780 (ite $x143 (and (< j!q162 (select H_list_ref_Token_len ?x204))) $x143)))
 (=> $x780 (and (and (distinct 0 ?x772) true)))))))) :pattern ( (select (select H_list_ref_Token_elem (select H__StoreBlock_tokens self)) j!q162) )))
 )
(assert
 (let ((?x204 (select H__StoreBlock_tokens self)))
 (let ((?x638 (select H_list_ref_Token_len ?x204)))
 (let (($x770 (>= K!173 0)))
 (and $x770 (<= K!173 ?x638))))))
(assert
 (let ((?x204 (select H__StoreBlock_tokens self)))
 (let ((?x638 (select H_list_ref_Token_len ?x204)))
 (< K!173 ?x638))))
(assert
 (let ((?x204 (select H__StoreBlock_tokens self)))
 (let ((?x523 (select H_list_ref_Token_elem ?x204)))
 (let ((?x897 (select ?x523 K!173)))
 (let ((?x639 (select H_Token_size ?x897)))
 (let (($x485 (and (distinct ?x639 0) true)))
 (let (($x122 (not $x485)))
 (not $x122))))))))
(assert
 (let (($x9 (>= self 0)))
 (and $x9 (< self alloc0))))
(assert
 (> self 0))
(assert
 (forall ((o!c Int) )(let ((?x58 (select H_Token_store_handle o!c)))
 (let (($x60 (>= ?x58 0)))
 (and $x60 (< ?x58 alloc0)))))
 )
(assert
 (forall ((o!c Int) )(let ((?x63 (select H_Token_size o!c)))
 (let (($x65 (>= ?x63 0)))
 (and $x65 (< ?x63 alloc0)))))
 )
(assert
 (forall ((o!c Int) )(let ((?x68 (select H__StoreHandle_block o!c)))
 (let (($x70 (>= ?x68 0)))
 (and $x70 (< ?x68 alloc0)))))
 )
(assert
 (forall ((o!c Int) )(let ((?x73 (select H__StoreBlock_store o!c)))
 (let (($x75 (>= ?x73 0)))
 (and $x75 (< ?x73 alloc0)))))
 )
(assert
 (forall ((o!c Int) )(let ((?x78 (select H__StoreBlock_tokens o!c)))
 (let (($x80 (>= ?x78 0)))
 (and $x80 (< ?x78 alloc0)))))
 )
(assert
 (forall ((o!c Int) )(let ((?x83 (select H__StoreBlock_size o!c)))
 (let (($x85 (>= ?x83 0)))
 (and $x85 (< ?x83 alloc0)))))
 )
(assert
 (forall ((o!c Int) )(let ((?x88 (select H_TokenStore__blocks o!c)))
 (let (($x90 (>= ?x88 0)))
 (and $x90 (< ?x88 alloc0)))))
 )
(assert
 (forall ((o!c Int) )(>= (select H_list_ref_Token_len o!c) 0))
 )
(assert
 (forall ((o!c Int) (k!c Int) )(let ((?x99 (select (select H_list_ref_Token_elem o!c) k!c)))
 (let (($x101 (>= ?x99 0)))
 (and $x101 (< ?x99 alloc0)))))
 )
(assert
 (forall ((o!c Int) )(>= (select H_list_ref__StoreBlock_len o!c) 0))
 )
(assert
 (forall ((o!c Int) (k!c Int) )(let ((?x108 (select (select H_list_ref__StoreBlock_elem o!c) k!c)))
 (let (($x110 (>= ?x108 0)))
 (and $x110 (< ?x108 alloc0)))))
 )
(assert
 (>= position!163 alloc0))
(assert
 (> position!163 0))
(assert
 (= alloc!164 (+ position!163 1)))
(assert
 (let ((?x128 (typ position!163)))
 (= 1 ?x128)))
(assert
 (forall ((o!f Int) )(let ((?x68 (select H__StoreHandle_block o!f)))
 (let ((?x197 (select H__StoreHandle_block_L0!168 o!f)))
 (let (($x863 (= ?x197 ?x68)))
 (let (($x294 (< o!f alloc!164)))
 (=> $x294 $x863))))))
 )
(assert
 (forall ((o!f Int) )(let (($x438 (= (select H__StoreHandle_index_L0!169 o!f) (select H__StoreHandle_index o!f))))
 (let (($x294 (< o!f alloc!164)))
 (=> $x294 $x438))))
 )
(assert
 (>= alloc!170 alloc!164))
(assert
 (forall ((o!c Int) )(let ((?x404 (select H_Token_store_handle_L0!167 o!c)))
 (let (($x297 (>= ?x404 0)))
 (and $x297 (< ?x404 alloc!170)))))
 )
(assert
 (forall ((o!c Int) )(let ((?x63 (select H_Token_size o!c)))
 (let (($x65 (>= ?x63 0)))
 (and $x65 (< ?x63 alloc!170)))))
 )
(assert
 (forall ((o!c Int) )(let ((?x197 (select H__StoreHandle_block_L0!168 o!c)))
 (let (($x768 (>= ?x197 0)))
 (and $x768 (< ?x197 alloc!170)))))
 )
(assert
 (forall ((o!c Int) )(let ((?x73 (select H__StoreBlock_store o!c)))
 (let (($x75 (>= ?x73 0)))
 (and $x75 (< ?x73 alloc!170)))))
 )
(assert
 (forall ((o!c Int) )(let ((?x78 (select H__StoreBlock_tokens o!c)))
 (let (($x80 (>= ?x78 0)))
 (and $x80 (< ?x78 alloc!170)))))
 )
(assert
 (forall ((o!c Int) )(let ((?x83 (select H__StoreBlock_size o!c)))
 (let (($x85 (>= ?x83 0)))
 (and $x85 (< ?x83 alloc!170)))))
 )
(assert
 (forall ((o!c Int) )(let ((?x88 (select H_TokenStore__blocks o!c)))
 (let (($x90 (>= ?x88 0)))
 (and $x90 (< ?x88 alloc!170)))))
 )
(assert
 (forall ((o!c Int) )(>= (select H_list_ref_Token_len o!c) 0))
 )
(assert
 (forall ((o!c Int) (k!c Int) )(let ((?x99 (select (select H_list_ref_Token_elem o!c) k!c)))
 (let (($x101 (>= ?x99 0)))
 (and $x101 (< ?x99 alloc!170)))))
 )
(assert
 (forall ((o!c Int) )(>= (select H_list_ref__StoreBlock_len o!c) 0))
 )
(assert
 (forall ((o!c Int) (k!c Int) )(let ((?x108 (select (select H_list_ref__StoreBlock_elem o!c) k!c)))
 (let (($x110 (>= ?x108 0)))
 (and $x110 (< ?x108 alloc!170)))))
 )
(assert
 (let (($x203 (>= size!172 0)))
 (and $x203 (< size!172 alloc!170))))
(assert
 (let (($x376 (and (distinct size!172 0) true)))
(not $x376)))
(check-sat)
