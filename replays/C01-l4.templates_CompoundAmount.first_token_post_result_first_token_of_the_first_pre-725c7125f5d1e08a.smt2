(set-logic ALL)
; benchmark generated from python API
(set-info :status unknown)
(declare-fun last_token (Int) Int)
(declare-fun first_token (Int) Int)
(declare-fun slot_hash (Int) Int)
(declare-fun self () Int)
(declare-fun other () Int)
(declare-fun slot_currency (Int) Int)
(declare-fun slot_number_per (Int) Int)
(declare-fun bool_of (Int) Bool)
(assert
 (forall ((x Int) )(let (($x332 (and (and (distinct (first_token x) 0) true) (and (distinct (last_token x) 0) true))))
 (=> (and (distinct x 0) true) $x332)))
 )
(assert
 (let ((?x150 (slot_hash self)))
 (and (distinct ?x150 0) true)))
(assert
 (let ((?x144 (slot_hash other)))
 (and (distinct ?x144 0) true)))
(assert
 (let ((?x69 (slot_currency self)))
 (and (distinct ?x69 0) true)))
(assert
 (let ((?x168 (slot_currency other)))
 (and (distinct ?x168 0) true)))
(assert
 (and (distinct self 0) true))
(assert
 (let ((?x150 (slot_hash self)))
(let ((?x158 (first_token ?x150)))
(let ((?x540 (slot_number_per self)))
(let ((?x769 (first_token ?x540)))
(let (($x1329 (and (distinct ?x540 0) true)))
(let ((?x612 (ite (and $x1329 (bool_of ?x540)) ?x769 ?x540)))
(let ((?x102 (ite (and (distinct ?x612 0) true) ?x612 ?x158)))
(let (($x563 (= ?x102 (ite $x1329 ?x769 ?x158))))
(not $x563))))))))))
(check-sat)
