import sys; sys.path.insert(0, '/var/tmp/pyvc_proto')
from pyvc import *
prog = Program('/repo/autobean_refactor/token_store.py', {'_T': 'Token'})
prog.classes['TokenStore'].fields.update({'g_off': IARR, 'g_view': IARR, 'g_vlen': INT})
spec = Spec('/var/tmp/pyvc_proto/spec_ts.py')
ex = Exec(prog, spec)
verify(ex, 'TokenStore', 'get_last', verbose=False, timeout=5000)
ob = [o for o in ex.obls if 'index[self._blocks[-1]]' in o.name][0]
print(ob.goal)
print('guard-ish premises:'); 
for p_ in ob.prem[-4:]: print('  ', str(p_)[:300])
sl = Solver(); sl.set('timeout', 10000); sl.add(ex.axioms); sl.add(ob.prem); sl.add(Not(ob.goal)); print(sl.check(), sl.reason_unknown())
# without the big invariant
sl = Solver(); sl.set('timeout', 10000); sl.add(ob.prem[-3:]); sl.add(Not(ob.goal)); print('only guards', sl.check())
