import sys; sys.path.insert(0, '/var/tmp/pyvc_proto')
from pyvc import *
import os
prog = Program(os.environ.get('TS_SRC', '/repo/autobean_refactor/token_store.py'), {'_T': 'Token'})
# ghost fields
prog.classes['TokenStore'].fields.update({'g_off': IARR, 'g_view': IARR, 'g_vlen': INT})
spec = Spec('/var/tmp/pyvc_proto/spec_ts.py')
ex = Exec(prog, spec)
targets = sys.argv[1:] or ['get_index', 'get_next', 'get_prev', 'get_first', 'get_last', '__len__', '_update_block_indexes']
for t in targets:
    verify(ex, 'TokenStore', t)
