import sys, subprocess, time; sys.path.insert(0, '/var/tmp/pyvc_proto')
from pyvc import *
import os
prog = Program(os.environ.get('TS_SRC', '/repo/autobean_refactor/token_store.py'), {'_T': 'Token'})
prog.classes['TokenStore'].fields.update({'g_off': IARR, 'g_view': IARR, 'g_vlen': INT})
ex = Exec(prog, Spec('/var/tmp/pyvc_proto/spec_ts.py'))
fn = sys.argv[1]
r = verify(ex, 'TokenStore', fn, verbose=False, timeout=10000)
print('z3@10s failed:', len(r['failed']))
names = {f[0] for f in r['failed']}
for n_, ob in enumerate([o for o in ex.obls if o.name in names and o.kind != 'smoke']):
    sl = Solver(); sl.add(ex.axioms); sl.add(ob.prem); sl.add(Not(ob.goal))
    open(f'f{n_}.smt2', 'w').write('(set-logic ALL)\n' + sl.to_smt2())
    t0 = time.time(); rr = subprocess.run(['cvc5', '--tlimit=120000', f'f{n_}.smt2'], capture_output=True, text=True)
    print('  cvc5', rr.stdout.strip() or rr.stderr.strip()[:80], round(time.time() - t0, 1), ob.name[:100])
