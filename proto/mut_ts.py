import sys, re; sys.path.insert(0, '/var/tmp/pyvc_proto')
from pyvc import *
src = open('/repo/autobean_refactor/token_store.py').read()
MUTS = [
 ('get_next', "return handle.block.tokens[handle.index + 1]", "return handle.block.tokens[handle.index]"),
 ('get_next', "if handle.block.index + 1 < len(self._blocks):", "if handle.block.index + 2 < len(self._blocks):"),
 ('get_prev', "return self._blocks[handle.block.index - 1].tokens[-1]", "return self._blocks[handle.block.index - 1].tokens[0]"),
 ('get_index', "for i in range(handle.block.index):", "for i in range(handle.block.index + 1):"),
 ('get_last', "self._blocks[-1].tokens[-1] or None", "self._blocks[0].tokens[-1] or None"),
 ('iter', "yield from end_handle.block.tokens[:end_handle.index+1]", "yield from end_handle.block.tokens[:end_handle.index]"),
 ('iter', "for i in range(start_handle.block.index + 1, end_handle.block.index):", "for i in range(start_handle.block.index + 1, end_handle.block.index + 1):"),
 ('__iter__', "yield from block.tokens", "yield from block.tokens[1:]"),
 ('_update_block_indexes', "self._blocks[i].index = i", "self._blocks[i].index = i + 1"),
]
for fn, a, b in MUTS:
    assert a in src, a
    open('/var/tmp/pyvc_proto/ts_mut.py', 'w').write(src.replace(a, b))
    prog = Program('/var/tmp/pyvc_proto/ts_mut.py', {'_T': 'Token'})
    prog.classes['TokenStore'].fields.update({'g_off': IARR, 'g_view': IARR, 'g_vlen': INT})
    ex = Exec(prog, Spec('/var/tmp/pyvc_proto/spec_ts.py'))
    r = verify(ex, 'TokenStore', fn, verbose=False, timeout=8000)
    print(f'{fn:24} {a[:45]!r:50} -> failed obligations: {len(r["failed"])}', [f[1] for f in r['failed']][:4], r['failed'][0][0][:90] if r['failed'] else 'MISSED')
