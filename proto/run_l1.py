import sys; sys.path.insert(0, '/var/tmp/pyvc_proto')
from pyvc import *
src = sys.argv[1] if len(sys.argv) > 1 else '/repo/autobean_refactor/models/internal/base_token_models.py'
prog = Program(['/repo/autobean_refactor/token_store.py', '/var/tmp/pyvc_proto/stubs_l1.py', src], {'_T': 'Token', '_V': 'object'})
prog.classes['SingleValueRawTokenModel'].fields['_value'] = INT
spec = Spec('/var/tmp/pyvc_proto/spec_l1.py')
ex = Exec(prog, spec)
verify(ex, 'SingleValueRawTokenModel', 'raw_text', kind='setter')
