import sys; sys.path.insert(0, '/var/tmp/pyvc_proto')
exec(open('/var/tmp/pyvc_proto/run_l2.py').read().split("verify(ex, 'optional_left_field', '_remove_node')")[0])
verify(ex, 'optional_left_field', '_create_node', verbose=False, timeout=3000)
ob=[o for o in ex.obls if 'g_vlen >= old' in o.name][0]
print(ob.goal)
import re
print(sorted(set(re.findall(r'H_list_[A-Za-z_\[\]]+', str(ob.prem)+str(ob.goal)))))
