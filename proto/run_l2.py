import sys; sys.path.insert(0, '/var/tmp/pyvc_proto')
from pyvc import *
prog = Program(['/var/tmp/pyvc_proto/stubs_l2.py', '/repo/autobean_refactor/models/internal/fields.py'], {'_M': 'RawModel', '_V': 'RawModel'})
spec = Spec('/var/tmp/pyvc_proto/spec_l2.py')
ex = Exec(prog, spec)
def deepcopy_tokens(ex, st, args):
    src = args[0]; n = ex.llen(st.heap, src)
    lo = st.heap.alloc
    l = ex.alloc(st, 'list'); arr = fresh('arr', IA); k, j = Int('k!'), Int('j!')
    hi = fresh('alloc', I); st.defs.append(hi >= st.heap.alloc + n); 
    st.defs.append(ForAll([k], Implies(And(0 <= k, k < n), And(Select(arr, k) >= st.heap.alloc, Select(arr, k) < hi))))
    st.defs.append(ForAll([j, k], Implies(And(0 <= j, j < k, k < n), Select(arr, j) != Select(arr, k))))
    gs = ex.hget(st.heap, ('RawTokenModel', 'g_store'), Ref('TokenStore'))
    st.defs.append(ForAll([k], Implies(And(0 <= k, k < n), Select(gs, Select(arr, k)) == 0)))
    st.heap.alloc = hi
    ex.set_list(st, l, n, arr, src.ty); return ex.list_sv(st, l, src.ty)
spec.builtins['copy.deepcopy'] = deepcopy_tokens
verify(ex, 'optional_left_field', '_remove_node')
verify(ex, 'optional_right_field', '_remove_node')
verify(ex, 'optional_left_field', '_create_node')
