import Mathlib.Data.List.Basic
import Mathlib.Data.List.Count
import Mathlib.Data.List.TakeWhile

namespace TSize

structure Pos where
  line : Nat
  column : Nat
deriving DecidableEq, Repr

/-- `Position.__iadd__` of token_store.py -/
def op (a b : Pos) : Pos :=
  ⟨a.line + b.line, if b.line > 0 then b.column else a.column + b.column⟩

def nl : Char := '\n'

/-- number of characters after the last newline (= len - rfind('\n') - 1) -/
def col (s : List Char) : Nat := (s.reverse.takeWhile (fun c => c != nl)).length

/-- `_token_size` of token_store.py on the `List Char` model of `str` -/
def tsize (s : List Char) : Pos := ⟨s.count nl, col s⟩

theorem takeWhile_append_all {α} (p : α → Bool) (l₁ l₂ : List α) (h : ∀ x ∈ l₁, p x = true) :
    (l₁ ++ l₂).takeWhile p = l₁ ++ l₂.takeWhile p := by
  induction l₁ with
  | nil => simp
  | cons a t ih =>
    have ha : p a = true := h a (by simp)
    have ht : ∀ x ∈ t, p x = true := fun x hx => h x (by simp [hx])
    simp [ha, ih ht]

theorem takeWhile_append_stop {α} (p : α → Bool) (l₁ l₂ : List α) (h : ∃ x ∈ l₁, p x = false) :
    (l₁ ++ l₂).takeWhile p = l₁.takeWhile p := by
  induction l₁ with
  | nil => simp at h
  | cons a t ih =>
    by_cases ha : p a = true
    · have : ∃ x ∈ t, p x = false := by
        obtain ⟨x, hx, hpx⟩ := h
        simp at hx
        rcases hx with rfl | hx
        · simp [ha] at hpx
        · exact ⟨x, hx, hpx⟩
      simp [List.takeWhile, ha, ih this]
    · simp at ha
      simp [List.takeWhile, ha]

theorem count_pos_iff_mem (s : List Char) : s.count nl > 0 ↔ nl ∈ s := by
  simpa using (List.count_pos_iff (a := nl) (l := s))

theorem tsize_append (a b : List Char) : tsize (a ++ b) = op (tsize a) (tsize b) := by
  unfold tsize op col
  simp only [List.count_append, List.reverse_append]
  by_cases hb : b.count nl > 0
  · have hmem : nl ∈ b := (count_pos_iff_mem b).1 hb
    have : ∃ x ∈ b.reverse, (fun c => c != nl) x = false := ⟨nl, by simpa using hmem, by simp⟩
    simp [hb, takeWhile_append_stop _ _ _ this]
  · have hnot : nl ∉ b := fun h => hb ((count_pos_iff_mem b).2 h)
    have hall : ∀ x ∈ b.reverse, (fun c => c != nl) x = true := by
      intro x hx
      have : x ∈ b := by simpa using hx
      have : x ≠ nl := fun h => hnot (h ▸ this)
      simpa using this
    have h0 : b.count nl = 0 := by omega
    have hb_all : b.reverse.takeWhile (fun c => c != nl) = b.reverse := by
      have := takeWhile_append_all (fun c => c != nl) b.reverse [] hall
      simpa using this
    simp [h0, takeWhile_append_all _ _ _ hall, hb_all]
    omega

/-- associativity: the fold over token sizes is a monoid fold -/
theorem op_assoc (a b c : Pos) : op (op a b) c = op a (op b c) := by
  unfold op
  by_cases hc : c.line > 0 <;> by_cases hb : b.line > 0 <;> simp [hc, hb, Nat.add_assoc] <;> omega

theorem tsize_nil : tsize [] = ⟨0, 0⟩ := by simp [tsize, col]

end TSize
