import sys; sys.path.insert(0, '/var/tmp/pyvc_proto')
from pyvc import *
src = sys.argv[1] if len(sys.argv) > 1 else '/repo/autobean_refactor/models/internal/value_properties.py'
prog = Program(['/var/tmp/pyvc_proto/stubs_l2.py', src], {'_M': 'RawModel', '_V': 'object', '_U': 'RawModel'})
H = prog.classes['_RepeatedValueWrapperUpdateHandler']
H.fields.update({'g_a0': IARR, 'g_n0': INT, 'g_a1': IARR, 'g_n1': INT})
spec = Spec('/var/tmp/pyvc_proto/spec_rank.py')
ex = Exec(prog, spec)
for l in ['rank_nonneg', 'rank_mono', 'rank_prefix', 'rank_shift', 'rank_prefix_all', 'rank_shift_all']: check_lemma(ex, l)
def bisect_left(ex, st, args):
    lst, x = args; n = ex.llen(st.heap, lst); arr = ex.lelem(st.heap, lst)
    j, k = Int('j!b'), Int('k!b')
    ex.oblige(st, 'call-pre[bisect_left: list is sorted]', ForAll([j, k], Implies(And(0 <= j, j <= k, k < n), Select(arr, j) <= Select(arr, k))), 'call-pre')
    r = fresh('bis', I)
    st.defs.append(And(0 <= r, r <= n, ForAll([k], Implies(And(0 <= k, k < r), Select(arr, k) < x.t)), ForAll([k], Implies(And(r <= k, k < n), Select(arr, k) >= x.t))))
    return SV(r, INT)
spec.builtins['bisect.bisect_left'] = bisect_left
print(H.fields)
verify(ex, '_RepeatedValueWrapperUpdateHandler', 'handle_splice', timeout=20000)
import subprocess
for n_, ob in enumerate([o for o in ex.obls if o.kind == 'post' and 'forall(lambda i' in o.name]):
    sl = Solver(); sl.add(ex.axioms); sl.add(ob.prem); sl.add(Not(ob.goal))
    open(f'r{n_}.smt2', 'w').write('(set-logic ALL)\n' + sl.to_smt2())
    t0 = time.time(); rr = subprocess.run(['cvc5', '--tlimit=120000', f'r{n_}.smt2'], capture_output=True, text=True)
    print('  cvc5', rr.stdout.strip() or rr.stderr.strip()[:80], round(time.time() - t0, 1))
