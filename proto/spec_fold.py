UFUNS = {'FLn': ['IARR', 'IARR', 'IARR', 'int', 'int'], 'FCol': ['IARR', 'IARR', 'IARR', 'IARR', 'int', 'int'], 'FLni': ['IARR', 'IARR', 'IARR', 'int', 'int']}
AXIOMS = [
    forall(lambda A_e, A_sz, A_ln: FLn(A_e, A_sz, A_ln, 0) == 0, FLn(A_e, A_sz, A_ln, 0)),
    forall(lambda A_e, A_sz, A_ln, n: implies(n >= 0, FLn(A_e, A_sz, A_ln, n + 1) == FLn(A_e, A_sz, A_ln, n) + sel(A_ln, sel(A_sz, sel(A_e, n)))), FLn(A_e, A_sz, A_ln, n + 1)),
    forall(lambda A_e, A_sz, A_ln, A_cl: FCol(A_e, A_sz, A_ln, A_cl, 0) == 0, FCol(A_e, A_sz, A_ln, A_cl, 0)),
    forall(lambda A_e, A_sz, A_ln, A_cl, n: implies(n >= 0, FCol(A_e, A_sz, A_ln, A_cl, n + 1) ==
            ite(sel(A_ln, sel(A_sz, sel(A_e, n))) != 0, sel(A_cl, sel(A_sz, sel(A_e, n))), FCol(A_e, A_sz, A_ln, A_cl, n) + sel(A_cl, sel(A_sz, sel(A_e, n))))), FCol(A_e, A_sz, A_ln, A_cl, n + 1)),
    forall(lambda A_e, A_sz, A_ln: FLni(A_e, A_sz, A_ln, 0) == -1, FLni(A_e, A_sz, A_ln, 0)),
    forall(lambda A_e, A_sz, A_ln, n: implies(n >= 0, FLni(A_e, A_sz, A_ln, n + 1) == ite(sel(A_ln, sel(A_sz, sel(A_e, n))) != 0, n, FLni(A_e, A_sz, A_ln, n))), FLni(A_e, A_sz, A_ln, n + 1)),
]

@lemma
def fold_frame(A_e, A_sz, A_ln1, A_cl1, A_ln2, A_cl2, n):
    # the folds depend only on the sizes of the first n tokens
    requires(0 <= n and forall(lambda k: implies(0 <= k and k < n, sel(A_ln1, sel(A_sz, sel(A_e, k))) == sel(A_ln2, sel(A_sz, sel(A_e, k))) and sel(A_cl1, sel(A_sz, sel(A_e, k))) == sel(A_cl2, sel(A_sz, sel(A_e, k))))))
    ensures(FLn(A_e, A_sz, A_ln1, n) == FLn(A_e, A_sz, A_ln2, n) and FCol(A_e, A_sz, A_ln1, A_cl1, n) == FCol(A_e, A_sz, A_ln2, A_cl2, n) and FLni(A_e, A_sz, A_ln1, n) == FLni(A_e, A_sz, A_ln2, n))
    induction('n', 0)

@contract('_StoreBlock.rebuild')
def _(self):
    requires(self != None and self.tokens != None)
    requires(forall(lambda j: implies(0 <= j and j < len(self.tokens), self.tokens[j] != None and self.tokens[j].size != None and allocated(self.tokens[j].size)), self.tokens[j]))
    invariant(0, size is pre(size) and size != None and self.tokens is pre(self.tokens) and fresh(size),
                 forall(lambda o: implies(o != size, sel(fld('Position.line'), o) == sel(pre(fld('Position.line')), o) and sel(fld('Position.column'), o) == sel(pre(fld('Position.column')), o))),
                 size.line == FLn(elems(self.tokens), fld('Token.size'), pre(fld('Position.line')), K),
                 size.column == FCol(elems(self.tokens), fld('Token.size'), pre(fld('Position.line')), pre(fld('Position.column')), K),
                 last_newline_index == FLni(elems(self.tokens), fld('Token.size'), pre(fld('Position.line')), K))
    ghost_assert(2, use('fold_frame', elems(self.tokens), fld('Token.size'), old(fld('Position.line')), old(fld('Position.column')), fld('Position.line'), fld('Position.column'), len(self.tokens)))
    # caches describe the final heap (I6)
    ensures(self.size != None)
    ensures(self.size.line == FLn(elems(self.tokens), fld('Token.size'), fld('Position.line'), len(self.tokens)))
    ensures(self.size.column == FCol(elems(self.tokens), fld('Token.size'), fld('Position.line'), fld('Position.column'), len(self.tokens)))
    ensures(self.last_newline_index == FLni(elems(self.tokens), fld('Token.size'), fld('Position.line'), len(self.tokens)))
