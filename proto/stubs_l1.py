class RawModel:
    pass
class RWValue:
    pass
class RawTokenModel(Token, RawModel):
    pass
