import sys, subprocess, time; sys.path.insert(0, '/var/tmp/pyvc_proto')
from pyvc import *
prog = Program('/repo/autobean_refactor/token_store.py', {'_T': 'Token'})
prog.classes['TokenStore'].fields.update({'g_off': IARR, 'g_view': IARR, 'g_vlen': INT})
ex = Exec(prog, Spec('/var/tmp/pyvc_proto/spec_ts.py'))
verify(ex, 'TokenStore', '_merge_blocks', verbose=False, timeout=2000)
obs=[o for o in ex.obls if 'post[forall(lambda i, j: implies(0 <= i and i < len(self._blocks) and (0 <=' in o.name and 'sel(self.g_view' in ast.unparse(ast.parse('0')) or 'post[forall(lambda i, j' in o.name]
print(len(obs), [o.name[:60] for o in obs])
for n_,ob in enumerate(obs):
    sl=Solver(); sl.add(ex.axioms); sl.add(ob.prem); sl.add(Not(ob.goal))
    open(f'mb{n_}.smt2','w').write('(set-logic ALL)\n'+sl.to_smt2())
    t0=time.time(); r=subprocess.run(['cvc5','--tlimit=60000',f'mb{n_}.smt2'],capture_output=True,text=True); print('cvc5',n_,r.stdout.strip(),round(time.time()-t0,1))
    pass
