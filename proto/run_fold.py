import sys; sys.path.insert(0, '/var/tmp/pyvc_proto')
from pyvc import *
prog = Program('/repo/autobean_refactor/token_store.py', {'_T': 'Token'})
spec = Spec('/var/tmp/pyvc_proto/spec_fold.py')
ex = Exec(prog, spec)
check_lemma(ex, 'fold_frame')
verify(ex, '_StoreBlock', 'rebuild', timeout=20000)
