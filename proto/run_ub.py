import sys; sys.path.insert(0, '/var/tmp/pyvc_proto')
from pyvc import *
for label, upto in [('pinned tree: indexes valid only up to block.index (what _splice leaves behind)', 'block.index'),
                    ('after the one-line fix: all indexes valid', 'len(s._blocks)')]:
    prog = Program('/repo/autobean_refactor/token_store.py', {'_T': 'Token'})
    prog.classes['TokenStore'].fields.update({'g_off': IARR, 'g_view': IARR, 'g_vlen': INT})
    spec = Spec('/var/tmp/pyvc_proto/spec_ts.py')
    spec.macros['UPTO'] = ast.parse(f"def UPTO(s, block):\n    return {upto}").body[0]
    ex = Exec(prog, spec)
    print('==', label)
    r = verify(ex, 'TokenStore', '_update_block', verbose=False, timeout=20000)
    pos = [f for f in r['failed'] if 'call-pre[TokenStore._merge_blocks:a != None' in f[0]]
    print('   all failed:', [(f[0][:80], f[1]) for f in r['failed']])
    allpos = [o for o in ex.obls if 'call-pre[TokenStore._merge_blocks:a != None' in o.name]
    print('   positional call-preconditions of _merge_blocks:', len(allpos), 'generated;', 'NOT discharged:' if pos else 'all discharged', [(p_[0][:110], p_[1]) for p_ in pos])
