@contract('Token._update_raw_text')
def _(self, value):
    requires(self != None)
    modifies('Token._raw_text', 'Token.size', '_StoreBlock.size', '_StoreBlock.last_newline_index', 'Position.line', 'Position.column')
    ensures(self._raw_text == value)
    ensures(forall(lambda t: implies(t != self, as_ref(t, 'Token')._raw_text == old(as_ref(t, 'Token')._raw_text))))

@contract('SingleValueRawTokenModel._parse_value')
def _(cls, raw_text):
    modifies()
    raises('ValueError')

@contract('SingleValueRawTokenModel.raw_text.setter')
def _(self, raw_text):
    requires(self != None)
    ensures(self._raw_text == raw_text)
    raises('ValueError', 'Token._raw_text', 'SingleValueRawTokenModel._value')
