# extra declarations for the from_children unit of the number expressions: a store that can be built from tokens; every node records the store it was reattached to (ghost g_ts)
class TokenStore:
    @classmethod
    def from_tokens(cls, tokens: list['RawTokenModel']) -> 'TokenStore': ...
