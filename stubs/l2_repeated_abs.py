# the container behind a repeated field, seen from the raw wrapper: its item list, its placeholder token, its store (declarations only)
class Repeated(RawModel):
    items: list[RawModel]
    g_ph: 'RawTokenModel'
    @property
    def placeholder(self) -> 'RawTokenModel': ...

class repeated_field:
    separators: list['RawTokenModel']
    separators_before: Optional[list['RawTokenModel']]
