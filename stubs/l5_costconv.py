# declaration-only stubs for models/cost.py (brace conversion): generated bases with their slots, brace token classes, abstract store
class TokenStore:
    g_view: IARR
    g_vlen: int
    def replace(self, token: 'RawTokenModel', repl: 'RawTokenModel') -> None: ...

class RawTokenModel:
    g_store: Optional[TokenStore]
    g_pos: int
    @classmethod
    def from_default(cls) -> 'RawTokenModel': ...

class LeftBrace(RawTokenModel):
    @classmethod
    def from_default(cls) -> 'LeftBrace': ...
class RightBrace(RawTokenModel):
    @classmethod
    def from_default(cls) -> 'RightBrace': ...
class DblLeftBrace(RawTokenModel):
    @classmethod
    def from_default(cls) -> 'DblLeftBrace': ...
class DblRightBrace(RawTokenModel):
    @classmethod
    def from_default(cls) -> 'DblRightBrace': ...

class Repeated:
    pass

class UnitCostGenerated:
    _token_store: TokenStore
    _left_brace: LeftBrace
    _components: Repeated
    _right_brace: RightBrace
    def __init__(self, token_store: TokenStore, left_brace: LeftBrace, components: Repeated, right_brace: RightBrace) -> None: ...
    @property
    def token_store(self) -> TokenStore: ...

class TotalCostGenerated:
    _token_store: TokenStore
    _dbl_left_brace: DblLeftBrace
    _components: Repeated
    _dbl_right_brace: DblRightBrace
    def __init__(self, token_store: TokenStore, dbl_left_brace: DblLeftBrace, components: Repeated, dbl_right_brace: DblRightBrace) -> None: ...
    @property
    def token_store(self) -> TokenStore: ...
