# declaration-only stubs for the Repeated unit
class TokenStore:
    pass

class TokenTransformer:
    pass

class RawModel:
    @property
    def first_token(self) -> 'RawTokenModel': ...
    @property
    def last_token(self) -> 'RawTokenModel': ...
    def clone(self, token_store: TokenStore, token_transformer: TokenTransformer) -> Self: ...
    def reattach(self, token_store: TokenStore, token_transformer: TokenTransformer) -> Self: ...
    def auto_claim_comments(self) -> None: ...

class RawTokenModel(RawModel):
    pass

class Placeholder(RawTokenModel):
    pass

class RawTreeModel(RawModel):
    _token_store: TokenStore
    def __init__(self, token_store: TokenStore) -> None:
        self._token_store = token_store
