# declaration-only stubs for the atom-value unit (C13): the generated bases of the two compound atoms as plain slots, the sum with its abstract value
class RawModel:
    pass

class NumberAtomExpr(RawModel):
    @property
    def value(self) -> Decimal: ...

class RawTokenModel(NumberAtomExpr):
    _raw_text: str
    @property
    def raw_text(self) -> str:
        return self._raw_text

class UnaryOp(RawTokenModel):
    pass

class NumberAddExpr(RawModel):
    @property
    def value(self) -> Decimal: ...

class NumberUnaryExprGenerated(NumberAtomExpr):
    _unary_op: UnaryOp
    _operand: NumberAtomExpr

class NumberParenExprGenerated(NumberAtomExpr):
    _inner_expr: NumberAddExpr
