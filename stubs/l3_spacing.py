# ghost record attached to the list returned by _find_spacing: lengths of the skipped zero-width prefix and of the spacing run, positions of the collected tokens in the run
class SpRun:
    n0: int
    n1: int
    gk: IARR
