# declaration-only stubs for the CostSpec unit (C09): component classes and the generated base class
class RawModel:
    pass

class NumberExpr(RawModel):
    pass

class Currency(RawModel):
    pass

class Date(RawModel):
    pass

class EscapedString(RawModel):
    pass

class Asterisk(RawModel):
    @classmethod
    def from_default(cls) -> 'Asterisk': ...

class Amount(RawModel):
    raw_number: NumberExpr
    raw_currency: Currency
    @classmethod
    def from_children(cls, number: NumberExpr, currency: Currency) -> 'Amount': ...

class CompoundAmount(RawModel):
    raw_number_per: Optional[NumberExpr]
    raw_number_total: Optional[NumberExpr]
    raw_currency: Optional[Currency]
    @classmethod
    def from_children(cls, number_per: Optional[NumberExpr], number_total: Optional[NumberExpr], currency: Optional[Currency]) -> 'CompoundAmount': ...

class Cost(RawModel):
    pass

class UnitCost(Cost):
    def into_total_cost(self) -> 'TotalCost': ...

class TotalCost(Cost):
    def into_unit_cost(self) -> 'UnitCost': ...

class CostSpecGenerated(RawModel):
    _cost: Cost
    @property
    def raw_cost(self) -> Cost: ...
