# declaration-only stubs for the value-level descriptors of value_properties.py (C09): the inner (raw) descriptor they delegate to, seen as a
# per-instance slot; the class object stored in `_inner_type`, seen as an object with a from_value method; the indent token
class RawTreeModel:
    pass

class InnerRO:
    g_slot: IARR
    def __get__(self, instance: RawTreeModel) -> 'RWValue': ...

class InnerRW(InnerRO):
    def __set__(self, instance: RawTreeModel, value: 'RWValue') -> None: ...

class RWValueType:
    def from_value(self, value: 'object') -> 'RWValue': ...

class RWValueWithIndentType:
    def from_value(self, value: 'object', *, indent: str = '') -> 'RWValue': ...

class IndentToken:
    g_text: str
    @property
    def value(self) -> str: ...

class IndentRO:
    def __get__(self, instance: RawTreeModel) -> IndentToken: ...
