# declaration-only stubs for the editor unit (C16)
class File:
    g_version: int      # ghost: bumped by every edit the caller's block makes
class Parser:
    pass
