# declaration-only stubs for the Custom unit (C15): the shape of number expressions as far as _disambiguate_values looks at it
class RawModel:
    pass
class NumberAtom(RawModel):
    pass
class NumberUnaryExpr(NumberAtom):
    pass
class NumberMulExpr(RawModel):
    raw_operands: list[NumberAtom]
class NumberAddExpr(RawModel):
    raw_operands: list[NumberMulExpr]
class NumberExpr(RawModel):
    raw_number_add_expr: NumberAddExpr
    g_paren: bool
    def wrap_with_parenthesis(self) -> None: ...
class Amount(RawModel):
    raw_number: NumberExpr
class EscapedString(RawModel):
    pass
class Date(RawModel):
    pass
class Bool(RawModel):
    pass
class Account(RawModel):
    pass
