# declaration-only stubs for the number-expression unit (C13): store, token classes, generated bases
class TokenStore:
    def insert_before(self, ref: Optional['RawTokenModel'], tokens: list['RawTokenModel']) -> None: ...
    def insert_after(self, ref: Optional['RawTokenModel'], tokens: list['RawTokenModel']) -> None: ...

class RawModel:
    @property
    def first_token(self) -> 'RawTokenModel': ...
    @property
    def last_token(self) -> 'RawTokenModel': ...
    def detach(self) -> list['RawTokenModel']: ...
    def reattach(self, token_store: TokenStore) -> 'RawModel': ...
    def clone(self, token_store: TokenStore, token_transformer: 'object') -> 'RawModel': ...

class RawTreeModel(RawModel):
    _token_store: TokenStore
    def __init__(self, token_store: TokenStore) -> None:
        self._token_store = token_store
    @property
    def token_store(self) -> TokenStore:
        return self._token_store

class NumberAtomExpr(RawModel):
    @property
    def value(self) -> Decimal: ...

class RawTokenModel(NumberAtomExpr):
    _raw_text: str
    @property
    def raw_text(self) -> str:
        return self._raw_text
    @classmethod
    def from_raw_text(cls, raw_text: str) -> Self: ...
    @classmethod
    def from_default(cls) -> Self: ...

class SimpleRawTokenModel(RawTokenModel):
    pass

class Number(RawTokenModel):
    pass

class UnaryOp(RawTokenModel):
    pass

class LeftParen(RawTokenModel):
    pass

class RightParen(RawTokenModel):
    pass

class Whitespace(RawTokenModel):
    pass

class NumberParenExpr(NumberAtomExpr):
    _token_store: TokenStore
    _left_paren: LeftParen
    _inner_expr: 'NumberAddExpr'
    _right_paren: RightParen
    def __init__(self, token_store: TokenStore, left_paren: LeftParen, inner_expr: 'NumberAddExpr', right_paren: RightParen) -> None:
        self._token_store = token_store
        self._left_paren = left_paren
        self._inner_expr = inner_expr
        self._right_paren = right_paren

class NumberUnaryExpr(NumberAtomExpr):
    _token_store: TokenStore
    _unary_op: UnaryOp
    _operand: NumberAtomExpr
    def __init__(self, token_store: TokenStore, unary_op: UnaryOp, operand: NumberAtomExpr) -> None:
        self._token_store = token_store
        self._unary_op = unary_op
        self._operand = operand

class NumberExprGenerated(RawTreeModel):
    _number_add_expr: 'NumberAddExpr'
    def __init__(self, token_store: TokenStore, number_add_expr: 'NumberAddExpr') -> None:
        self._token_store = token_store
        self._number_add_expr = number_add_expr
    @property
    def raw_number_add_expr(self) -> 'NumberAddExpr':
        return self._number_add_expr
    @property
    def last_token(self) -> RawTokenModel: ...
