# declaration-only stubs for the Transaction payee/narration unit (C09): the generated base class with its three string slots as plain slots
# (assumed contract of optional_node_property: reading returns the slot, assigning replaces it - the token side is l2.fields / l2.replace)
class RawModel:
    pass

class EscapedString(RawModel):
    g_val: str
    @classmethod
    def from_value(cls, value: str) -> 'EscapedString': ...

class TransactionGenerated(RawModel):
    raw_string0: Optional[EscapedString]
    raw_string1: Optional[EscapedString]
    raw_string2: Optional[EscapedString]
