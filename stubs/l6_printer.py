# declaration-only stubs for printer.py: a text sink that records what is written to it (ghost: number of writes, the written strings in order)
class RawTokenModel:
    _raw_text: str
    @property
    def raw_text(self) -> str: ...

class RawModel:
    @property
    def tokens(self) -> list[RawTokenModel]: ...

class OutFile:
    g_n: int
    g_chunks: IARR
    def write(self, s: str) -> int: ...
