# declaration-only stub: the base wrapper whose auto_claim_comments walks the items (each item claims its own leading / trailing comments)
class ItemsWrapperBase:
    g_items_walked: int
    g_interleaving_claims: int
    _repeated: RepeatedItems
    def auto_claim_comments(self) -> None: ...

class RepeatedItems:
    items: list['object']
