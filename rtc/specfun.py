"""Executable definitions of the spec functions / invariants used by the contracts (evaluated on the real objects)."""
from autobean_refactor import token_store as ts


def view(store):
    return [t for b in store._blocks for t in b.tokens]


def tsize(text):
    return (text.count('\n'), len(text) - text.rfind('\n') - 1)


def fold(sizes):
    line = col = 0
    for l, c in sizes:
        line += l
        col = c if l else col + c
    return line, col


def store_inv(store, caches=True):
    """Inv of DESIGN section 4 L0 (I1..I7) on a real TokenStore; returns None or a message naming the broken conjunct"""
    bl = store._blocks
    if len(bl) < 1: return 'I1 Shape: no block'
    seen_lists, seen_tok = set(), set()
    n = 0
    for i, b in enumerate(bl):
        if b.store is not store: return f'I2 Shape: block {i} store back-pointer'
        if b.index != i: return f'I2 Idx: block {i} has index {b.index}'
        if id(b.tokens) in seen_lists: return f'Shape: block {i} shares its token list'
        seen_lists.add(id(b.tokens))
        if len(bl) > 1 and not b.tokens: return f'I5 NonEmpty: block {i} empty among {len(bl)}'
        for j, t in enumerate(b.tokens):
            if id(t) in seen_tok: return f'I3 Hand: token {t!r} occurs twice'
            seen_tok.add(id(t))
            h = t.store_handle
            if h is None or h.block is not b or h.index != j: return f'I3 Hand: token at ({i},{j}) has handle {None if h is None else (h.block.index, h.index)}'
            if caches and (t.size.line, t.size.column) != tsize(t._raw_text): return f'I7 TI: token at ({i},{j}) size {t.size} != tsize({t._raw_text!r})'
        n += len(b.tokens)
        if caches:
            f = fold([(t.size.line, t.size.column) for t in b.tokens])
            if (b.size.line, b.size.column) != f: return f'I6 Caches: block {i} size {(b.size.line, b.size.column)} != fold {f}'
            lni = -1
            for j, t in enumerate(b.tokens):
                if t.size.line: lni = j
            if b.last_newline_index != lni: return f'I6 Caches: block {i} last_newline_index {b.last_newline_index} != {lni}'
    if store._len != n: return f'I4 InvView: _len {store._len} != {n}'
    sizes = set()
    for b in bl:
        if id(b.size) in sizes: return 'I6 separation: block size object shared'
        sizes.add(id(b.size))
    return None


def observers_agree(store, model):
    """every observer of the store against the plain list `model` (C07) and positions against the text (C08)"""
    if list(store) != model: return f'__iter__ {list(store)!r} != {model!r}'
    if len(store) != len(model): return f'__len__ {len(store)} != {len(model)}'
    first = model[0] if model else None
    if store.get_first() is not first: return f'get_first {store.get_first()!r}'
    if store.get_last() is not (model[-1] if model else None): return f'get_last {store.get_last()!r}'
    text = ''
    for k, t in enumerate(model):
        if store.get_index(t) != k: return f'get_index({t!r}) = {store.get_index(t)} != {k}'
        if store.get_prev(t) is not (model[k - 1] if k else None): return f'get_prev({t!r}) wrong'
        if store.get_next(t) is not (model[k + 1] if k + 1 < len(model) else None): return f'get_next({t!r}) wrong'
        p = store.get_position(t)
        want = tsize(text)
        if (p.line, p.column) != want: return f'get_position of #{k} {t!r} = {(p.line, p.column)} != {want} (text before = {text!r})'
        text += t.raw_text
    return None
