"""Executable definitions of the tree-level spec predicates (Valid, text, structure) on the real model objects."""
import io
from autobean_refactor import models
from autobean_refactor.models import base
from autobean_refactor.models.internal import placeholder as _ph

TRIVIA = ('Whitespace', 'Newline', 'Comma', 'Eol', 'Indent', 'DedentMark', 'Placeholder', 'BlockComment', 'InlineComment')


def store_text(store):
    return ''.join(t.raw_text for t in store)


def model_text(m):
    return ''.join(t.raw_text for t in m.tokens)


def real_children(m):
    """children that live in the document (iter_children_formatted also yields class-level template separators)"""
    out = []
    for c, _ in m.iter_children_formatted():
        if isinstance(c, base.RawTokenModel):
            if c.store_handle is None: continue
        out.append(c)
    return out


def valid(root, store=None, path='root'):
    """Valid(m) of DESIGN section 4 L2 (C05): returns None or a message.
    every model reachable from root lives in `store`; first/last in the store, in order; children nested, ordered, non-overlapping;
    every tree leaf is a token currently in the store, no leaf twice."""
    store = store if store is not None else root.token_store
    index = {id(t): i for i, t in enumerate(store)}
    seen_leaves = {}

    def span(m, p):
        if isinstance(m, base.RawTokenModel):
            if id(m) not in index: return None, f'{p}: leaf token {m!r} is not in the store'
            if m.token_store is not store: return None, f'{p}: leaf token {m!r} reports another store'
            if id(m) in seen_leaves: return None, f'{p}: leaf token {m!r} is owned twice ({seen_leaves[id(m)]} and {p})'
            seen_leaves[id(m)] = p
            return (index[id(m)], index[id(m)]), None
        if m.token_store is not store: return None, f'{p}: {type(m).__name__} is attached to another store'
        f, l = m.first_token, m.last_token
        if f is None or l is None: return None, f'{p}: {type(m).__name__} has no first/last token'
        if id(f) not in index or id(l) not in index: return None, f'{p}: first/last token of {type(m).__name__} not in the store'
        a, b = index[id(f)], index[id(l)]
        if a > b: return None, f'{p}: {type(m).__name__} first token after last token'
        prev_end = a - 1
        for k, c in enumerate(real_children(m)):
            cp = f'{p}/{type(c).__name__}[{k}]'
            sp, err = span(c, cp)
            if err: return None, err
            if sp[0] < a or sp[1] > b: return None, f'{cp}: child span {sp} outside parent span {(a, b)}'
            if sp[0] <= prev_end: return None, f'{cp}: child span {sp} overlaps / precedes previous sibling (ends {prev_end})'
            prev_end = sp[1]
        return (a, b), None

    sp, err = span(root, path)
    if err: return err
    # every significant token in the root span is owned by a leaf
    toks = list(store)
    for i in range(sp[0], sp[1] + 1):
        t = toks[i]
        if id(t) not in seen_leaves and type(t).__name__ not in TRIVIA and t.raw_text != '':
            return f'significant token #{i} {t!r} in the span of {path} is owned by no leaf'
    return None


def structure(m):
    """nested (class, text | children) description used to compare an edited model with its re-parse (C06/C15); comments' ownership is ignored"""
    if isinstance(m, base.RawTokenModel):
        n = type(m).__name__
        if n in ('Whitespace', 'Newline', 'Eol', 'Indent', 'DedentMark', 'Placeholder', 'Comma'): return None
        if n == 'BlockComment': return ('BlockComment', getattr(m, 'value', m.raw_text))
        if n == 'InlineComment': return ('InlineComment', m.raw_text.rstrip())
        return (n, m.raw_text)
    kids = [structure(c) for c in real_children(m)]
    return (type(m).__name__, tuple(k for k in kids if k is not None))


def flat_structure(m):
    """like structure() but block comments are hoisted out (attribution aside): (tree without comments, sorted comment texts)"""
    comments = []

    def go(x):
        if isinstance(x, base.RawTokenModel):
            n = type(x).__name__
            if n in ('Whitespace', 'Newline', 'Eol', 'Indent', 'DedentMark', 'Placeholder', 'Comma'): return None
            if n == 'BlockComment': comments.extend(l_.rstrip('\r') for l_ in x.value.split('\n')); return None      # adjacent comment blocks lex as one block (the document's line terminator between them then sits inside the merged value): compare line by line, CR at line ends aside
            if n == 'InlineComment': return ('InlineComment', x.raw_text.rstrip())
            return (n, x.raw_text)
        kids = [go(c) for c in real_children(x)]
        return (type(x).__name__, tuple(k for k in kids if k is not None))
    return go(m), tuple(comments)
