"""Scratch prototype of the pyvc symbolic executor (design validation only)."""
import ast, sys, time, itertools, textwrap
from z3 import *

I = IntSort(); B = BoolSort()
IA = ArraySort(I, I)

# ---------------------------------------------------------------- types
class Ty:
    def __init__(s, kind, arg=None): s.kind, s.arg = kind, arg
    def __repr__(s): return f'{s.kind}[{s.arg}]' if s.arg is not None else s.kind
    def __eq__(s, o): return isinstance(o, Ty) and (s.kind, s.arg) == (o.kind, o.arg)
    def __hash__(s): return hash((s.kind, repr(s.arg)))
INT, BOOL, NONE, STR = Ty('int'), Ty('bool'), Ty('none'), Ty('str')
DEC = Ty('dec')          # decimal.Decimal: an opaque value with uninterpreted arithmetic (A-dec-1)
def Ref(c): return Ty('ref', c)          # possibly-null reference to class c (0 == None)
def ListT(e): return Ty('list', e)       # reference to a list object
def TupT(ts): return Ty('tuple', tuple(ts))
IARR = Ty('iarr')                        # ghost: Int -> Int array value

def ltag(ty):
    if ty is not None and ty.kind == 'dict': return 'list:dict[' + repr(ty.arg) + ']'
    return 'list:' + (repr(ty.arg) if ty is not None and ty.kind == 'list' else '?')

class SV:
    """symbolic value: z3 term (or python tuple of SV for tuples) + static type"""
    def __init__(s, t, ty): s.t, s.ty = t, ty
    def __repr__(s): return f'SV({s.t}:{s.ty})'

def parse_ann(node, tv):
    if node is None: return None
    if isinstance(node, ast.Constant) and isinstance(node.value, str):
        return parse_ann(ast.parse(node.value, mode='eval').body, tv)
    if isinstance(node, ast.Constant) and node.value is None: return NONE
    if isinstance(node, ast.Name):
        n = node.id
        if n == 'int': return INT
        if n == 'bool': return BOOL
        if n == 'str': return STR
        if n == 'Decimal': return DEC
        if n == 'IARR': return IARR
        if n == 'THUNK_STR': return Ty('thunk', STR)
        if n == 'Self': return Ref(tv.get('Self', 'object'))
        if n in tv: return Ref(tv[n])
        return Ref(n)
    if isinstance(node, ast.Attribute): return parse_ann(ast.Name(id=node.attr), tv)
    if isinstance(node, ast.Subscript):
        base = node.value.id if isinstance(node.value, ast.Name) else node.value.attr
        if base in ('Optional', 'ClassVar', 'Final'): return parse_ann(node.slice, tv)
        if base in ('list', 'Sequence', 'Iterable', 'Iterator', 'List'): return ListT(parse_ann(node.slice, tv))
        if base == 'dict' and isinstance(node.slice, ast.Tuple) and len(node.slice.elts) == 2 and parse_ann(node.slice.elts[0], tv) == INT:
            v_ = node.slice.elts[1]
            if not (isinstance(v_, ast.Name) and v_.id == 'Any'): return Ty('dict', parse_ann(v_, tv))     # dict[int, V]: a total map Int -> V, 0 = absent (values are non-null references)
        if base == 'tuple':
            elts = node.slice.elts if isinstance(node.slice, ast.Tuple) else [node.slice]
            if any(isinstance(x, ast.Constant) and x.value is Ellipsis for x in elts): return ListT(parse_ann(elts[0], tv))
            return TupT([parse_ann(e, tv) for e in elts])
        return Ref(base)      # Generic[_T] classes: drop the parameter
    if isinstance(node, ast.BinOp) and isinstance(node.op, ast.BitOr):
        l, r = parse_ann(node.left, tv), parse_ann(node.right, tv)
        return r if l == NONE else l
    raise NotImplementedError(ast.dump(node))

def _is_list_ann(node, tv):
    try: return (parse_ann(node, tv) or Ty('x')).kind == 'list'
    except Exception: return False

# ---------------------------------------------------------------- program model
class ClassInfo:
    def __init__(s, name): s.name, s.fields, s.methods, s.bases, s.dataclass = name, {}, {}, [], False
class Program:
    def __init__(s, path, typevars):
        s.tv = typevars
        s.classes, s.funcs, s.consts = {}, {}, {}
        for pth in ([path] if isinstance(path, str) else path): s.add_file(pth)
    def add_file(s, path):
        s.src = open(path).read(); s.tree = ast.parse(s.src)
        for n in s.tree.body:
            if isinstance(n, ast.ClassDef):
                ci = ClassInfo(n.name); s.classes[n.name] = ci
                ci.bases = []
                for b in n.bases:
                    while isinstance(b, ast.Subscript): b = b.value
                    if isinstance(b, ast.Attribute): ci.bases.append(b.attr)
                    elif isinstance(b, ast.Name): ci.bases.append(b.id)
                ci.dataclass = any('dataclass' in ast.unparse(d) for d in n.decorator_list)
                ci.field_defaults = {}
                for m in n.body:
                    if isinstance(m, ast.AnnAssign) and isinstance(m.target, ast.Name):
                        ci.fields[m.target.id] = parse_ann(m.annotation, dict(s.tv, Self=n.name))
                        ci.field_defaults[m.target.id] = m.value
                    if isinstance(m, ast.FunctionDef):
                        m._file = path
                        ci.methods.setdefault(m.name, []).append(m)
                        # instance attributes declared where they are first assigned:  self.x: T = ...   (Optional[int/bool/Decimal] is not representable: left undeclared)
                        for x in ast.walk(m):
                            if (isinstance(x, ast.AnnAssign) and isinstance(x.target, ast.Attribute) and isinstance(x.target.value, ast.Name) and x.target.value.id == 'self'
                                    and x.target.attr not in ci.fields):
                                try: fty_ = parse_ann(x.annotation, dict(s.tv, Self=n.name))
                                except Exception: fty_ = None
                                opt_ = isinstance(x.annotation, ast.Subscript) and getattr(x.annotation.value, 'id', getattr(x.annotation.value, 'attr', None)) == 'Optional'
                                if fty_ is not None and not (opt_ and fty_ in (INT, BOOL, DEC)):
                                    ci.fields[x.target.attr] = fty_; ci.field_defaults[x.target.attr] = None
                        if m.name == '__init__':
                            anns = {a.arg: a.annotation for a in m.args.args + m.args.kwonlyargs}
                            for x in ast.walk(m):
                                if (isinstance(x, ast.Assign) and isinstance(x.targets[0], ast.Attribute) and isinstance(x.targets[0].value, ast.Name)
                                        and x.targets[0].value.id == 'self' and isinstance(x.value, ast.Name) and anns.get(x.value.id) is not None
                                        and x.targets[0].attr not in ci.fields):
                                    ci.fields[x.targets[0].attr] = parse_ann(anns[x.value.id], dict(s.tv, Self=n.name)); ci.field_defaults[x.targets[0].attr] = None
            elif isinstance(n, ast.FunctionDef):
                n._file = path
                s.funcs[n.name] = n
            elif isinstance(n, ast.Assign) and isinstance(n.targets[0], ast.Name):
                s.consts[n.targets[0].id] = n.value
    def method(s, cls, name, kind=None):
        for c in s.mro(cls):
            for m in s.classes[c].methods.get(name, []):
                decs = [ast.unparse(d) for d in m.decorator_list]
                if any(d.split('.')[-1] == 'overload' for d in decs): continue      # typing.overload stubs: the real definition follows
                if kind == 'setter' and not any(d.endswith('.setter') for d in decs): continue
                if kind == 'getter' and not any(d.split('.')[-1].split('(')[0].endswith('property') for d in decs): continue
                return c, m
        if kind == 'setter':       # a setter may be registered under another function name:  @<name>.setter  def __<name>(self, value)
            for c in s.mro(cls):
                for ms in s.classes[c].methods.values():
                    for m in ms:
                        if any(ast.unparse(d) == f'{name}.setter' for d in m.decorator_list): return c, m
        return None, None
    def mro(s, cls):
        out = [cls]
        for b in s.classes[cls].bases:
            if b in s.classes and b != cls: out += s.mro(b)      # `class Custom(generated.custom.Custom)`: the base of the same name is outside the unit
        return out
    def field_ty(s, cls, f):
        for c in s.mro(cls):
            if f in s.classes[c].fields: return s.classes[c].fields[f]
        return None

# ---------------------------------------------------------------- heap
class Heap:
    """functional heap: field key -> z3 array term"""
    def __init__(s, m=None, alloc=None): s.m = dict(m or {}); s.alloc = alloc
    def copy(s): return Heap(s.m, s.alloc)
_fresh = itertools.count(); pyvc_fresh = _fresh
def fresh(name, sort): return Const(f'{name}!{next(_fresh)}', sort)
def sort_of(ty):
    if ty.kind == 'thunk': return I
    if ty.kind == 'bool': return B
    if ty.kind == 'iarr': return IA
    return I
def field_sort(ty): return ArraySort(I, sort_of(ty))

def _chain(pairs, k):
    r = IntVal(0)
    for pos, t in reversed(pairs): r = If(k == pos, t, r)
    return r

class Obligation:
    def __init__(s, name, prem, goal, kind='assert', focus=None, nohint=None): s.name, s.prem, s.goal, s.kind, s.focus, s.nohint = name, prem, goal, kind, focus, nohint

_hq_cache = {}
def has_quant(t):
    k = t.get_id()
    if k in _hq_cache: return _hq_cache[k]
    if is_quantifier(t): r = True
    elif is_app(t): r = any(has_quant(c) for c in t.children())
    else: r = False
    _hq_cache[k] = r; return r

class Unsupported(Exception): pass
class State:
    def __init__(s, env, heap, pc, ret=None, defs=None):
        s.env, s.heap, s.pc, s.ret = dict(env), heap.copy(), list(pc), ret
        s.defs = list(defs or []); s.exc = None
        s.old = None; s.loop_pre = None; s.old_env = None; s.hints = []; s.loop_pre_env = None
    def fork(s):
        n = State(s.env, s.heap, s.pc, s.ret, s.defs); n.old, n.loop_pre, n.old_env, n.exc = s.old, s.loop_pre, s.old_env, s.exc; n.hints = list(s.hints); n.loop_pre_env = s.loop_pre_env; return n


# ---------------------------------------------------------------- executor
class Contract:
    def __init__(s): s.requires, s.ensures, s.invariants, s.modifies, s.raises, s.ghost_exit = [], [], {}, None, [], []; s.asserts = {}; s.before_call = {}; s.after_assign = {}; s.after_stmt = {}
    # requires/ensures: list of ast expr; invariants: loop ordinal -> list of ast expr; modifies: list of field keys or None(=anything)

class Exec:
    def __init__(s, prog, spec):
        s.p, s.spec = prog, spec
        s.obls = []; s.axioms = []; s.guard = []
        s.consts = {}
        s.str_len = Function('str_len', I, I); s.str_cnt = Function('str_count_nl', I, I); s.str_rf = Function('str_rfind_nl', I, I)
        s._str_cat = Function('str_cat', I, I, I); s._str_cat_axiom = False
        s.axioms += [ForAll([x], And(s.str_len(x) >= 0, s.str_cnt(x) >= 0, s.str_rf(x) >= -1, s.str_rf(x) < s.str_len(x),
                                     (s.str_cnt(x) == 0) == (s.str_rf(x) == -1))) for x in [Int('sx')]]
        s.typ = Function('typ', I, I)   # class id of a reference
        s.dec = {k: Function('dec_' + k, I, I, I) for k in ('add', 'sub', 'mul', 'div')}; s.dec_neg = Function('dec_neg', I, I)
        s.depth = 0; s.cur = '<axioms>'; s.aspect = None; s.owner_stack = []
        st0 = State({}, Heap(alloc=IntVal(1)), [])
        for e in spec.axiom_exprs: s.axioms.append(s.spec_bool(st0, e))
        s.lemma_axioms = {}
    # ---- helpers
    def field_key(s, cls, f):
        for c in s.p.mro(cls):
            if f in s.p.classes[c].fields: return (c, f)
        raise Unsupported(f'no field {cls}.{f}')
    def str_cat(s, a, b):
        """string concatenation: uninterpreted, length and newline count additive (A-str); the axiom is only added to units that concatenate strings"""
        if not s._str_cat_axiom:
            s._str_cat_axiom = True; x, y_ = Int('x!s'), Int('y!s')
            s.axioms.append(ForAll([x, y_], And(s.str_len(s._str_cat(x, y_)) == s.str_len(x) + s.str_len(y_), s.str_cnt(s._str_cat(x, y_)) == s.str_cnt(x) + s.str_cnt(y_)), patterns=[s._str_cat(x, y_)]))
        return s._str_cat(a, b)
    def hget(s, heap, key, ty):
        if key not in heap.m: heap.m[key] = Const(f'H_{key[0]}_{key[1]}', field_sort(ty))
        return heap.m[key]
    def read(s, st, obj, cls, f):
        key = s.field_key(cls, f); ty = s.p.field_ty(cls, f)
        return SV(Select(s.hget(st.heap, key, ty), obj), ty)
    def write(s, st, obj, cls, f, val):
        key = s.field_key(cls, f); ty = s.p.field_ty(cls, f)
        st.heap.m[key] = Store(s.hget(st.heap, key, ty), obj, val)
    def lkeys(s, x):
        ty = x.ty if isinstance(x, SV) else x
        tag = ltag(ty)
        return (tag, 'len'), (tag, 'elem')
    def lterm(s, x): return x.t if isinstance(x, SV) else x
    def llen(s, heap, x, ty=None):
        kl, ke = s.lkeys(x if isinstance(x, SV) else ty)
        if kl not in heap.m: heap.m[kl] = Const('H_' + kl[0].replace(':', '_').replace('[', '_').replace(']', '') + '_len', ArraySort(I, I))
        return Select(heap.m[kl], s.lterm(x))
    def lelem(s, heap, x, ty=None):
        kl, ke = s.lkeys(x if isinstance(x, SV) else ty)
        if ke not in heap.m: heap.m[ke] = Const('H_' + ke[0].replace(':', '_').replace('[', '_').replace(']', '') + '_elem', ArraySort(I, IA))
        return Select(heap.m[ke], s.lterm(x))
    def set_list(s, st, x, n, arr, ty=None):
        kl, ke = s.lkeys(x if isinstance(x, SV) else ty)
        s.llen(st.heap, x, ty); s.lelem(st.heap, x, ty)
        st.heap.m[kl] = Store(st.heap.m[kl], s.lterm(x), n); st.heap.m[ke] = Store(st.heap.m[ke], s.lterm(x), arr)
    def alloc(s, st, what='obj'):
        r = fresh(what, I)
        st.defs.append(r >= st.heap.alloc); st.defs.append(r > 0)
        na = fresh('alloc', I); st.defs.append(na == r + 1); st.heap.alloc = na
        return r
    def uses(s, e): return getattr(e, '_aspect', None) is None or getattr(e, '_aspect', None) == s.aspect
    def proves(s, e): return getattr(e, '_aspect', None) == s.aspect
    def oblige(s, st, name, goal, kind='assert'):
        if getattr(s, 'specmode', False): return
        if s.aspect is not None and kind in ('safety', 'frame', 'raise', 'raises', 'assert'): return
        if kind in ('post', 'call-pre', 'invariant', 'ghost', 'raises') and is_and(goal) and goal.num_args() > 1:
            for i_, g_ in enumerate(goal.children()): s.oblige(st, f'{name}/c{i_}', g_, kind)
            return
        focus = nohint = None
        if st.hints and kind != 'smoke':
            hs = {h.get_id() for h in st.hints}
            focus = [p_ for p_ in st.pc if p_.get_id() in hs or not has_quant(p_)] + list(st.defs) + list(s.guard)
            nohint = [p_ for p_ in st.pc if p_.get_id() not in hs] + list(st.defs) + list(s.guard)
        s.obls.append(Obligation(f'{s.cur}#{name}', list(st.pc) + list(st.defs) + list(s.guard), goal, kind, focus, nohint))
    def truth(s, sv):
        if getattr(sv, 'truth', None) is not None: return sv.truth
        if sv.ty == BOOL: return sv.t
        if sv.ty == INT: return sv.t != 0
        if sv.ty == NONE: return BoolVal(False)
        if sv.ty == STR: return s.str_len(sv.t) != 0
        if sv.ty.kind == 'list': return sv._len_gt0
        if sv.ty.kind == 'ref':
            if sv.ty.arg in s.p.classes: return sv.t != 0
            # an object of a class the unit does not know (typed 'object': a plain value such as a Decimal, a str, a bool): not None, and otherwise unknown
            return And(sv.t != 0, Function('obj_truth', I, BoolSort())(sv.t))
        raise Unsupported(f'truth of {sv.ty}')
    def truth_st(s, st, sv):
        if getattr(sv, 'truth', None) is None and sv.ty.kind == 'list': return s.llen(st.heap, sv) > 0       # never the length at the time the value was bound
        if getattr(sv, 'truth', None) is None and sv.ty.kind == 'ref' and sv.ty.arg in s.p.classes:
            for dn in ('__bool__', '__len__'):
                c_, m_ = s.p.method(sv.ty.arg, dn)
                if m_ is not None:
                    saved = list(s.guard); s.guard.append(sv.t != 0)
                    try: r_ = s.call(st, m_, [sv], owner=c_)
                    finally: s.guard = saved
                    return And(sv.t != 0, s.truth(r_))
        return s.truth(sv)
    def list_sv(s, st, term, ty):
        sv = SV(term, ty); sv._len_gt0 = s.llen(st.heap, sv) > 0; return sv
    # ---- expressions
    def ev(s, st, e):
        m = getattr(s, 'ev_' + type(e).__name__, None)
        if m is None: raise Unsupported(f'expr {type(e).__name__}: {ast.unparse(e)}')
        return m(st, e)
    def ev_Constant(s, st, e):
        v = e.value
        if v is None: return SV(IntVal(0), NONE)
        if isinstance(v, bool): return SV(BoolVal(v), BOOL)
        if isinstance(v, int): return SV(IntVal(v), INT)
        if isinstance(v, str):
            c = s.consts.setdefault(('str', v), Int(f'strlit_{len(s.consts)}'))
            if ('strax', v) not in s.consts:
                s.consts[('strax', v)] = True
                for k_, c_ in list(s.consts.items()):
                    if isinstance(k_, tuple) and k_[0] == 'str' and k_[1] != v: s.axioms.append(c != c_)
                s.axioms.append(And(s.str_len(c) == len(v), s.str_cnt(c) == v.count('\n'), s.str_rf(c) == v.rfind('\n')))
            return SV(c, STR)
        raise Unsupported(f'const {v!r}')
    def ev_Name(s, st, e):
        if e.id in st.env: return st.env[e.id]
        if e.id == 'NotImplemented': return SV(IntVal(-1), NONE)
        if e.id in s.p.consts: return s.global_const(st, e.id)
        raise Unsupported(f'name {e.id}')
    def global_const(s, st, name):
        if name not in s.consts:
            if name in s.spec.symbolic_consts:
                c = Int(name); s.consts[name] = SV(c, INT); s.axioms.append(s.spec.symbolic_consts[name](c))
            else:
                st0 = State({}, Heap(alloc=IntVal(1)), [])
                s.consts[name] = s.ev(st0, s.p.consts[name]); s.axioms += st0.pc + st0.defs
        return s.consts[name]
    def ev_NamedExpr(s, st, e):
        v = s.ev(st, e.value); st.env[e.target.id] = v; return v
    def ev_Tuple(s, st, e):
        vs = [s.ev(st, x) for x in e.elts]; return SV(tuple(vs), TupT([v.ty for v in vs]))
    def ev_UnaryOp(s, st, e):
        v = s.ev(st, e.operand)
        if isinstance(e.op, ast.Not): return SV(Not(s.truth_st(st, v)), BOOL)
        if isinstance(e.op, ast.USub) and v.ty == DEC: return SV(s.dec_neg(v.t), DEC)
        if isinstance(e.op, ast.UAdd) and v.ty == DEC: return v
        if isinstance(e.op, ast.USub): return SV(simplify(-v.t), INT)
        raise Unsupported('unaryop')
    def floordiv(s, st, a, b):
        if is_int_value(b) and b.as_long() > 0:
            q = fresh('q', I); k = b.as_long(); st.defs.append(And(k * q <= a, a < k * q + k)); return q
        raise Unsupported('floordiv by non-constant')
    def ev_BinOp(s, st, e):
        a, b = s.ev(st, e.left), s.ev(st, e.right)
        op = type(e.op)
        if op is ast.Add and a.ty.kind == 'list' and b.ty.kind in ('list', 'tuple'):
            # tuple / list concatenation: a fresh sequence
            n1 = s.llen(st.heap, a); arr1 = s.lelem(st.heap, a)
            if b.ty.kind == 'tuple':
                elems = list(b.t)
                return s.new_list(st, a.ty, n1 + len(elems), lambda k: If(k < n1, Select(arr1, k), _chain([(n1 + i_, x_.t) for i_, x_ in enumerate(elems)], k)))
            n2 = s.llen(st.heap, b); arr2 = s.lelem(st.heap, b)
            return s.new_list(st, a.ty, n1 + n2, lambda k: If(k < n1, Select(arr1, k), Select(arr2, k - n1)))
        if op is ast.Add and a.ty.kind == 'tuple' and b.ty.kind == 'list':
            n2 = s.llen(st.heap, b); arr2 = s.lelem(st.heap, b); elems = list(a.t)
            return s.new_list(st, b.ty, n2 + len(elems), lambda k: If(k < len(elems), _chain([(i_, x_.t) for i_, x_ in enumerate(elems)], k), Select(arr2, k - len(elems))))
        if a.ty.kind == 'list' or b.ty.kind == 'list': raise Unsupported('list concat')
        if a.ty == DEC or b.ty == DEC:
            f = {ast.Add: 'add', ast.Sub: 'sub', ast.Mult: 'mul', ast.Div: 'div'}.get(op)
            if f is None: raise Unsupported('decimal operator')
            return SV(s.dec[f](a.t, b.t), DEC)
        if a.ty == STR or b.ty == STR:
            if op is ast.Add and a.ty == STR and b.ty == STR: return SV(s.str_cat(a.t, b.t), STR)      # concatenation: uninterpreted, length additive (A-str)
            raise Unsupported('string operator')
        if op is ast.Add: return SV(a.t + b.t, INT)
        if op is ast.Sub: return SV(a.t - b.t, INT)
        if op is ast.Mult: return SV(a.t * b.t, INT)
        if op is ast.FloorDiv: return SV(s.floordiv(st, a.t, b.t), INT)
        if op is ast.RShift and is_int_value(b.t): return SV(s.floordiv(st, a.t, IntVal(2 ** b.t.as_long())), INT)
        raise Unsupported(f'binop {op.__name__}')
    def cmp(s, st, op, a, b):
        if a.ty.kind == 'tuple' or b.ty.kind == 'tuple':
            xs, ys = a.t, b.t
            if isinstance(op, ast.Eq): return And([s.cmp(st, op, x, y) for x, y in zip(xs, ys)])
            if isinstance(op, (ast.LtE, ast.Lt)):   # lexicographic
                res = BoolVal(isinstance(op, ast.LtE))
                for x, y in reversed(list(zip(xs, ys))): res = Or(x.t < y.t, And(x.t == y.t, res))
                return res
            raise Unsupported('tuple cmp')
        t = type(op)
        if t is ast.Eq and a.ty.kind == 'list' and b.ty.kind == 'list' and 'EQ' in s.spec.ufuns:
            EQ = s.spec.ufuns['EQ'][0]; k = Int(f'k!eq{next(_fresh)}')
            na, nb = s.llen(st.heap, a), s.llen(st.heap, b); ea, eb = s.lelem(st.heap, a), s.lelem(st.heap, b)
            return And(na == nb, ForAll([k], Implies(And(0 <= k, k < na), EQ(Select(ea, k), Select(eb, k)))))
        if t in (ast.Eq, ast.NotEq) and not getattr(s, 'specmode', False) and a.ty.kind == 'ref' and b.ty.kind == 'ref':
            # `==` between two objects in CODE is their __eq__, not identity: identical objects are equal, None equals only None, and for two different
            # objects nothing is known (uninterpreted) - unless the unit gives the class's __eq__ a contract, which is then used like any other call
            c_, m_ = s.p.method(a.ty.arg, '__eq__') if a.ty.arg in s.p.classes else (None, None)
            q_ = f'{c_}.__eq__' if m_ is not None else None
            if q_ is not None and q_ in s.spec.contracts:
                saved = list(s.guard); s.guard.append(a.t != 0)
                try: r_ = s.call(st, m_, [a, b], owner=c_)
                finally: s.guard = saved
                eq = If(a.t == 0, b.t == 0, s.truth(r_))
            else:
                eq = Or(a.t == b.t, And(a.t != 0, b.t != 0, Function('obj_eq', I, I, BoolSort())(a.t, b.t)))
            return eq if t is ast.Eq else Not(eq)
        if t in (ast.Is, ast.Eq): return a.t == b.t
        if t in (ast.IsNot, ast.NotEq): return a.t != b.t
        if t is ast.Lt: return a.t < b.t
        if t is ast.LtE: return a.t <= b.t
        if t is ast.Gt: return a.t > b.t
        if t is ast.GtE: return a.t >= b.t
        raise Unsupported(f'cmp {t.__name__}')
    def ev_Compare(s, st, e):
        vals = [s.ev(st, e.left)] + [s.ev(st, c) for c in e.comparators]
        return SV(And([s.cmp(st, op, vals[i], vals[i + 1]) for i, op in enumerate(e.ops)]), BOOL)
    def ev_BoolOp(s, st, e):
        if getattr(s, 'specmode', False):
            vs = [s.ev(st, v) for v in e.values]
            if all(v.t.sort() == B for v in vs if not isinstance(v.t, tuple)):
                ts = [s.truth_st(st, v) for v in vs]
                return SV(And(ts) if isinstance(e.op, ast.And) else Or(ts), BOOL)
        # value semantics with short-circuit guards for obligations
        first = s.ev(st, e.values[0]); acc_t, acc_truth, ty = first.t, s.truth_st(st, first), first.ty
        for nxt in e.values[1:]:
            g = acc_truth if isinstance(e.op, ast.And) else Not(acc_truth)
            s.guard.append(g)
            try: v = s.ev(st, nxt)
            finally: s.guard.pop()
            vt = s.truth_st(st, v)
            if acc_t.sort() != v.t.sort():
                # mixed sorts: only the truth value is meaningful
                acc_t = If(g, vt, acc_truth) if v.t.sort() == B else acc_t; ty = BOOL
                acc_truth = If(g, vt, acc_truth); acc_t = acc_truth
            else:
                acc_t = If(g, v.t, acc_t); acc_truth = If(g, vt, acc_truth)
                ty = v.ty if v.ty != NONE else ty
        r = SV(acc_t, ty); r.truth = acc_truth; return r
    def ev_IfExp(s, st, e):
        c = s.truth_st(st, s.ev(st, e.test))
        s.guard.append(c); a = s.ev(st, e.body); s.guard.pop()
        s.guard.append(Not(c)); b = s.ev(st, e.orelse); s.guard.pop()
        return SV(If(c, a.t, b.t), a.ty if a.ty != NONE else b.ty)
    def ev_Attribute(s, st, e):
        if isinstance(e.value, ast.Call) and isinstance(e.value.func, ast.Name) and e.value.func.id == 'super':
            cur_owner = s.owner_stack[-1] if s.owner_stack else None
            c, m = s.super_method(cur_owner, e.attr, 'getter') if cur_owner else (None, None)
            if m is None: raise Unsupported(f'super().{e.attr}')
            return s.call(st, m, [st.env['self']], owner=c)
        if isinstance(e.value, ast.Call) and isinstance(e.value.func, ast.Name) and e.value.func.id == 'type' and len(e.value.args) == 1:
            o = s.ev(st, e.value.args[0])
        else: o = s.ev(st, e.value)
        if o.ty.kind != 'ref': raise Unsupported(f'attr on {o.ty}: {ast.unparse(e)}')
        cls = o.ty.arg
        s.oblige(st, f'nonnull[{ast.unparse(e.value)}]@{e.lineno}', o.t != 0, 'safety')
        if s.p.field_ty(cls, e.attr) is not None:
            r = s.read(st, o.t, cls, e.attr)
            if r.ty.kind == 'list': return s.list_sv(st, r.t, r.ty)
            return r
        c, m = s.p.method(cls, e.attr, 'getter')
        if m is not None: return s.call(st, m, [o], owner=c)
        c, m = s.p.method(cls, e.attr)
        if m is not None: return s.method_value(st, o, c, m)
        raise Unsupported(f'attribute {cls}.{e.attr}')
    def method_value(s, st, o, owner, m):
        """a bound method used as a value (passed as a callback): only for one-argument methods whose contract has an empty write set. The value is a snapshot
        function of the current heap: an array a with  forall t. requires(o, t) ==> ensures(o, t, a[t]).  Sound as long as the callee that receives it does not write
        what the contract reads (its frame is a proved obligation; recorded as engine assumption A-callback)."""
        q = s.qual(owner, m.name); ct = s.spec.contracts.get(q)
        params = [a.arg for a in m.args.args]
        if ct is None or ct.modifies != [] or len(params) != 2: raise Unsupported(f'method value {q}: needs a contract with modifies() and one parameter')
        pty = parse_ann(m.args.args[1].annotation, dict(s.p.tv, Self=owner)); rty = parse_ann(m.returns, dict(s.p.tv, Self=owner))
        a = fresh('fn_' + m.name, IA); t = Int(f't!fn{next(_fresh)}')
        st2 = st.fork(); st2.env = {params[0]: o, params[1]: SV(t, pty), 'result': SV(Select(a, t), rty)}; st2.old = st.heap.copy(); st2.old_env = dict(st2.env)
        old_mode, s.specmode = getattr(s, 'specmode', False), True
        try:
            pre = And([s.spec_bool(st2, r) for r in ct.requires]) if ct.requires else BoolVal(True)
            post = And([s.spec_bool(st2, r) for r in ct.ensures]) if ct.ensures else BoolVal(True)
        finally: s.specmode = old_mode
        st.defs.append(ForAll([t], Implies(pre, post), patterns=[Select(a, t)]))
        sv = SV(a, IARR); sv.ety = rty; return sv
    def norm_index(s, st, n, i, what, lineno):
        if getattr(s, 'specmode', False): return i
        if is_int_value(i) and i.as_long() < 0:
            s.oblige(st, f'index[{what}]@{lineno}', -i.as_long() <= n, 'safety'); return n + i.as_long()
        # symbolic indices must be provably non-negative (engine restriction: keeps ITE out of array indices)
        s.oblige(st, f'index[{what}]@{lineno}', And(0 <= i, i < n), 'safety')
        return i
    def ev_Subscript(s, st, e):
        o = s.ev(st, e.value)
        if o.ty.kind == 'tuple':
            k = e.slice.value; return o.t[k]
        if o.ty.kind == 'dict':
            k_ = s.ev(st, e.slice); arr = s.lelem(st.heap, o)
            s.oblige(st, f'key-present[{ast.unparse(e)}]@{e.lineno}', Select(arr, k_.t) != 0, 'safety')
            return SV(Select(arr, k_.t), o.ty.arg)
        if o.ty.kind == 'ref' and o.ty.arg in s.p.classes and not isinstance(e.slice, ast.Slice) and s.p.method(o.ty.arg, '__getitem__')[1] is not None:
            c_, m_ = s.p.method(o.ty.arg, '__getitem__'); return s.call(st, m_, [o, s.ev(st, e.slice)], owner=c_)
        if o.ty.kind != 'list': raise Unsupported(f'subscript on {o.ty}')
        n = s.llen(st.heap, o); arr = s.lelem(st.heap, o)
        if isinstance(e.slice, ast.Slice):
            if e.slice.step is not None: raise Unsupported('slice step')
            lo = s.clamp(s.ev(st, e.slice.lower).t, n) if e.slice.lower else IntVal(0)
            hi = s.clamp(s.ev(st, e.slice.upper).t, n) if e.slice.upper else n
            return s.new_list(st, o.ty, If(hi > lo, hi - lo, 0), lambda k: Select(arr, lo + k))
        i = s.norm_index(st, n, s.ev(st, e.slice).t, ast.unparse(e), e.lineno)
        ety = o.ty.arg
        r = SV(Select(arr, i), ety)
        if ety.kind == 'list': return s.list_sv(st, r.t, ety)
        return r
    def clamp(s, i, n):
        j = If(i < 0, i + n, i); return If(j < 0, 0, If(j > n, n, j))
    def new_list(s, st, ty, n, f):
        l = s.alloc(st, 'list'); arr = fresh('arr', IA); k = Int('k!')
        st.defs.append(ForAll([k], Implies(And(0 <= k, k < n), Select(arr, k) == f(k))))
        s.set_list(st, l, n, arr, ty); return s.list_sv(st, l, ty)
    def ev_List(s, st, e):
        # [a, *b, c]: concatenation
        parts = []
        for x in e.elts:
            if isinstance(x, ast.Starred): parts.append(('seq', s.ev(st, x.value)))
            else: parts.append(('one', s.ev(st, x)))
        ety = None; off = IntVal(0); segs = []
        for kind, v in parts:
            if kind == 'one': segs.append((off, IntVal(1), (lambda v: lambda k: v.t)(v))); off = off + 1; ety = ety or v.ty
            else:
                n = s.llen(st.heap, v); arr = s.lelem(st.heap, v)
                segs.append((off, n, (lambda arr, off: lambda k: Select(arr, k - off))(arr, off))); off = off + n; ety = ety or v.ty.arg
        def f(k):
            r = IntVal(0)
            for o, n, g in reversed(segs): r = If(And(o <= k, k < o + n), g(k), r)
            return r
        return s.new_list(st, ListT(ety or INT), off, f)
    def pointwise(s, st, e):
        """[x.m(args) for x in xs] / generator form, where m has a `functional('UF')` contract: a fresh sequence with L[k] == UF(xs[k], args...)"""
        if len(e.generators) != 1 or e.generators[0].ifs or not isinstance(e.generators[0].target, ast.Name): return None
        g = e.generators[0]; x = g.target.id; call = e.elt
        if not (isinstance(call, ast.Call) and isinstance(call.func, ast.Attribute) and isinstance(call.func.value, ast.Name) and call.func.value.id == x): return None
        xs = s.ev(st, g.iter)
        if xs.ty.kind != 'list' or xs.ty.arg.kind != 'ref' or xs.ty.arg.arg not in s.p.classes: return None
        c_, m_ = s.p.method(xs.ty.arg.arg, call.func.attr)
        if m_ is None: return None
        q = s.qual(c_, m_.name); ct = s.spec.contracts.get(q)
        uf = getattr(ct, 'functional', None) if ct is not None else None
        if uf is None or uf not in s.spec.ufuns: return None
        args = [s.ev(st, a).t for a in call.args]
        n = s.llen(st.heap, xs); arr = s.lelem(st.heap, xs); f = s.spec.ufuns[uf][0]
        return s.new_list(st, xs.ty, n, lambda k: f(Select(arr, k), *args))
    def ev_GeneratorExp(s, st, e):
        r = s.pointwise(st, e)
        if r is None: raise Unsupported(f'generator expression {ast.unparse(e)[:60]}')
        return r
    def ev_ListComp(s, st, e):
        r = s.pointwise(st, e)
        if r is not None: return r
        g = e.generators[0]
        if not (len(e.generators) == 1 and isinstance(g.iter, ast.Call) and getattr(g.iter.func, 'id', None) == 'enumerate' and len(g.ifs) == 1):
            raise Unsupported('comprehension shape')
        xs = s.ev(st, g.iter.args[0]); n = s.llen(st.heap, xs); arr = s.lelem(st.heap, xs)
        iv, xv = g.target.elts[0].id, g.target.elts[1].id
        rank = s.spec.ufuns['rank'][0]; IsT = s.spec.ufuns['IsT'][0]
        k = Int(f'k!c{next(_fresh)}')
        st2 = st.fork(); st2.env = dict(st.env, **{iv: SV(k, INT), xv: SV(Select(arr, k), xs.ty.arg)})
        pred = s.truth_st(st2, s.ev(st2, g.ifs[0]))
        if not pred.eq(IsT(Select(arr, k))): raise Unsupported('comprehension filter is not the IsT predicate')
        elt = s.ev(st2, e.elt).t
        l = s.alloc(st, 'list'); res = fresh('arr', IA); ty = ListT(INT)
        st.defs.append(ForAll([k], Implies(And(0 <= k, k < n, IsT(Select(arr, k))), Select(res, rank(arr, k)) == elt), patterns=[Select(arr, k)]))
        # every result element comes from a source position (inverse), stated with a skolem-free index function
        src = Function(f'src!{next(_fresh)}', I, I); j = Int(f'j!c{next(_fresh)}')
        st.defs.append(ForAll([j], Implies(And(0 <= j, j < rank(arr, n)), And(0 <= src(j), src(j) < n, IsT(Select(arr, src(j))), rank(arr, src(j)) == j,
                        Select(res, j) == substitute(elt, (k, src(j))))), patterns=[Select(res, j)]))
        s.set_list(st, l, rank(arr, n), res, ty); return s.list_sv(st, l, ty)
    def ev_Call(s, st, e):
        fn = e.func
        if isinstance(fn, ast.Name) and getattr(s, 'specmode', False):
            r = s.spec_call(st, e)
            if r is not None: return r
        if isinstance(fn, ast.Name) and fn.id in st.env and isinstance(st.env[fn.id], SV) and st.env[fn.id].ty == IARR and len(e.args) == 1:
            a_ = s.ev(st, e.args[0]); f_ = st.env[fn.id]
            return SV(Select(f_.t, a_.t), getattr(f_, 'ety', None) or a_.ty)
        if isinstance(fn, ast.Name):
            n = fn.id
            if n == 'len':
                v = s.ev(st, e.args[0])
                if v.ty.kind == 'list': return SV(s.llen(st.heap, v), INT)
                if v.ty == STR: return SV(s.str_len(v.t), INT)
                if v.ty.kind == 'ref' and v.ty.arg in s.p.classes and s.p.method(v.ty.arg, '__len__')[1] is not None:
                    c_, m_ = s.p.method(v.ty.arg, '__len__'); return s.call(st, m_, [v], owner=c_)
                raise Unsupported(f'len of {v.ty}')
            if n == 'isinstance' and isinstance(e.args[1], ast.Attribute) and 'IsT' not in s.spec.ufuns and e.args[1].attr in s.p.classes:
                e = ast.Call(func=e.func, args=[e.args[0], ast.copy_location(ast.Name(id=e.args[1].attr, ctx=ast.Load()), e.args[1])], keywords=[])      # module.Class
            if n == 'isinstance' and isinstance(e.args[1], ast.Attribute) and 'IsT' in s.spec.ufuns:
                v = s.ev(st, e.args[0]); return SV(s.spec.ufuns['IsT'][0](v.t), BOOL)
            if n == 'isinstance' and isinstance(e.args[1], (ast.BinOp, ast.Tuple)):
                v = s.ev(st, e.args[0])
                def names(x):
                    if isinstance(x, ast.BinOp): return names(x.left) + names(x.right)
                    if isinstance(x, ast.Tuple): return [y for z in x.elts for y in names(z)]
                    return [x.id if isinstance(x, ast.Name) else x.attr]
                return SV(Or([s.isinst(v, c_) for c_ in names(e.args[1])]), BOOL)
            if n == 'isinstance' and isinstance(e.args[1], ast.Name) and e.args[1].id in s.p.classes and s.ev(st, e.args[0]).ty.kind == 'ref' \
                    and e.args[1].id not in (s.p.mro(s.ev(st, e.args[0]).ty.arg) if s.ev(st, e.args[0]).ty.arg in s.p.classes else []):
                return SV(s.isinst(s.ev(st, e.args[0]), e.args[1].id), BOOL)
            if n == 'isinstance' and isinstance(e.args[1], ast.Name) and e.args[1].id in ('Iterable', 'Sequence', 'Collection') and e.args[1].id not in s.p.classes:
                v = s.ev(st, e.args[0]); return SV(BoolVal(v.ty.kind in ('list', 'tuple')), BOOL)
            if n == 'isinstance' and isinstance(e.args[1], ast.Name) and e.args[1].id in ('str', 'int', 'bool'):
                v = s.ev(st, e.args[0]); return SV(BoolVal(v.ty == {'str': STR, 'int': INT, 'bool': BOOL}[e.args[1].id]), BOOL)
            if n == 'isinstance':
                v = s.ev(st, e.args[0]); c = e.args[1].id if isinstance(e.args[1], ast.Name) else e.args[1].attr
                if c == 'list': return SV(BoolVal(v.ty.kind == 'list'), BOOL)
                if v.ty.kind == 'ref' and c in s.p.classes and c in s.p.mro(v.ty.arg): return SV(v.t != 0, BOOL)
                raise Unsupported(f'isinstance {c}')
            if n == 'next' and len(e.args) == 2:
                v = s.ev(st, e.args[0]); dflt = s.ev(st, e.args[1])
                if v.ty.kind != 'list': raise Unsupported('next() of a non-list iterator model')
                return SV(If(s.llen(st.heap, v) > 0, Select(s.lelem(st.heap, v), 0), dflt.t), v.ty.arg)
            if n == 'hash' and 'str_hash' in s.spec.ufuns:
                v = s.ev(st, e.args[0])
                if v.ty.kind == 'tuple' and len(v.t) == 2: return SV(s.spec.ufuns['str_hash'][0](v.t[0].t, v.t[1].t), INT)
                raise Unsupported('hash of a non-pair')
            if n == 'id' and len(e.args) == 1 and 'id' not in st.env:
                v = s.ev(st, e.args[0])
                if v.ty.kind not in ('ref', 'list', 'dict'): raise Unsupported('id() of a value')
                return SV(v.t, INT)          # id(x): the reference itself (injective on live objects)
            if n == 'cast' and len(e.args) == 2 and 'cast' not in s.p.funcs:
                v = s.ev(st, e.args[1])
                try: ty_ = parse_ann(e.args[0], s.p.tv)
                except Exception: ty_ = None
                return SV(v.t, ty_) if (ty_ is not None and ty_.kind == 'ref' and v.ty.kind in ('ref', 'none')) else v
            if n in ('min', 'max') and len(e.args) == 2:
                a_, b_ = s.ev(st, e.args[0]), s.ev(st, e.args[1])
                if a_.ty == INT and b_.ty == INT: return SV(If(a_.t <= b_.t, a_.t, b_.t) if n == 'min' else If(a_.t >= b_.t, a_.t, b_.t), INT)
                raise Unsupported('min/max of non-ints')
            if n == 'reversed' and len(e.args) == 1:
                v = s.ev(st, e.args[0])
                if v.ty.kind != 'list': raise Unsupported('reversed() of a non-sequence')
                n_ = s.llen(st.heap, v); a_ = s.lelem(st.heap, v)
                return s.new_list(st, v.ty, n_, lambda k: Select(a_, n_ - 1 - k))
            if n == 'tuple' and len(e.args) == 1:
                v = s.ev(st, e.args[0])
                if v.ty.kind == 'list': return v          # a tuple built from a (fresh) sequence: same abstract sequence
                raise Unsupported('tuple() of a non-sequence')
            if n == 'list':
                if not e.args: return s.new_list(st, ListT(INT), IntVal(0), lambda k: IntVal(0))
                v = s.ev(st, e.args[0])
                if v.ty.kind == 'ref' and v.ty.arg in s.p.classes and s.p.method(v.ty.arg, '__iter__')[1] is not None:
                    c_, m_ = s.p.method(v.ty.arg, '__iter__')
                    v = s.call(st, m_, [v], owner=c_)
                    if v.ty.kind != 'list': raise Unsupported('list(obj): __iter__ contract does not return a list type')
                arr = s.lelem(st.heap, v)
                return s.new_list(st, v.ty, s.llen(st.heap, v), lambda k: Select(arr, k))
            if n == 'cls' and isinstance(st.env.get('cls'), str): return s.construct(st, st.env['cls'], e)
            if n in s.p.classes: return s.construct(st, n, e)
            if n in s.p.funcs: return s.call(st, s.p.funcs[n], [s.ev(st, a) for a in e.args], name=n, kwargs={k.arg: s.ev(st, k.value) for k in e.keywords})
            if n in s.spec.builtins: return s.spec.builtins[n](s, st, [s.ev(st, a) for a in e.args])
            raise Unsupported(f'call {n}')
        if isinstance(fn, ast.Attribute) and ast.unparse(fn) in s.spec.builtins:
            b_ = s.spec.builtins[ast.unparse(fn)]
            if getattr(b_, 'wants_call', False): return b_(s, st, e)
            return b_(s, st, [s.ev(st, a) for a in e.args])
        if isinstance(fn, ast.Attribute) and isinstance(fn.value, ast.Call) and isinstance(fn.value.func, ast.Name) and fn.value.func.id == 'type' and len(fn.value.args) == 1:
            o = s.ev(st, fn.value.args[0])      # type(x).m(...): a classmethod / static call on the (static) class of x
            if o.ty.kind == 'ref' and o.ty.arg in s.p.classes:
                c, m = s.p.method(o.ty.arg, fn.attr)
                if m is not None and any(ast.unparse(d) in ('classmethod', 'staticmethod') for d in m.decorator_list):
                    kw = {k.arg: s.ev(st, k.value) for k in e.keywords}
                    r = s.call(st, m, [s.ev(st, a) for a in e.args], owner=c, cls_arg=o.ty.arg, kwargs=kw)
                    tf = getattr(s, 'typ', None)
                    if tf is not None and isinstance(r, SV) and r.ty.kind == 'ref' and ast.unparse(m.returns or ast.Constant(value=None)) in ('Self', "'Self'"): st.defs.append(tf(r.t) == tf(o.t))
                    return r
            raise Unsupported('type(x).method(...)')
        if isinstance(fn, ast.Call) and isinstance(fn.func, ast.Name) and fn.func.id == 'type' and len(fn.args) == 1:
            o = s.ev(st, fn.args[0])     # type(x)(...): classes under contract declare __init__ @final, so the static class decides
            if o.ty.kind == 'ref' and o.ty.arg in s.p.classes:
                r = s.construct(st, o.ty.arg, e)
                tf = getattr(s, 'typ', None)
                if tf is not None: st.defs.append(tf(r.t) == tf(o.t))
                return r
            raise Unsupported('type(x)(...)')
        if isinstance(fn, ast.Attribute) and isinstance(fn.value, ast.Call) and isinstance(fn.value.func, ast.Name) and fn.value.func.id == 'super':
            cur_owner = s.owner_stack[-1] if s.owner_stack else None
            if cur_owner is None: raise Unsupported('super() outside a method')
            c, m = s.super_method(cur_owner, fn.attr)
            if m is None:
                if fn.attr == '__init__': return SV(IntVal(0), NONE)     # object.__init__
                raise Unsupported(f'super().{fn.attr}')
            kw = {k.arg: s.ev(st, k.value) for k in e.keywords}
            return s.call(st, m, [st.env['self']] + [s.ev(st, a) for a in e.args], owner=c, kwargs=kw)
        if isinstance(fn, ast.Attribute) and isinstance(fn.value, ast.Name) and fn.value.id == 'cls' and isinstance(st.env.get('cls'), str):
            cls = st.env['cls']; c, m = s.p.method(cls, fn.attr)
            if m is None: raise Unsupported(f'cls.{fn.attr}')
            kw = {k.arg: s.ev(st, k.value) for k in e.keywords}
            return s.call(st, m, [s.ev(st, a) for a in e.args], owner=c, cls_arg=cls, kwargs=kw)
        if isinstance(fn, ast.Attribute):
            # str methods
            if fn.attr in ('count', 'rfind') and isinstance(e.args[0], ast.Constant) and e.args[0].value == '\n':
                v = s.ev(st, fn.value)
                if v.ty == STR: return SV((s.str_cnt if fn.attr == 'count' else s.str_rf)(v.t), INT)
            if fn.attr in ('startswith', 'endswith') and len(e.args) == 1 and not e.keywords and not isinstance(fn.value, ast.Constant):
                v = s.ev(st, fn.value)
                if v.ty == STR:       # a pure predicate of the two string values: uninterpreted (nothing is assumed about it)
                    a_ = s.ev(st, e.args[0])
                    if a_.ty != STR: raise Unsupported(f'str.{fn.attr} of a non-string')
                    return SV(Function('str_' + fn.attr, I, I, BoolSort())(v.t, a_.t), BOOL)
            qual = (isinstance(fn.value, ast.Attribute) and isinstance(fn.value.value, ast.Name) and fn.value.value.id not in st.env
                    and fn.value.value.id not in s.p.classes and fn.value.attr in s.p.classes)       # module.Class.method(...)
            if qual or (isinstance(fn.value, ast.Name) and fn.value.id in s.p.classes and fn.value.id not in st.env):   # Class.method(...)
                cls = fn.value.attr if qual else fn.value.id; c, m = s.p.method(cls, fn.attr)
                if m is None and cls in s.p.classes and s.p.classes[cls].dataclass: raise Unsupported('dataclass classmethod')
                args = [s.ev(st, a) for a in e.args]
                kw = {k.arg: s.ev(st, k.value) for k in e.keywords}
                return s.call(st, m, args, owner=c, cls_arg=cls, kwargs=kw)
            if isinstance(fn.value, ast.Name) and fn.value.id not in st.env and fn.value.id not in s.p.classes and fn.attr in s.p.funcs:
                kw = {k.arg: s.ev(st, k.value) for k in e.keywords}
                return s.call(st, s.p.funcs[fn.attr], [s.ev(st, a) for a in e.args], name=fn.attr, kwargs=kw)
            if isinstance(fn.value, ast.Name) and fn.value.id == 'cls' and 'cls' in st.env and isinstance(st.env['cls'], str):
                cls = st.env['cls']; raise Unsupported('cls.method')
            o = s.ev(st, fn.value)
            if o.ty.kind == 'ref' and o.ty.arg in s.p.classes and len(e.args) == 1 and not e.keywords and s.p.field_ty(o.ty.arg, fn.attr) == IARR:
                a_ = s.ev(st, e.args[0])       # a field that holds a one-argument function: an arbitrary total function (ghost array), like a callable parameter
                s.oblige(st, f'nonnull[{ast.unparse(fn.value)}]@{e.lineno}', o.t != 0, 'safety')
                return SV(Select(s.read(st, o.t, o.ty.arg, fn.attr).t, a_.t), Ref('object'))
            if o.ty.kind == 'ref' and o.ty.arg in s.p.classes and not e.args and (s.p.field_ty(o.ty.arg, fn.attr) or Ty('x')).kind == 'thunk':
                fty = s.p.field_ty(o.ty.arg, fn.attr)
                return SV(s.read(st, o.t, o.ty.arg, fn.attr).t, fty.arg)
            if o.ty.kind == 'list': return s.list_method(st, o, fn.attr, e)
            if o.ty.kind == 'ref':
                s.oblige(st, f'nonnull[{ast.unparse(fn.value)}]@{e.lineno}', o.t != 0, 'safety')
                c, m = s.p.method(o.ty.arg, fn.attr)
                if m is None: raise Unsupported(f'method {o.ty.arg}.{fn.attr}')
                kw = {k.arg: s.ev(st, k.value) for k in e.keywords}
                mdecs = [ast.unparse(d) for d in m.decorator_list]
                if 'classmethod' in mdecs: return s.call(st, m, [s.ev(st, a) for a in e.args], owner=c, kwargs=kw, cls_arg=o.ty.arg)
                if 'staticmethod' in mdecs: return s.call(st, m, [s.ev(st, a) for a in e.args], owner=c, kwargs=kw)
                return s.call(st, m, [o] + [s.ev(st, a) for a in e.args], owner=c, kwargs=kw)
        raise Unsupported(f'call {ast.unparse(fn)}')
    def list_method(s, st, o, name, e):
        n = s.llen(st.heap, o); arr = s.lelem(st.heap, o)
        if name == 'append':
            v = s.ev(st, e.args[0]); na = fresh('arr', IA); st.defs.append(na == Store(arr, n, v.t)); s.set_list(st, o, n + 1, na); return SV(IntVal(0), NONE)
        if name == 'extend':
            v = s.ev(st, e.args[0]); m = s.llen(st.heap, v); a2 = s.lelem(st.heap, v)
            na = fresh('arr', IA); k = Int('k!')
            st.defs.append(ForAll([k], Select(na, k) == If(And(k >= n, k < n + m), Select(a2, k - n), Select(arr, k))))
            s.set_list(st, o, n + m, na); return SV(IntVal(0), NONE)
        if name == 'insert':
            i = s.ev(st, e.args[0]).t; v = s.ev(st, e.args[1])
            s.oblige(st, f'index[insert position]@{e.lineno}', And(0 <= i, i <= n), 'safety')      # engine restriction: the position must be normalised (0 <= i <= len)
            na = fresh('arr', IA); k = Int('k!')
            st.defs.append(ForAll([k], Select(na, k) == If(k < i, Select(arr, k), If(k == i, v.t, Select(arr, k - 1)))))
            s.set_list(st, o, n + 1, na); return SV(IntVal(0), NONE)
        if name == 'clear':
            s.set_list(st, o, IntVal(0), arr); return SV(IntVal(0), NONE)
        if name == 'pop':
            i = s.norm_index(st, n, s.ev(st, e.args[0]).t if e.args else IntVal(-1), 'pop', e.lineno)
            na = fresh('arr', IA); k = Int('k!')
            st.defs.append(ForAll([k], Select(na, k) == If(k < i, Select(arr, k), Select(arr, k + 1))))
            r = SV(Select(arr, i), o.ty.arg); s.set_list(st, o, n - 1, na); return r
        raise Unsupported(f'list.{name}')
    def construct(s, st, cls, e):
        ci = s.p.classes[cls]
        obj = s.alloc(st, cls.lower()); st.defs.append(s.typ(obj) == s.class_id(cls))
        names = [f_ for f_ in ci.fields if not f_.startswith('g_')]
        def ev_arg(a, fname):
            if isinstance(a, ast.List) and not a.elts and fname in ci.fields and ci.fields[fname].kind == 'list':
                return s.new_list(st, ci.fields[fname], IntVal(0), lambda k: IntVal(0))
            return s.ev(st, a)
        if ci.dataclass and '__init__' not in ci.methods:
            args = [ev_arg(a, names[i] if i < len(names) else None) for i, a in enumerate(e.args)]; kw = {k.arg: ev_arg(k.value, k.arg) for k in e.keywords}
        else:
            args = [s.ev(st, a) for a in e.args]; kw = {k.arg: s.ev(st, k.value) for k in e.keywords}
        if ci.dataclass and '__init__' not in ci.methods:
            for i, f in enumerate(names):
                if i < len(args): v = args[i]
                elif f in kw: v = kw[f]
                else: v = s.default_value(st, ci, f)
                s.write(st, obj, cls, f, v.t)
            return SV(obj, Ref(cls))
        c, m = s.p.method(cls, '__init__')
        s.call(st, m, [SV(obj, Ref(cls))] + args, owner=c, kwargs=kw)
        return SV(obj, Ref(cls))
    def default_value(s, st, ci, f):
        d = ci.field_defaults[f]
        if d is None: raise Unsupported(f'missing arg {f}')
        if isinstance(d, ast.Call) and 'field' in ast.unparse(d.func):
            fac = [k.value for k in d.keywords if k.arg == 'default_factory'][0]
            if isinstance(fac, ast.Name) and fac.id == 'list': return s.new_list(st, ci.fields[f], IntVal(0), lambda k: IntVal(0))
            return s.ev(st, ast.Call(func=fac, args=[], keywords=[]))
        return s.ev(st, d)
    def super_method(s, owner, name, kind=None):
        for c in s.p.mro(owner)[1:]:
            for m in s.p.classes[c].methods.get(name, []):
                decs = [ast.unparse(d) for d in m.decorator_list]
                if kind == 'setter' and not any(d.endswith('.setter') for d in decs): continue
                if kind == 'getter' and not any(d.split('.')[-1].split('(')[0].endswith('property') for d in decs): continue
                if kind is None and any(d.endswith('.setter') for d in decs): continue
                return c, m
        return None, None
    def isinst(s, v, cname):
        if cname not in s.p.classes: raise Unsupported(f'isinstance against unknown class {cname}')
        subs = [c for c in s.p.classes if cname in s.p.mro(c)]
        return And(v.t != 0, Or([s.typ(v.t) == s.class_id(c) for c in subs]))
    def class_id(s, cls): return IntVal(sorted(s.p.classes).index(cls) + 1)

    # ------------------------------------------------------------ spec expressions
    def spec_ev(s, st, e, extra=None):
        """evaluate a spec expression (ast) in state st; no safety obligations"""
        old_mode, s.specmode = getattr(s, 'specmode', False), True
        saved_env = st.env
        if extra: st.env = dict(st.env, **extra)
        if '$out' in st.env: st.env = dict(st.env, S_out=s.list_sv(st, st.env['$out'].t, st.env['$out'].ty))
        try: return s.ev(st, e)
        finally: s.specmode = old_mode; st.env = saved_env
    def spec_bool(s, st, e, extra=None):
        return s.truth_st(st, s.spec_ev(st, e, extra))
    def spec_call(s, st, e):
        n = e.func.id
        if n in ('old', 'pre'):
            h = st.old if n == 'old' else st.loop_pre
            st2 = st.fork(); st2.heap = h.copy()
            if n == 'old' and getattr(st, 'old_env', None): st2.env = dict(st.env, **st.old_env)
            if n == 'pre' and getattr(st, 'loop_pre_env', None): st2.env = dict(st.env, **st.loop_pre_env)
            r = s.ev(st2, e.args[0]); return r
        if n in ('forall', 'exists'):
            lam = e.args[0]; names = [a.arg for a in lam.args.args]
            vs = [(Const(f'{x}!q{next(_fresh)}', IA) if x.startswith('A_') else Int(f'{x}!q{next(_fresh)}')) for x in names]
            env = dict(st.env); env.update({x: SV(v, IARR if x.startswith('A_') else INT) for x, v in zip(names, vs)})
            st2 = st.fork(); st2.env = env; st2.old = st.old; st2.loop_pre = getattr(st, 'loop_pre', None); st2.old_env = getattr(st, 'old_env', None)
            body = s.truth_st(st2, s.ev(st2, lam.body))
            pats = []
            for pe in e.args[1:]:
                if isinstance(pe, ast.Tuple): pats.append(MultiPattern(*[s.ev(st2, x).t for x in pe.elts]))
                else: pats.append(s.ev(st2, pe).t)
            if pats and not getattr(s, 'nopat', False): return SV((ForAll if n == 'forall' else Exists)(vs, body, patterns=pats), BOOL)
            return SV((ForAll if n == 'forall' else Exists)(vs, body), BOOL)
        if n == 'implies':
            a = s.truth_st(st, s.ev(st, e.args[0]))
            return SV(Implies(a, s.truth_st(st, s.ev(st, e.args[1]))), BOOL)
        if n == 'ite':
            c = s.truth_st(st, s.ev(st, e.args[0])); a, b = s.ev(st, e.args[1]), s.ev(st, e.args[2]); return SV(If(c, a.t, b.t), a.ty)
        if n == 'sel':      # sel(arr, i)
            a, i = s.ev(st, e.args[0]), s.ev(st, e.args[1]); return SV(Select(a.t, i.t), getattr(a, 'ety', INT))
        if n == 'upd':      # upd(arr, i, v): the array with one entry replaced
            a, i, v = s.ev(st, e.args[0]), s.ev(st, e.args[1]), s.ev(st, e.args[2]); r = SV(Store(a.t, i.t, v.t), IARR)
            if hasattr(a, 'ety'): r.ety = a.ety
            return r
        if n == 'elems':    # elems(list) -> ghost array of its elements
            l = s.ev(st, e.args[0]); r = SV(s.lelem(st.heap, l), IARR); r.ety = l.ty.arg; return r
        if n == 'fld':
            cl, f = e.args[0].value.split('.'); key = s.field_key(cl, f); ty = s.p.field_ty(cl, f)
            return SV(s.hget(st.heap, key, ty), IARR)
        if n == 'as_list':  # as_list(x, 'Class') -> list[Class]
            v = s.ev(st, e.args[0]); return s.list_sv(st, v.t, ListT(Ref(e.args[1].value)))
        if n == 'as_ref':   # as_ref(x, 'Class')
            v = s.ev(st, e.args[0]); return SV(v.t, Ref(e.args[1].value))
        if n == 'allocated':
            v = s.ev(st, e.args[0]); return SV(And(v.t > 0, v.t < st.heap.alloc), BOOL)
        if n == 'old_alloc': return SV(st.old.alloc, INT)
        if n in ('dec_add', 'dec_sub', 'dec_mul', 'dec_div'):
            a_, b_ = s.ev(st, e.args[0]), s.ev(st, e.args[1]); return SV(s.dec[n[4:]](a_.t, b_.t), DEC)
        if n == 'dec_neg': return SV(s.dec_neg(s.ev(st, e.args[0]).t), DEC)
        if n == 'count_nl': return SV(s.str_cnt(s.ev(st, e.args[0]).t), INT)
        if n == 'rfind_nl': return SV(s.str_rf(s.ev(st, e.args[0]).t), INT)
        if n == 'strlen': return SV(s.str_len(s.ev(st, e.args[0]).t), INT)
        if n == 'cat': return SV(s.str_cat(s.ev(st, e.args[0]).t, s.ev(st, e.args[1]).t), STR)
        if n == 'fresh':
            v = s.ev(st, e.args[0]); return SV(v.t >= st.old.alloc, BOOL)
        if n in s.spec.macros:
            f = s.spec.macros[n]; names = [a.arg for a in f.args.args]
            env = dict(st.env); env.update(zip(names, [s.ev(st, a) for a in e.args]))
            st2 = st.fork(); st2.env = env; st2.old = getattr(st, 'old', None); st2.loop_pre = getattr(st, 'loop_pre', None); st2.old_env = getattr(st, 'old_env', None)
            body = f.body[-1]; assert isinstance(body, ast.Return)
            return s.ev(st2, body.value)
        if n in s.spec.ufuns:
            f, rty = s.spec.ufuns[n]; return SV(f(*[s.ev(st, a).t for a in e.args]), rty)
        return None

    # ------------------------------------------------------------ calls
    def use_lemma(s, st, e, where):
        args = list(e.args); cond = BoolVal(True)
        if e.func.id == 'use_if': cond = s.spec_bool(st, args[0]); args = args[1:]
        name = args[0].value; f = s.spec.lemmas[name]; names = [a.arg for a in f.args.args]
        st.pc.append(cond) if False else None
        saved_guard = list(s.guard); s.guard.append(cond)
        try:
            vals = [s.spec_ev(st, a) for a in args[1:]]
            env = dict(zip(names, vals))
            req = [c.value.args for c in f.body if c.value.func.id == 'requires']; ens = [c.value.args for c in f.body if c.value.func.id == 'ensures']
            for rs in req:
                for r in rs: s.oblige_force(st, f'lemma-pre[{name} {where}: {ast.unparse(r)[:40]}]', s.spec_bool(st, r, env), 'lemma-pre')
            for es in ens:
                for x in es:
                    g_ = Implies(cond, s.spec_bool(st, x, env)); st.pc.append(g_); st.hints.append(g_)
        finally: s.guard = saved_guard
    def ghost_action(s, st, args):
        kind = args[0].value
        if kind == 'assert':
            g = s.spec_bool(st, args[1]); s.oblige_force(st, f'ghost-assert[{ast.unparse(args[1])[:140]}]', g); st.pc.append(g); st.hints.append(g); return
        if kind in ('use', 'use_if'):
            s.use_lemma(st, ast.Call(func=ast.Name(id=kind, ctx=ast.Load()), args=list(args[1:]), keywords=[]), 'ghost'); return
        if kind == 'let':
            st.env[args[1].value] = s.spec_ev(st, args[2]); return
        if kind == 'letarr':
            lam = args[2]; kname = lam.args.args[0].arg; kv = Int(f'{kname}!g{next(_fresh)}')
            body = s.spec_ev(st, lam.body, {kname: SV(kv, INT)})
            na = fresh('ghost_' + args[1].value, IA); st.defs.append(ForAll([kv], Select(na, kv) == body.t))
            st.env[args[1].value] = SV(na, IARR); return
        if kind in ('seto', 'setinto'):
            slf = s.spec_ev(st, args[1]); args = [args[0]] + list(args[2:]); kind = 'set' if kind == 'seto' else 'setint'
        else: slf = st.env['self']
        fld = args[1].value
        if kind == 'setint':
            v = s.spec_ev(st, args[2]); s.write(st, slf.t, slf.ty.arg, fld, v.t); return
        lam = args[2]; kname = lam.args.args[0].arg
        kv = Int(f'{kname}!g{next(_fresh)}')
        body = s.spec_ev(st, lam.body, {kname: SV(kv, INT)})
        na = fresh('ghost_' + fld, IA); st.defs.append(ForAll([kv], Select(na, kv) == body.t))
        s.write(st, slf.t, slf.ty.arg, fld, na)
    def oblige_force(s, st, name, goal, kind='ghost'):
        old_mode, s.specmode = getattr(s, 'specmode', False), False
        try: s.oblige(st, name, goal, kind)
        finally: s.specmode = old_mode
    def qual(s, owner, name): return f'{owner}.{name}' if owner else name
    def bind(s, fdef, args, kwargs, owner, cls_arg=None):
        params = [a.arg for a in fdef.args.args]
        decs = [ast.unparse(d) for d in fdef.decorator_list]
        env = {}
        if 'classmethod' in decs: env['cls'] = cls_arg or owner; params = params[1:]
        for a_, d_ in zip(fdef.args.kwonlyargs, fdef.args.kw_defaults):
            if kwargs and a_.arg in kwargs: env[a_.arg] = kwargs[a_.arg]
            elif d_ is not None: env[a_.arg] = ('default', d_)
            else: raise Unsupported(f'missing keyword-only arg {a_.arg}')
        defaults = fdef.args.defaults; nd = len(defaults)
        for i, pn in enumerate(params):
            if i < len(args): env[pn] = args[i]
            elif kwargs and pn in kwargs: env[pn] = kwargs[pn]
            else:
                di = i - (len(params) - nd)
                if di < 0: raise Unsupported(f'missing arg {pn}')
                env[pn] = ('default', defaults[di])
        return env
    def call(s, st, fdef, args, owner=None, name=None, kwargs=None, cls_arg=None):
        q = s.qual(owner, name or fdef.name)
        decs = [ast.unparse(d) for d in fdef.decorator_list]
        if any(d.endswith('.setter') for d in decs): q += '.setter'
        env = s.bind(fdef, args, kwargs, owner, cls_arg)
        for k, v in list(env.items()):
            if isinstance(v, tuple) and v and v[0] == 'default': env[k] = s.ev(st, v[1])
        # an argument list whose static element type differs from the parameter's (e.g. the literal []) is re-declared in the parameter's typed list maps
        tvs = dict(s.p.tv, Self=cls_arg or owner)
        for a_ in fdef.args.args:
            v = env.get(a_.arg)
            if a_.annotation is None or not isinstance(v, SV) or v.ty.kind not in ('list', 'none', 'ref', 'tuple'): continue
            try: pty = parse_ann(a_.annotation, tvs)
            except Exception: continue
            if v.ty.kind == 'tuple':
                if pty is not None and pty.kind == 'list':      # a tuple display passed where a homogeneous tuple[T, ...] is expected: a fresh sequence
                    elems_ = list(v.t)
                    env[a_.arg] = s.new_list(st, pty, IntVal(len(elems_)), lambda k, elems_=elems_: _chain([(i_, x_.t) for i_, x_ in enumerate(elems_)], k))
                continue
            if v.ty.kind == 'ref':
                # a parameter annotated with a subclass of the argument's static class: a downcast, justified by an obligation on the dynamic class
                if pty is not None and pty.kind == 'ref' and pty.arg != v.ty.arg and pty.arg in s.p.classes and v.ty.arg in s.p.classes and v.ty.arg in s.p.mro(pty.arg)[1:]:
                    s.oblige(st, f'downcast[{a_.arg}: {v.ty.arg} -> {pty.arg}]', Or(v.t == 0, s.isinst(v, pty.arg)), 'safety')
                    env[a_.arg] = SV(v.t, pty)
                continue
            if v.ty == NONE:
                if pty is not None and pty.kind == 'ref': env[a_.arg] = SV(v.t, pty)
                continue
            if pty is not None and pty.kind == 'list' and pty != v.ty:
                s.set_list(st, v.t, s.llen(st.heap, v), s.lelem(st.heap, v), pty); env[a_.arg] = s.list_sv(st, v.t, pty)
        curc = s.spec.contracts.get(s.cur)
        if curc is not None and q in curc.before_call:
            stg = st.fork(); stg.env = dict(st.env)
            for act in curc.before_call[q]: s.ghost_action(st, act)
        c = s.spec.contracts.get(q)
        self_cls = cls_arg or owner
        if cls_arg is None and args and isinstance(args[0], SV) and args[0].ty.kind == 'ref' and fdef.args.args and fdef.args.args[0].arg == 'self' and args[0].ty.arg in s.p.classes:
            self_cls = args[0].ty.arg          # `Self` is the (static) class of the receiver
        rty = parse_ann(fdef.returns, dict(s.p.tv, Self=self_cls)) if fdef.returns is not None else NONE
        if c is not None and q != s.cur:
            r_ = s.call_contract(st, q, c, env, rty)
            lists_ = ((getattr(curc, 'after_call', {}) or {}).get(q, []) if curc is not None else [])
            if lists_:      # ghost names for the result (and the arguments) of a nested call; the k-th after_call clause names the k-th call on the path (the last one any further call)
                n_ = st.env.get('$ncall_' + q, 0); st.env = dict(st.env); st.env['$ncall_' + q] = n_ + 1
                lists_ = [lists_[min(n_, len(lists_) - 1)]]
            for names_ in lists_:
                st.env[names_[0]] = r_
                for nm_, pn_ in zip(names_[1:], [a_.arg for a_ in fdef.args.args]):
                    if pn_ in env and isinstance(env[pn_], SV): st.env[nm_] = env[pn_]
            return r_
        if q == s.cur and c is not None: return s.call_contract(st, q, c, env, rty)   # recursion via contract
        # inline
        if s.depth > 6: raise Unsupported(f'inline depth at {q}')
        s.depth += 1; s.owner_stack.append(owner)
        try:
            st2 = st.fork(); st2.env = env
            ctx = Ctx(q); outs = list(s.run(st2, fdef.body, ctx)) ; rets = ctx.returns + [(o, SV(IntVal(0), NONE)) for o in outs]
            for o in ctx.raises: s.oblige(o[0], f'unexpected-raise[{q}]', BoolVal(False))
            if not rets: st.pc.append(BoolVal(False)); return SV(IntVal(0), rty)
            return s.merge_into(st, rets, rty)
        finally: s.depth -= 1; s.owner_stack.pop()
    def merge_into(s, st, rets, rty):
        base = len(st.pc)
        if len(rets) == 1:
            o, v = rets[0]; st.pc, st.defs, st.heap = o.pc, o.defs, o.heap; return v
        conds = [And(o.pc[base:]) if len(o.pc) > base else BoolVal(True) for o, _ in rets]
        keys = set().union(*[o.heap.m.keys() for o, _ in rets])
        newm = {}
        for k in keys:
            terms = [o.heap.m.get(k, st.heap.m.get(k)) for o, _ in rets]
            if any(t is None for t in terms):   # field first touched inside: create base symbol
                raise Unsupported(f'merge: field {k} untouched on a branch')
            t = terms[-1]
            for cnd, tt in reversed(list(zip(conds[:-1], terms[:-1]))): t = If(cnd, tt, t) if not tt.eq(t) else t
            newm[k] = t
        al = rets[-1][0].heap.alloc
        for cnd, (o, _) in reversed(list(zip(conds[:-1], rets[:-1]))): al = If(cnd, o.heap.alloc, al)
        vals = [v for _, v in rets]
        if isinstance(vals[0].t, tuple): raise Unsupported('merge tuple returns')
        vt = vals[-1].t
        for cnd, v in reversed(list(zip(conds[:-1], vals[:-1]))): vt = If(cnd, v.t, vt)
        st.pc = st.pc[:base] + [Or(conds)]
        defs = list(st.defs)
        for o, _ in rets:
            for d in o.defs[len(st.defs):]: defs.append(d)
        st.defs = defs; st.heap = Heap(newm, al)
        ty = next((v.ty for v in vals if v.ty != NONE), NONE)
        r = SV(vt, ty if rty is None or rty == NONE else rty)
        if r.ty.kind == 'list': r = s.list_sv(st, r.t, r.ty)
        return r
    def havoc(s, st, mods, tag):
        """mods: None (everything) or list of patterns: 'Class.field' | 'list' | '*' or (pattern, receiver-term|None)"""
        mods = None if mods is None else [m if isinstance(m, tuple) else (m, None) for m in mods]
        def recvs(key):
            """None -> untouched; [] -> whole array; [t1..] -> only these objects"""
            if mods is None or any(p_ == '*' for p_, _ in mods): return []
            if key[0].startswith('list:'): hits = [t for p_, t in mods if p_ == 'list' or p_ == key[0]]
            else: hits = [t for p_, t in mods if p_ == f'{key[0]}.{key[1]}']
            if not hits: return None
            if all(isinstance(t, str) and t == 'FRESH' for t in hits): return 'FRESH'
            hits = [t for t in hits if not (isinstance(t, str) and t == 'FRESH')]
            return [] if any(t is None for t in hits) else hits
        for key in list(st.heap.m):
            r = recvs(key)
            if r is None: continue
            arr = st.heap.m[key]
            if isinstance(r, str) and r == 'FRESH':
                na_ = fresh(f'H_{key[0]}_{key[1]}_{tag}', arr.sort()); o_ = Int('o!f')
                st.defs.append(ForAll([o_], Implies(o_ < st.heap.alloc, Select(na_, o_) == Select(arr, o_)))); st.heap.m[key] = na_
            elif not r: st.heap.m[key] = fresh(f'H_{key[0]}_{key[1]}_{tag}', arr.sort())
            else:
                for t in r: arr = Store(arr, t, fresh(f'h_{key[1]}_{tag}', arr.sort().range()))
                st.heap.m[key] = arr
        na = fresh('alloc', I); st.defs.append(na >= st.heap.alloc); st.heap.alloc = na
        s.assume_closed(st)
    def assume_closed(s, st):
        o, k = Int('o!c'), Int('k!c')
        for key, arr in st.heap.m.items():
            if key[0].startswith('list:') and key[1] == 'elem':
                if 'ref' in key[0] or 'list' in key[0][5:]: st.defs.append(ForAll([o, k], Implies(And(0 < o, o < st.heap.alloc), And(Select(Select(arr, o), k) >= 0, Select(Select(arr, o), k) < st.heap.alloc))))
            elif key[0].startswith('list:'): st.defs.append(ForAll([o], Select(arr, o) >= 0))
            elif key[0] in s.p.classes:
                ty = s.p.field_ty(key[0], key[1])
                if ty.kind in ('ref', 'list'): st.defs.append(ForAll([o], Implies(And(0 < o, o < st.heap.alloc), And(Select(arr, o) >= 0, Select(arr, o) < st.heap.alloc))))
    def parse_mod(s, pat):
        """'Class.f' | 'Class.f@expr' | 'list' | 'list[T]' | 'list[T]@expr' | '*'  ->  (key pattern, receiver source or None)"""
        recv = None
        if '@' in pat: pat, recv = pat.split('@', 1)
        if pat.startswith('dict['):
            pat = 'list:dict[' + repr(Ref(pat[5:-1])) + ']'
        elif pat.startswith('list['):
            inner = pat[5:-1]; ty = {'int': INT, 'bool': BOOL, 'str': STR}.get(inner) or (ListT(Ref(inner[5:-1])) if inner.startswith('list[') else Ref(inner))
            pat = 'list:' + repr(ty)
        return pat, recv
    def resolve_mods(s, st, modifies):
        if modifies is None: return None
        out = []
        for pat in modifies:
            p_, recv = s.parse_mod(pat)
            if recv is None: out.append((p_, None))
            elif recv == 'fresh': out.append((p_, 'FRESH'))
            else: out.append((p_, s.spec_ev(st, ast.parse(recv, mode='eval').body).t))
        return out
    def frame_obligations(s, o, old, c, label):
        """semantic frame: every location outside `modifies` that existed at entry has its entry value"""
        st_pre = o.fork(); st_pre.heap = old.copy(); st_pre.env = dict(o.old_env)
        mods = s.resolve_mods(st_pre, c.modifies)
        if any(p_ == '*' for p_, _ in mods): return
        obj = Int('o!fr')
        for key in sorted(o.heap.m, key=str):
            new_t = o.heap.m[key]; old_t = old.m.get(key)
            if old_t is None or new_t.eq(old_t): continue
            if key[0].startswith('list:'): hits = [t for p_, t in mods if p_ == 'list' or p_ == key[0]]
            else: hits = [t for p_, t in mods if p_ == f'{key[0]}.{key[1]}']
            if any(t is None for t in hits): continue
            excl = [obj != t for t in hits if not isinstance(t, str)]
            s.oblige(o, f'frame[{key[0]}.{key[1]}]#{label}', ForAll([obj], Implies(And(0 < obj, obj < old.alloc, *excl), Select(new_t, obj) == Select(old_t, obj))), 'frame')
    def touch_fields(s, st, c):
        """make sure every field mentioned in a contract's modifies exists in the heap before snapshot"""
        for pat in (c.modifies or []):
            pat = pat.split('@')[0]
            if pat.startswith('list'): pass
            elif '.' in pat and not pat.startswith('*'):
                cl, f = pat.split('.'); s.hget(st.heap, s.field_key(cl, f), s.p.field_ty(cl, f))
    def call_contract(s, st, q, c, env, rty):
        st2 = st.fork(); st2.env = env
        for i, r in enumerate(c.requires):
            if s.proves(r): s.oblige(st, f'call-pre[{q}:{ast.unparse(r)[:140]}]', s.spec_bool(st2, r), 'call-pre')
        s.touch_fields(st, c)
        if c.raises and getattr(s, 'cur_ctx', None) is not None:
            xs = st.fork(); xs.exc = q
            when = getattr(c, 'raises_when', None)
            if when is not None:
                cond = s.spec_bool(st2, when); xs.pc.append(cond); st.pc.append(Not(cond))
            s.cur_ctx.raises.append((xs, ('callee', q, [ast.unparse(a) for a in c.raises[0]])))
        snapshot = st.heap.copy()
        s.havoc(st, s.resolve_mods(st2, c.modifies), q.replace('.', '_'))
        if rty and rty.kind == 'tuple': res = SV(tuple(SV(fresh('res', sort_of(t_)), t_) for t_ in rty.arg), rty)
        else: res = SV(fresh('res', sort_of(rty) if rty else I), rty or NONE)
        if rty and rty.kind == 'list': res = s.list_sv(st, res.t, rty)
        if rty and rty.kind in ('ref', 'list'): st.defs.append(And(res.t >= 0, res.t < st.heap.alloc))
        if rty and rty.kind == 'ref' and rty.arg in s.p.classes: st.defs.append(Or(res.t == 0, s.isinst(res, rty.arg)))      # the dynamic class refines the declared one
        st3 = st.fork(); st3.env = dict(env, result=res); st3.old = snapshot; st3.old_env = dict(env)
        for e in c.ensures:
            if s.uses(e): st.pc.append(s.spec_bool(st3, e))
        uf_ = getattr(c, 'functional', None)
        if uf_ is not None and uf_ in s.spec.ufuns and rty is not None and rty.kind != 'tuple':
            st.pc.append(res.t == s.spec.ufuns[uf_][0](*[env[p_].t for p_ in c.params if p_ in env and isinstance(env[p_], SV)]))
        st.defs = st3.defs
        return res

    # ------------------------------------------------------------ statements
    def run(s, st, stmts, ctx):
        """generator of normal-continuation states after executing stmts"""
        if not stmts: yield st; return
        head, rest = stmts[0], stmts[1:]
        s.cur_ctx = ctx
        m = getattr(s, 'st_' + type(head).__name__, None)
        if m is None: raise Unsupported(f'stmt {type(head).__name__}: {ast.unparse(head)[:80]}')
        cq = s.spec.contracts.get(ctx.q)
        acts = cq.after_stmt.get(ast.unparse(head), []) if (cq is not None and cq.after_stmt and not isinstance(head, (ast.If, ast.For, ast.While))) else []
        for o in m(st, head, ctx):
            for act in acts:
                if s.uses(act[0]): s.ghost_action(o, act)
            top = getattr(ctx, 'topbody', None)
            if top is not None:
                for idx, b in enumerate(top):
                    if b is head:
                        c = s.spec.contracts.get(ctx.q)
                        for e in (c.asserts.get(idx, []) if c else []):
                            if not s.uses(e): continue
                            if isinstance(e, ast.Call) and getattr(e.func, 'id', None) in ('use', 'use_if'):
                                s.use_lemma(o, e, f'after-stmt{idx}'); continue
                            g = s.spec_bool(o, e)
                            if s.proves(e): s.oblige(o, f'ghost-assert-after-stmt{idx}[{ast.unparse(e)[:140]}]', g, 'ghost')
                            o.pc.append(g); o.hints.append(g)
            yield from s.run(o, rest, ctx)
    def st_Pass(s, st, n, ctx): yield st
    def st_Expr(s, st, n, ctx):
        if isinstance(n.value, ast.Constant): yield st; return   # docstring
        if isinstance(n.value, (ast.Yield, ast.YieldFrom)) and getattr(s.spec.contracts.get(ctx.q), 'at_yield', None):
            cq_ = s.spec.contracts.get(ctx.q)
            for act in cq_.at_yield:
                if act[0].value == 'assert':
                    g_ = s.spec_bool(st, act[1]); s.oblige_force(st, f'at-yield[{ast.unparse(act[1])[:120]}]', g_); st.pc.append(g_)
                elif act[0].value == 'havoc':      # the block of the caller may change these heap fields
                    s.havoc(st, s.resolve_mods(st, [a_.value for a_ in act[1:]]), 'yield')
            yield st; return
        if isinstance(n.value, (ast.Yield, ast.YieldFrom)):
            v = s.ev(st, n.value.value); out = st.env['$out']
            ln = s.llen(st.heap, out); arr = s.lelem(st.heap, out)
            if isinstance(n.value, ast.Yield): s.set_list(st, out, ln + 1, Store(arr, ln, v.t))
            else:
                m = s.llen(st.heap, v); a2 = s.lelem(st.heap, v); na = fresh('arr', IA); k = Int('k!')
                st.defs.append(ForAll([k], Select(na, k) == If(And(k >= ln, k < ln + m), Select(a2, k - ln), Select(arr, k))))
                s.set_list(st, out, ln + m, na)
            yield st; return
        s.ev(st, n.value); yield st
    def st_Return(s, st, n, ctx):
        v = s.ev(st, n.value) if n.value is not None else SV(IntVal(0), NONE)
        ctx.returns.append((st, v)); return; yield
    def st_Raise(s, st, n, ctx):
        ctx.raises.append((st, n)); return; yield
    def st_Assert(s, st, n, ctx):
        c = s.truth_st(st, s.ev(st, n.test)); s.oblige(st, f'assert@{n.lineno}', c); st.pc.append(c); yield st
    def st_If(s, st, n, ctx):
        c = s.truth_st(st, s.ev(st, n.test))
        cs = simplify(c)
        a = st.fork(); a.pc.append(c); b = st.fork(); b.pc.append(Not(c))
        s.narrow(a, n.test, True); s.narrow(b, n.test, False)
        if not is_false(cs): yield from s.run(a, n.body, ctx)          # statically dead branches (type tests on the static type) are not executed
        if not is_true(cs): yield from s.run(b, n.orelse, ctx)
    def narrow(s, st, test, positive):
        """flow typing: in the branch where isinstance(x, C) is known to hold (the path condition says so), the local x gets the static class C"""
        if isinstance(test, ast.UnaryOp) and isinstance(test.op, ast.Not): return s.narrow(st, test.operand, not positive)
        if not positive: return
        if isinstance(test, ast.Call) and isinstance(test.func, ast.Name) and test.func.id == 'isinstance' and len(test.args) == 2 and isinstance(test.args[0], ast.Name):
            cn = test.args[1].id if isinstance(test.args[1], ast.Name) else (test.args[1].attr if isinstance(test.args[1], ast.Attribute) else None)
            x = st.env.get(test.args[0].id)
            if cn in s.p.classes and isinstance(x, SV) and x.ty.kind == 'ref' and x.ty.arg in s.p.classes and x.ty.arg in s.p.mro(cn) and x.ty.arg != cn:
                st.env = dict(st.env); st.env[test.args[0].id] = SV(x.t, Ref(cn))
    def pattern_cond(s, st, pat, v, binds):
        if isinstance(pat, ast.MatchAs):
            if pat.pattern is None:
                if pat.name is not None: binds[pat.name] = v
                return BoolVal(True)
            c = s.pattern_cond(st, pat.pattern, v, binds)
            if pat.name is not None: binds[pat.name] = v
            return c
        if isinstance(pat, ast.MatchSingleton) and pat.value is None: return v.t == 0
        if isinstance(pat, ast.MatchClass) and not pat.patterns and not pat.kwd_patterns:
            cn = pat.cls.id if isinstance(pat.cls, ast.Name) else pat.cls.attr
            if v.ty.kind == 'ref' and v.ty.arg in s.p.classes and cn in s.p.mro(v.ty.arg): return v.t != 0
            return s.isinst(v, cn)
        if isinstance(pat, ast.MatchSequence) and v.ty.kind == 'tuple' and len(pat.patterns) == len(v.t):
            return And([s.pattern_cond(st, p_, x_, binds) for p_, x_ in zip(pat.patterns, v.t)])
        raise Unsupported(f'match pattern {ast.unparse(pat)}')
    def st_Match(s, st, n, ctx):
        subj = s.ev(st, n.subject)
        rest = st
        for case in n.cases:
            if case.guard is not None: raise Unsupported('match guard')
            binds = {}
            c = s.pattern_cond(rest, case.pattern, subj, binds)
            a = rest.fork(); a.pc.append(c); a.env = dict(a.env, **binds)
            if not is_false(simplify(c)): yield from s.run(a, case.body, ctx)
            nxt = rest.fork(); nxt.pc.append(Not(c)); rest = nxt
        yield rest          # no case matched: falls through
    def st_With(s, st, n, ctx):
        for item in n.items:
            v = s.ev(st, item.context_expr)
            if item.optional_vars is not None: s.assign(st, item.optional_vars, v)
        yield from s.run(st, n.body, ctx)
    def st_AnnAssign(s, st, n, ctx):
        if n.value is None: yield st; return
        v = None
        if isinstance(n.value, ast.List) and not n.value.elts:
            lt = getattr(s.spec.contracts.get(ctx.q), 'local_types', {}) if s.spec.contracts.get(ctx.q) else {}
            ty = lt.get(getattr(n.target, 'id', None))
            if ty is None:
                try: ty = parse_ann(n.annotation, s.p.tv)
                except Exception: ty = None
            if ty is not None and ty.kind == 'list': v = s.new_list(st, ty, IntVal(0), lambda k: IntVal(0))
        if isinstance(n.value, ast.Dict) and not n.value.keys:
            ty = parse_ann(n.annotation, s.p.tv)
            if ty.kind != 'dict': raise Unsupported('dict literal of an unmodelled type')
            d_ = s.alloc(st, 'dict'); s.set_list(st, d_, IntVal(0), K(I, IntVal(0)), ty); v = SV(d_, ty)
        s.assign(st, n.target, v if v is not None else s.ev(st, n.value)); yield st
    def st_Assign(s, st, n, ctx):
        lt = getattr(s.spec.contracts.get(ctx.q), 'local_types', {}) if s.spec.contracts.get(ctx.q) else {}
        if isinstance(n.value, ast.List) and not n.value.elts and isinstance(n.targets[0], ast.Name) and n.targets[0].id in lt:
            v = s.new_list(st, lt[n.targets[0].id], IntVal(0), lambda k: IntVal(0))
        else: v = s.ev(st, n.value)
        if isinstance(v, SV) and v.ty == NONE and isinstance(n.targets[0], ast.Name) and n.targets[0].id in lt and lt[n.targets[0].id].kind == 'ref':
            v = SV(v.t, lt[n.targets[0].id])       # `x = None` for a local declared (types(x=...)) to hold references
        for t in n.targets: s.assign(st, t, v)
        curc = s.spec.contracts.get(ctx.q)
        if curc is not None:
            for t in n.targets:
                for act in curc.after_assign.get(ast.unparse(t), []): s.ghost_action(st, act)
        yield st
    def assign(s, st, t, v):
        if isinstance(t, ast.Name): st.env[t.id] = v; return
        if isinstance(t, ast.Tuple):
            for x, vv in zip(t.elts, v.t): s.assign(st, x, vv)
            return
        if isinstance(t, ast.Attribute):
            o = s.ev(st, t.value); cls = o.ty.arg
            s.oblige(st, f'nonnull[{ast.unparse(t.value)}]@{t.lineno}', o.t != 0, 'safety')
            if s.p.field_ty(cls, t.attr) is not None: s.write(st, o.t, cls, t.attr, v.t); return
            c, m = s.p.method(cls, t.attr, 'setter')
            if m is not None: s.call(st, m, [o, v], owner=c); return
            raise Unsupported(f'assign attr {cls}.{t.attr}')
        if isinstance(t, ast.Subscript):
            o = s.ev(st, t.value); n = s.llen(st.heap, o); arr = s.lelem(st.heap, o)
            if o.ty.kind == 'dict':
                k_ = s.ev(st, t.slice)
                s.oblige(st, f'dict-value-nonnull[{ast.unparse(t)}]@{t.lineno}', v.t != 0, 'safety')       # engine restriction: 0 encodes 'absent'
                na = fresh('arr', IA); st.defs.append(na == Store(arr, k_.t, v.t)); s.set_list(st, o, n, na); return
            if isinstance(t.slice, ast.Slice):
                lo = s.clamp(s.ev(st, t.slice.lower).t, n) if t.slice.lower else IntVal(0)
                hi = s.clamp(s.ev(st, t.slice.upper).t, n) if t.slice.upper else n
                hi = If(hi < lo, lo, hi)
                m = s.llen(st.heap, v); a2 = s.lelem(st.heap, v); na = fresh('arr', IA); k = Int('k!')
                st.defs.append(ForAll([k], Select(na, k) == If(k < lo, Select(arr, k), If(k < lo + m, Select(a2, k - lo), Select(arr, k - m + (hi - lo))))))
                s.set_list(st, o, n - (hi - lo) + m, na); return
            i = s.norm_index(st, n, s.ev(st, t.slice).t, ast.unparse(t), t.lineno)
            na = fresh('arr', IA); st.defs.append(na == Store(arr, i, v.t)); s.set_list(st, o, n, na); return
        raise Unsupported(f'assign target {ast.unparse(t)}')
    def st_Delete(s, st, n, ctx):
        for t in n.targets:
            if isinstance(t, ast.Subscript) and isinstance(t.slice, ast.Slice):
                empty = s.new_list(st, ListT(INT), IntVal(0), lambda k: IntVal(0)); s.assign(st, t, empty)
            elif isinstance(t, ast.Name): st.env = dict(st.env); st.env.pop(t.id, None)
            else: raise Unsupported('del')
        yield st
    def has_iadd(s, ty): return ty.kind == 'ref' and ty.arg in s.p.classes and s.p.method(ty.arg, '__iadd__')[1] is not None
    def st_AugAssign(s, st, n, ctx):
        cur = s.ev(st, n.target); rhs = s.ev(st, n.value)
        if s.has_iadd(cur.ty):
            c, m = s.p.method(cur.ty.arg, '__iadd__'); r = s.call(st, m, [cur, rhs], owner=c)
        elif cur.ty.kind == 'list' and isinstance(n.op, ast.Add):
            ln = s.llen(st.heap, cur); arr = s.lelem(st.heap, cur); m2 = s.llen(st.heap, rhs); a2 = s.lelem(st.heap, rhs)
            na = fresh('arr', IA); k = Int('k!')
            st.defs.append(ForAll([k], Select(na, k) == If(And(k >= ln, k < ln + m2), Select(a2, k - ln), Select(arr, k))))
            s.set_list(st, cur, ln + m2, na); r = cur
        elif cur.ty == DEC or rhs.ty == DEC:
            f = {ast.Add: 'add', ast.Sub: 'sub', ast.Mult: 'mul', ast.Div: 'div'}[type(n.op)]
            r = SV(s.dec[f](cur.t, rhs.t), DEC)
        else:
            op = {ast.Add: lambda a, b: a + b, ast.Sub: lambda a, b: a - b}[type(n.op)]
            r = SV(op(cur.t, rhs.t), INT)
        s.assign(st, n.target, r); yield st
    # ---- loops
    def modset(s, stmts, owner, seen=None, top=True):
        """conservative (locals, heap patterns) written by stmts; patterns are strings ('Class.f', '*.f', 'list', '*')
        or tuples (pattern, receiver_ast) when the written object is syntactically known"""
        seen = seen if seen is not None else set()
        loc, heap = set(), set()
        def add(pat, recv=None): heap.add((pat, ast.unparse(recv)) if (recv is not None and top) else pat)
        for node in [x for st_ in stmts for x in ast.walk(st_)]:
            if isinstance(node, ast.Name) and isinstance(node.ctx, ast.Store): loc.add(node.id)
            if isinstance(node, (ast.Yield, ast.YieldFrom)): add('list', ast.Name(id='$out'))
            if isinstance(node, ast.Attribute) and isinstance(node.ctx, ast.Store):
                add('*.' + node.attr, node.value)
                for c_ in s.p.classes:
                    for m_ in s.p.classes[c_].methods.get(node.attr, []):
                        if any(ast.unparse(d_).endswith('.setter') for d_ in m_.decorator_list):
                            q_ = s.qual(c_, m_.name) + '.setter'
                            if q_ in seen: continue
                            seen.add(q_)
                            ct_ = s.spec.contracts.get(q_)
                            if ct_ is not None:
                                if ct_.modifies is None: heap.add('*')
                                else: heap |= {(('freshpat', s.parse_mod(x_)[0]) if s.parse_mod(x_)[1] == 'fresh' else s.parse_mod(x_)[0]) for x_ in ct_.modifies}
                            else:
                                l2_, h2_ = s.modset(m_.body, c_, seen, top=False); heap |= h2_
            if isinstance(node, ast.AugAssign):
                t = node.target
                if isinstance(t, ast.Name): loc.add(t.id)
                if isinstance(t, ast.Attribute):
                    add('*.' + t.attr, t.value)
                    if t.attr == 'size': add('Position.line', t); add('Position.column', t)
                    if t.attr == 'tokens': add('list', t)
                if isinstance(t, ast.Name) and t.id in ('pos', 'size'): add('Position.line', t); add('Position.column', t)
            if isinstance(node, ast.Subscript) and isinstance(node.ctx, (ast.Store, ast.Del)): add('list', node.value)
            if isinstance(node, ast.Call):
                f = node.func
                if isinstance(f, ast.Attribute) and f.attr in ('append', 'extend', 'pop', 'insert', 'clear'): add('list', f.value)
                nm = f.attr if isinstance(f, ast.Attribute) else (f.id if isinstance(f, ast.Name) else None)
                if top and isinstance(f, ast.Attribute) and isinstance(f.value, ast.Name) and f.value.id in getattr(s, 'list_locals', ()) and nm in ('append', 'extend', 'pop', 'insert', 'clear', 'reverse', 'index', 'count'):
                    continue        # a method of a local that is declared to be a list: not a same-named method of some class
                if nm in s.p.classes: heap.add(('fresh', nm))
                for c_ in getattr(s.spec.builtins.get(ast.unparse(f)), 'fresh_classes', ()):
                    if c_ in s.p.classes: heap.add(('fresh', c_))
                cands = [(c, m) for c in s.p.classes for m in s.p.classes[c].methods.get(nm, [])] + ([(None, s.p.funcs[nm])] if nm in s.p.funcs else [])
                if isinstance(f, ast.Attribute) and isinstance(f.value, ast.Name) and f.value.id in s.p.classes:
                    cands = [(c, m) for c, m in cands if c in s.p.mro(f.value.id)]
                elif isinstance(f, ast.Attribute) and isinstance(f.value, ast.Call) and isinstance(f.value.func, ast.Name) and f.value.func.id == 'super' and (owner or (s.owner_stack[-1] if s.owner_stack else None)):
                    own_ = owner or s.owner_stack[-1]      # super().m(...): only the classes above the current one
                    cands = [(c, m) for c, m in cands if c in s.p.mro(own_) and c != own_]
                elif isinstance(f, ast.Attribute) and isinstance(f.value, ast.Name) and f.value.id == 'self' and (owner or (s.owner_stack[-1] if s.owner_stack else None)):
                    own_ = owner or s.owner_stack[-1]      # self.m(...): the class itself, what it inherits, and overriding subclasses
                    cands = [(c, m) for c, m in cands if c is not None and (c in s.p.mro(own_) or own_ in s.p.mro(c))]
                elif isinstance(f, ast.Name): cands = [(c, m) for c, m in cands if c is None] if nm in s.p.funcs else cands
                for c, m in cands:
                    q = s.qual(c, m.name)
                    if q in seen: continue
                    seen.add(q)
                    ct = s.spec.contracts.get(q)
                    if ct is not None:
                        if ct.modifies is None: heap.add('*')
                        else: heap |= {(('freshpat', s.parse_mod(m_)[0]) if s.parse_mod(m_)[1] == 'fresh' else s.parse_mod(m_)[0]) for m_ in ct.modifies}
                    else:
                        l2, h2 = s.modset(m.body, c, seen, top=False); heap |= h2
        return loc, heap
    def expand_mods(s, heap_pats, st, loc=(), probe=None):
        """-> list of (key-pattern, receiver term or None)"""
        written_fields = {(p_[0] if isinstance(p_, tuple) else p_).split('.')[-1] for p_ in heap_pats if not (isinstance(p_, tuple) and p_[0] in ('fresh', 'freshpat'))}
        def stable(src):
            t = ast.parse(src.replace('$out', 'S__out'), mode='eval').body
            for x in ast.walk(t):
                if isinstance(x, ast.Name) and x.id in loc: return False
                if isinstance(x, ast.Call): return False
                if isinstance(x, ast.Attribute) and x is not t and x.attr in written_fields: return False
            return True
        out = []
        plain = {(p_[0] if isinstance(p_, tuple) else p_) for p_ in heap_pats if not (isinstance(p_, tuple) and p_[0] in ('fresh', 'freshpat'))}
        for p_ in sorted(heap_pats, key=str):
            if isinstance(p_, tuple) and p_[0] == 'freshpat':
                out.append((p_[1], 'FRESH')); continue
            if isinstance(p_, tuple) and p_[0] == 'fresh':
                for f in s.p.classes[p_[1]].fields: out.append((f'{p_[1]}.{f}', 'FRESH'))
                continue
            pat, recv = (p_ if isinstance(p_, tuple) else (p_, None))
            term = None
            if recv is not None and stable(recv):
                try:
                    old_mode, s.specmode = getattr(s, 'specmode', False), True
                    term = st.env['$out'].t if recv == '$out' else s.ev(st, ast.parse(recv, mode='eval').body).t
                except Unsupported: term = None
                finally: s.specmode = old_mode
            pats = [pat]
            if pat == 'list' and recv is not None:
                try:
                    old_mode, s.specmode = getattr(s, 'specmode', False), True
                    rt = (probe or st).env['$out'].ty if recv == '$out' else s.ev((probe or st).fork(), ast.parse(recv, mode='eval').body).ty
                    if rt.kind in ('list', 'dict'): pats = [ltag(rt)]
                except Exception: pass
                finally: s.specmode = old_mode
            if pat.startswith('*.'):
                f = pat[2:]; pats = [f'{c}.{f}' for c in s.p.classes if f in s.p.classes[c].fields]
                if recv is not None and probe is not None:
                    try:
                        old_mode, s.specmode = getattr(s, 'specmode', False), True
                        rt = s.ev(probe.fork(), ast.parse(recv, mode='eval').body).ty
                        if rt.kind == 'ref' and s.p.field_ty(rt.arg, f) is not None:
                            k_ = s.field_key(rt.arg, f); pats = [f'{k_[0]}.{k_[1]}']
                    except Exception: pass
                    finally: s.specmode = old_mode
            for q in pats: out.append((q, term))
        return out
    def loop(s, st, n, ctx, kind, setup):
        """generic invariant-cut loop. setup(st) -> (count N or None, bind(st,c) -> None, cond(st) for while)"""
        ordinal = s.loop_ordinal(ctx.q, n)
        invs = (s.spec.contracts.get(ctx.q).invariants.get(ordinal, []) if s.spec.contracts.get(ctx.q) else [])
        N, bind, cond = setup(st)
        loc, heap = s.modset(n.body, None)
        cq = s.spec.contracts.get(ctx.q)
        if cq is not None:
            texts = {ast.unparse(x) for b_ in n.body for x in ast.walk(b_) if isinstance(x, ast.stmt)}
            tgts = {ast.unparse(t_) for b_ in n.body for x in ast.walk(b_) if isinstance(x, ast.Assign) for t_ in x.targets}
            called = {(x.func.attr if isinstance(x.func, ast.Attribute) else getattr(x.func, 'id', None)) for b_ in n.body for x in ast.walk(b_) if isinstance(x, ast.Call)}
            acts = [a_ for k_, v_ in cq.after_stmt.items() if k_ in texts for a_ in v_] + [a_ for k_, v_ in cq.after_assign.items() if k_ in tgts for a_ in v_] \
                 + [a_ for k_, v_ in cq.before_call.items() if k_.split('.')[-1] in called for a_ in v_]
            for a_ in acts:
                kind_ = a_[0].value
                if kind_ in ('let', 'letarr'): loc.add(a_[1].value)
                if kind_ in ('set', 'setint'): heap.add(('*.' + a_[1].value, 'self'))
                elif kind_ in ('seto', 'setinto'): heap.add(('*.' + a_[2].value, ast.unparse(a_[1])))
        probe = st.fork()
        try:
            if N is not None: bind(probe, Int('probe!K'))
        except Exception: probe = None
        mods = s.expand_mods(heap, st, loc, probe)
        if getattr(s, 'debug_mods', False): print('   loop', ordinal, 'havoc:', [(p_, str(t)[:40] if t is not None else None) for p_, t in mods], 'locals', loc)
        pre = st.heap.copy()
        pre_env = {k_: v_ for k_, v_ in st.env.items() if k_ in loc}
        def inv_at(sx, c, label):
            sx.loop_pre = pre; sx.loop_pre_env = pre_env
            extra = {'K': SV(c, INT)} if c is not None else {}
            for i, e in enumerate(invs):
                if s.proves(e): s.oblige(sx, f'loop{ordinal}-inv-{label}[{ast.unparse(e)[:140]}]@{n.lineno}', s.spec_bool(sx, e, extra), 'invariant')
        # entry
        st0 = st.fork(); 
        if N is not None: bind(st0, IntVal(0), entry=True)
        inv_at(st0, IntVal(0), 'entry')
        # arbitrary iteration
        h = st.fork(); s.havoc(h, mods, f'L{ordinal}')
        for v in loc:
            if v in h.env and not isinstance(h.env[v].t, tuple):
                nv = SV(fresh(v, h.env[v].t.sort()), h.env[v].ty)
                if hasattr(h.env[v], 'ety'): nv.ety = h.env[v].ety
                if h.env[v].ty.kind == 'ref': h.defs.append(And(nv.t >= 0, nv.t < h.heap.alloc))
                h.env[v] = nv if nv.ty.kind != 'list' else s.list_sv(h, nv.t, nv.ty)
        c = fresh('K', I)
        h.loop_pre = pre; h.loop_pre_env = pre_env
        if N is not None: h.pc.append(And(0 <= c, c <= N))
        else: h.pc.append(0 <= c)
        extra = {'K': SV(c, INT)}
        for e in invs:
            if s.uses(e): h.pc.append(s.spec_bool(h, e, extra))
        # body branch
        b = h.fork()
        if N is not None: b.pc.append(c < N); bind(b, c)
        else:
            cv_ = s.truth_st(b, s.ev(b, cond)); b.pc.append(cv_)
        b.env = dict(b.env); b.env['K'] = SV(c, INT)
        if N is not None:
            cov = b.fork(); cov.pc.append(c >= 1); s.oblige(cov, f'SMOKE-loop{ordinal}-second-iteration@{n.lineno}', BoolVal(False), 'smoke')
        lctx = Ctx(ctx.q); lctx.loops = ctx.loops; lctx.returns, lctx.raises = ctx.returns, ctx.raises
        lctx.breaks, lctx.continues = [], []
        ends = list(s.run(b, n.body, lctx)) + lctx.continues
        ctx.loops = lctx.loops
        for e_ in ends:
            if N is not None: bind(e_, c + 1, entry=True)
            inv_at(e_, c + 1, 'preserved')
        # exit branch
        x = h.fork()
        if N is not None: x.pc.append(c == N); bind(x, c, entry=True)
        else:
            cv_ = s.truth_st(x, s.ev(x, cond)); x.pc.append(Not(cv_))
        x.env = dict(x.env); x.env['K_loop%d' % ordinal] = SV(c, INT)
        yield from s.run(x, n.orelse, ctx)
        for bst in lctx.breaks: yield bst
    def loop_ordinal(s, q, node):
        tab = s.__dict__.setdefault('_loop_tabs', {})
        if id(node) not in tab:
            # find the enclosing function def by scanning all known functions once
            for fd in [m for c in s.p.classes.values() for ms in c.methods.values() for m in ms] + list(s.p.funcs.values()):
                k = 0
                for x in ast.walk(fd):
                    if isinstance(x, (ast.For, ast.While)) and x is not fd: pass
                loops = sorted([x for x in ast.walk(fd) if isinstance(x, (ast.For, ast.While))], key=lambda x: (x.lineno, x.col_offset))
                for k, x in enumerate(loops): tab[id(x)] = k
        return tab[id(node)]
    def st_Break(s, st, n, ctx): ctx.breaks.append(st); return; yield
    def st_Continue(s, st, n, ctx): ctx.continues.append(st); return; yield
    def st_While(s, st, n, ctx):
        yield from s.loop(st, n, ctx, 'while', lambda st_: (None, None, n.test))
    def st_For(s, st, n, ctx):
        it = n.iter
        def setup(st_):
            if isinstance(it, ast.Call) and isinstance(it.func, ast.Name) and it.func.id == 'range':
                a = [s.ev(st_, x).t for x in it.args]
                lo, hi, step = (IntVal(0), a[0], 1) if len(a) == 1 else (a[0], a[1], 1) if len(a) == 2 else (a[0], a[1], a[2].as_long())
                N = If(hi > lo, hi - lo, 0) if step == 1 else If(lo > hi, lo - hi, 0)
                assert step in (1, -1)
                def bind(sx, c, entry=False): sx.env[n.target.id] = SV(lo + c * step, INT)
                return N, bind, None
            if isinstance(it, ast.Call) and isinstance(it.func, ast.Name) and it.func.id == 'zip' and len(it.args) == 2 and isinstance(n.target, ast.Tuple):
                sa, sb = s.ev(st_, it.args[0]), s.ev(st_, it.args[1])
                if sa.ty.kind != 'list' or sb.ty.kind != 'list': raise Unsupported('zip of non-lists')
                na, nb = s.llen(st_.heap, sa), s.llen(st_.heap, sb)
                N = If(na < nb, na, nb)
                def bind(sx, c, entry=False):
                    sx.env['SEQ'] = sa
                    if entry: return
                    sx.env[n.target.elts[0].id] = SV(Select(s.lelem(sx.heap, sa), c), sa.ty.arg)
                    sx.env[n.target.elts[1].id] = SV(Select(s.lelem(sx.heap, sb), c), sb.ty.arg)
                return N, bind, None
            enum = isinstance(it, ast.Call) and isinstance(it.func, ast.Name) and it.func.id == 'enumerate'
            seq = s.ev(st_, it.args[0] if enum else it)
            if seq.ty.kind == 'ref' and seq.ty.arg in s.p.classes and s.p.method(seq.ty.arg, '__iter__')[1] is not None:
                c_, m_ = s.p.method(seq.ty.arg, '__iter__'); seq = s.call(st_, m_, [seq], owner=c_)
            if seq.ty.kind != 'list': raise Unsupported(f'for over {seq.ty}')
            N = s.llen(st_.heap, seq); arr0 = s.lelem(st_.heap, seq)
            def bind(sx, c, entry=False):
                sx.env['SEQ'] = seq
                if entry: return
                el = SV(Select(s.lelem(sx.heap, seq), c), seq.ty.arg)
                if enum:
                    sx.env[n.target.elts[0].id] = SV(c, INT); sx.env[n.target.elts[1].id] = el
                else: sx.env[n.target.id] = el
            return N, bind, None
        yield from s.loop(st, n, ctx, 'for', setup)

class Ctx:
    def __init__(s, q): s.q, s.returns, s.raises, s.loops, s.breaks, s.continues = q, [], [], 0, [], []

# ---------------------------------------------------------------- spec loading
class Spec:
    def __init__(s, path):
        s.contracts, s.macros, s.symbolic_consts, s.builtins, s.ufuns = {}, {}, {}, {}, {}; s.axiom_exprs = []; s.lemmas = {}
        tree = ast.parse(open(path).read())
        for n in tree.body:
            if isinstance(n, ast.FunctionDef):
                d = n.decorator_list[0]
                if isinstance(d, ast.Name) and d.id == 'macro': s.macros[n.name] = n
                elif isinstance(d, ast.Name) and d.id == 'lemma': s.lemmas = getattr(s, 'lemmas', {}); s.lemmas[n.name] = n
                elif isinstance(d, ast.Call) and d.func.id == 'contract':
                    c = Contract(); c.params = [a.arg for a in n.args.args]
                    for st_ in n.body:
                        call = st_.value; kind = call.func.id
                        asp = next((k.value.value for k in call.keywords if k.arg == 'aspect'), None)
                        for a_ in call.args: a_._aspect = asp
                        if kind == 'requires': c.requires += call.args
                        elif kind == 'ensures': c.ensures += call.args
                        elif kind == 'modifies': c.modifies = [a.value for a in call.args]
                        elif kind == 'invariant': c.invariants.setdefault(call.args[0].value, []).extend(call.args[1:])
                        elif kind == 'ghost': c.ghost_exit.append(call.args)
                        elif kind == 'after_assign': c.after_assign.setdefault(call.args[0].value, []).append(call.args[1:])
                        elif kind == 'after_call': c.after_call = getattr(c, 'after_call', {}); c.after_call.setdefault(call.args[0].value, []).append([a_.value for a_ in call.args[1:]])
                        elif kind == 'before_call': c.before_call.setdefault(call.args[0].value, []).append(call.args[1:])
                        elif kind == 'functional':
                            c.functional = call.args[0].value
                        elif kind == 'at_yield':
                            c.at_yield = getattr(c, 'at_yield', []); c.at_yield.append(call.args)
                        elif kind == 'types':
                            c.local_types = getattr(c, 'local_types', {})
                            for k in call.keywords: c.local_types[k.arg] = parse_ann(k.value, {})
                        elif kind == 'after_stmt': c.after_stmt.setdefault(ast.unparse(ast.parse(call.args[0].value).body[0]), []).append(call.args[1:])
                        elif kind == 'exit_assert': c.exit_asserts = getattr(c, 'exit_asserts', []) + list(call.args)
                        elif kind == 'ghost_assert': c.asserts.setdefault(call.args[0].value, []).extend(call.args[1:])
                        elif kind == 'raises':
                            c.raises.append(call.args)
                            for k in call.keywords:
                                if k.arg == 'when': c.raises_when = k.value
                    s.contracts[d.args[0].value] = c
            elif isinstance(n, ast.Assign) and n.targets[0].id == 'UFUNS':
                srt = {'int': I, 'bool': B, 'IARR': IA}; tys = {'int': INT, 'bool': BOOL, 'IARR': IARR}
                for k, v in zip(n.value.keys, n.value.values):
                    sig = [x.value for x in v.elts]
                    s.ufuns[k.value] = (Function(k.value, *[srt[x] for x in sig]), tys[sig[-1]])
            elif isinstance(n, ast.Assign) and n.targets[0].id == 'AXIOMS':
                s.axiom_exprs = list(n.value.elts)
            elif isinstance(n, ast.Assign) and n.targets[0].id == 'SYMBOLIC':
                for k, v in zip(n.value.keys, n.value.values):
                    lo = v.value
                    s.symbolic_consts[k.value] = (lambda lo: lambda c: c >= lo)(lo)

# ---------------------------------------------------------------- driver
def generate(ex, owner, name, kind=None):
    """symbolically execute one real function against its contract; returns (qualified name, obligations) or raises Unsupported"""
    p = ex.p
    if owner: c_, fdef = p.method(owner, name, kind)
    else: fdef = p.funcs.get(name)
    if fdef is None: raise SpecBinding(f'function {owner}.{name} not found in source')
    q = ex.qual(owner, name) + ('.setter' if kind == 'setter' else '')
    ex.cur = q; ex.obls = []; ex.depth = 0
    c = ex.spec.contracts.get(q) or Contract()
    tv = dict(p.tv, Self=owner)
    # ---- does the contract still bind to this body? anchors that match nothing mean the proof script no longer describes the code: undecided, not a failure
    stmts_ = {ast.unparse(x) for x in ast.walk(fdef) if isinstance(x, ast.stmt)}
    for anchor in c.after_stmt:
        if anchor not in stmts_: raise SpecBinding(f'after_stmt anchor {anchor[:80]!r} matches no statement of {q}')
    assigned_ = {ast.unparse(t_) for x in ast.walk(fdef) if isinstance(x, ast.Assign) for t_ in x.targets}
    for anchor in c.after_assign:
        if anchor not in assigned_: raise SpecBinding(f'after_assign anchor {anchor!r} matches no assignment of {q}')
    nloops_ = sum(1 for x in ast.walk(fdef) if isinstance(x, (ast.For, ast.While)))
    for n_ in c.invariants:
        if not (0 <= n_ < nloops_): raise SpecBinding(f'invariant({n_}, ...) but {q} has {nloops_} loops')
    for n_ in c.asserts:
        if not (0 <= n_ < len(fdef.body)): raise SpecBinding(f'ghost_assert({n_}, ...) but {q} has {len(fdef.body)} top-level statements')
    called_ = {(x.func.attr if isinstance(x.func, ast.Attribute) else getattr(x.func, 'id', None)) for x in ast.walk(fdef) if isinstance(x, ast.Call)}
    called_ |= {x.attr for x in ast.walk(fdef) if isinstance(x, ast.Attribute)}      # property reads are calls of the getter
    for anchor in list(c.before_call) + list(getattr(c, 'after_call', {}) or {}):
        if anchor.split('.')[-1] not in called_: raise SpecBinding(f'call anchor {anchor!r}: {q} never calls it')
    st = State({}, Heap(alloc=Int('alloc0')), [])
    decs = [ast.unparse(d) for d in fdef.decorator_list]
    params = fdef.args.args + fdef.args.kwonlyargs
    for i, a in enumerate(params):
        if i == 0 and owner and 'classmethod' in decs: st.env['cls'] = owner; continue
        ty = Ref(owner) if (i == 0 and owner and 'staticmethod' not in decs) else parse_ann(a.annotation, tv)
        if a.arg in getattr(c, 'local_types', {}): ty = c.local_types[a.arg]
        if ty is None: raise Unsupported(f'parameter {a.arg} of {q} has no type')
        v = Int('v_' + a.arg)
        if ty == IARR:
            sv = SV(Const('v_' + a.arg, IA), IARR); sv.ety = c.local_types.get(a.arg + '__ret') if hasattr(c, 'local_types') else None
            st.env[a.arg] = sv; continue
        if ty.kind == 'tuple':
            sv = SV(tuple(SV(Int(f'v_{a.arg}_{j}'), t) for j, t in enumerate(ty.arg)), ty)
        else:
            sv = SV(v if ty != BOOL else Bool('v_' + a.arg), ty)
            if ty.kind in ('ref', 'list'): st.defs.append(And(v >= 0, v < st.heap.alloc))
            if ty.kind == 'ref' and ty.arg in p.classes: st.defs.append(Or(v == 0, ex.isinst(SV(v, ty), ty.arg)))
            if i == 0 and owner and 'staticmethod' not in decs: st.defs.append(v > 0)
            if ty.kind == 'list': st.defs.append(v > 0); sv = ex.list_sv(st, v, ty)
        st.env[a.arg] = sv
    for lst_ in (getattr(c, 'after_call', {}) or {}).values():
        for names_ in lst_:
            for nm_ in names_: st.env[nm_] = SV(Const('g0_' + nm_, IA), IARR) if nm_.startswith('A_') else SV(IntVal(0), NONE)
    ex.list_locals = {a.arg for a in params if a.annotation is not None and (parse_ann(a.annotation, tv) or Ty('x')).kind == 'list'} \
        | {x.target.id for x in ast.walk(fdef) if isinstance(x, ast.AnnAssign) and isinstance(x.target, ast.Name) and _is_list_ann(x.annotation, tv)} \
        | {k_ for k_, t_ in (getattr(c, 'local_types', {}) or {}).items() if t_ is not None and t_.kind == 'list'}
    # touch every field so that the entry heap has symbols (needed for old())
    for cl in p.classes:
        for f, ty in p.classes[cl].fields.items(): ex.hget(st.heap, (cl, f), ty)
    for cl in p.classes:
        for f, ty in p.classes[cl].fields.items():
            if ty.kind == 'list': ex.llen(st.heap, IntVal(0), ty); ex.lelem(st.heap, IntVal(0), ty)
    for ty in getattr(ex.spec, 'extra_list_types', []): ex.llen(st.heap, IntVal(0), ty); ex.lelem(st.heap, IntVal(0), ty)
    ex.assume_closed(st)
    is_gen = any(isinstance(x, (ast.Yield, ast.YieldFrom)) for x in ast.walk(fdef))
    if is_gen:
        out_ty = parse_ann(fdef.returns, tv) if fdef.returns is not None else ListT(Ref('object'))
        out = ex.new_list(st, out_ty, IntVal(0), lambda k: IntVal(0)); st.env['$out'] = out
    st.old = st.heap.copy(); st.old_env = dict(st.env)
    for r in c.requires:
        if ex.uses(r): st.pc.append(ex.spec_bool(st, r))
    ex.oblige(st, 'SMOKE-precondition', BoolVal(False), 'smoke')
    ctx = Ctx(q); ctx.topbody = fdef.body
    ex.owner_stack = [c_ if owner else None]
    outs = list(ex.run(st, fdef.body, ctx))
    rets = ctx.returns + [(o, SV(IntVal(0), NONE)) for o in outs]
    npath = 0
    try: decl_rty = parse_ann(fdef.returns, tv) if fdef.returns is not None else None
    except Exception: decl_rty = None
    for o, v in rets:
        if is_gen: v = o.env['$out']; v = ex.list_sv(o, v.t, v.ty)
        elif decl_rty is not None and decl_rty.kind == 'list' and isinstance(v, SV) and v.ty.kind == 'tuple':
            elts_ = list(v.t); arr_ = K(I, IntVal(0))
            for j_, x_ in enumerate(elts_): arr_ = Store(arr_, j_, x_.t)
            v = ex.new_list(o, decl_rty, IntVal(len(elts_)), (lambda a_: lambda k: Select(a_, k))(arr_))
        elif decl_rty is not None and decl_rty.kind == 'list' and isinstance(v, SV) and v.ty.kind == 'list' and v.ty != decl_rty:
            ex.set_list(o, v.t, ex.llen(o.heap, v), ex.lelem(o.heap, v), decl_rty); v = ex.list_sv(o, v.t, decl_rty)
        o2 = o.fork(); o2.env = dict(o.env, result=v); o2.old = st.old; o2.old_env = st.old_env
        for gargs in c.ghost_exit:
            if not ex.uses(gargs[0]): continue
            fld = gargs[0].value; lam = gargs[1]
            if ':' in fld:
                osrc, fld = fld.split(':'); slf = ex.spec_ev(o2, ast.parse(osrc, mode='eval').body)
            else: slf = o2.old_env['self']
            if not isinstance(lam, ast.Lambda):
                try: gv_ = ex.spec_ev(o2, lam).t
                except Unsupported as ue_:
                    if str(ue_).startswith('name '): continue       # the ghost expression mentions a local this path never bound: no ghost update on this path
                    raise
                ex.write(o2, slf.t, slf.ty.arg, fld, gv_); continue
            kname = lam.args.args[0].arg
            kv = Int(f'{kname}!g{next(pyvc_fresh)}'); o3 = o2.fork(); o3.env = dict(o2.env, **{kname: SV(kv, INT)}); o3.old, o3.old_env = o2.old, o2.old_env
            body = ex.spec_ev(o3, lam.body); o2.defs = o3.defs
            na = fresh('ghost_' + fld, IA); o2.defs.append(ForAll([kv], Select(na, kv) == body.t))
            ex.write(o2, slf.t, slf.ty.arg, fld, na)
        for e in getattr(c, 'exit_asserts', []):      # proof steps at every normal exit: lemma uses and intermediate assertions (proved, then assumed)
            if not ex.uses(e): continue
            try:
                if isinstance(e, ast.Call) and getattr(e.func, 'id', None) in ('use', 'use_if'): ex.use_lemma(o2, e, f'exit-path{npath}'); continue
                g_ = ex.spec_bool(o2, e)
            except Unsupported as ue_:
                if str(ue_).startswith('name '): continue       # a proof step about locals this path never bound
                raise
            if ex.proves(e): ex.oblige(o2, f'exit-assert[{ast.unparse(e)[:120]}]#path{npath}', g_, 'ghost')
            o2.pc.append(g_); o2.hints.append(g_)
        if ex.aspect is not None:      # clauses of the default aspect are proved in the default pass and may be assumed here
            for e in c.ensures:
                if ex.uses(e) and not ex.proves(e): o2.pc.append(ex.spec_bool(o2, e))
        for e in c.ensures:
            if ex.proves(e): ex.oblige(o2, f'post[{ast.unparse(e)[:90]}]#path{npath}', ex.spec_bool(o2, e), 'post')
        if getattr(c, 'raises_when', None) is not None:
            pre_ = o2.fork(); pre_.heap = st.old.copy(); pre_.env = dict(st.old_env)
            ex.oblige(o2, f'returns-only-when-not[{ast.unparse(c.raises_when)[:80]}]#path{npath}', Not(ex.spec_bool(pre_, c.raises_when)), 'post')
        if c.modifies is not None: ex.frame_obligations(o2, st.old, c, f'path{npath}')
        ex.oblige(o2, f'SMOKE-path{npath}', BoolVal(False), 'smoke')
        npath += 1
    nraise = 0
    for o, rn in ctx.raises:
        where = f'callee {rn[1]}' if isinstance(rn, tuple) else f'raise@{rn.lineno}'
        exname = None
        if not isinstance(rn, tuple) and rn.exc is not None:
            x = rn.exc.func if isinstance(rn.exc, ast.Call) else rn.exc
            exname = getattr(x, 'id', getattr(x, 'attr', None))
        if not c.raises:
            ex.oblige(o, f'no-raise[{where}]#{nraise}', BoolVal(False), 'raise'); nraise += 1; continue
        o2 = o.fork(); o2.old = st.old; o2.old_env = st.old_env
        if getattr(c, 'raises_when', None) is not None:
            pre_ = o2.fork(); pre_.heap = st.old.copy(); pre_.env = dict(st.old_env)
            ex.oblige(o2, f'raises-only-when[{ast.unparse(c.raises_when)[:80]}] at {where}#{nraise}', ex.spec_bool(pre_, c.raises_when), 'raises')
        for rargs in c.raises:
            for pat in [a.value for a in rargs[1:] if isinstance(a, ast.Constant)]:
                obj = Int('o!u')
                if pat.startswith('list['):
                    tag = ex.parse_mod(pat)[0]
                    for sub in ('len', 'elem'):
                        nt, ot = o2.heap.m.get((tag, sub)), st.old.m.get((tag, sub))
                        if nt is None or ot is None or nt.eq(ot): continue
                        ex.oblige(o2, f'raises-unchanged[{pat}.{sub}] when {where}#{nraise}', ForAll([obj], Implies(And(0 < obj, obj < st.old.alloc), Select(nt, obj) == Select(ot, obj))), 'raises')
                    continue
                cl, f = pat.split('.'); key = ex.field_key(cl, f); ty = p.field_ty(cl, f)
                ex.oblige(o2, f'raises-unchanged[{pat}] when {where}#{nraise}', ForAll([obj], Implies(And(0 < obj, obj < st.old.alloc), Select(ex.hget(o2.heap, key, ty), obj) == Select(ex.hget(st.old, key, ty), obj))), 'raises')
            for kw_ in getattr(c, 'raises_kw', []):
                for e in kw_.get('ensures', []): ex.oblige(o2, f'raises-post[{ast.unparse(e)[:80]}] when {where}#{nraise}', ex.spec_bool(o2, e), 'raises')
        ex.oblige(o2, f'SMOKE-raise{nraise}', BoolVal(False), 'smoke')
        nraise += 1
    return q, list(ex.obls)

class SpecBinding(Exception): pass

def obligation_smt2(ex, ob, focus=False):
    sl = Solver(); sl.add(ex.axioms); sl.add({True: ob.focus, 'nohint': ob.nohint}.get(focus, ob.prem)); sl.add(Not(ob.goal))
    return '(set-logic ALL)\n' + sl.to_smt2()

def lemma_obligations(ex, name):
    """lemma procedure: params; requires(...); ensures(...); induction('j', base_expr); trigger(...); hint(...)
    returns obligations (base/step/hints or direct) and installs forall params. requires -> ensures as an axiom.
    The caller must refuse every dependent obligation if one of these is not proved."""
    f = ex.spec.lemmas[name]; names = [a.arg for a in f.args.args]
    req, ens, ind, trig = [], [], None, []; hints = []
    for st_ in f.body:
        c = st_.value; k = c.func.id
        if k == 'requires': req += c.args
        elif k == 'ensures': ens += c.args
        elif k == 'induction': ind = (c.args[0].value, c.args[1])
        elif k == 'trigger': trig = c.args
        elif k == 'hint': hints += c.args
    def mk(sfx):
        return {x: SV((Const(f'{x}{sfx}', IA) if x.startswith('A_') else Int(f'{x}{sfx}')), IARR if x.startswith('A_') else INT) for x in names}
    st = State({}, Heap(alloc=IntVal(1)), [])
    env = mk('!L'); st.env = env
    R = lambda e_: And([ex.spec_bool(st, r, e_) for r in req]) if req else BoolVal(True)
    E = lambda e_: And([ex.spec_bool(st, r, e_) for r in ens])
    obs = []
    def prove(label, prem, goal): obs.append(Obligation(f'lemma {name}#{label}', list(prem), goal, 'lemma'))
    if ind is None:
        prove('direct', [R(env)], E(env))
    else:
        v, base = ind; b = ex.spec_ev(st, base, env).t
        e_base = dict(env); e_base[v] = SV(b, INT)
        prove('base', [R(e_base)], E(e_base))
        e_next = dict(env); e_next[v] = SV(env[v].t + 1, INT)
        hs = []
        for n_, h in enumerate(hints):   # hints are instances of axioms: proved first, then used
            ht = ex.spec_bool(st, h, env); prove(f'hint{n_}', [env[v].t >= b, R(e_next)], ht); hs.append(ht)
        prove('step', [env[v].t >= b, Implies(R(env), E(env)), R(e_next)] + hs, E(e_next))
    texts = [(o, obligation_smt2(ex, o)) for o in obs]     # rendered BEFORE the lemma itself becomes an axiom
    qv = [env[x].t for x in names]
    pats = [MultiPattern(*[ex.spec_ev(st, t_, env).t for t_ in (tr.elts if isinstance(tr, ast.Tuple) else [tr])]) for tr in trig]
    body = Implies(R(env), E(env))
    ex.axioms.append(ForAll(qv, body, patterns=pats) if pats else ForAll(qv, body))
    return texts

def discharge(ex, timeout, only=None, verbose=True):
    """in-process discharge (debugging only; the checks use pyvc.solve)"""
    counts = {}; tt = 0; failed = []
    for ob in ex.obls:
        if only and only not in ob.name: continue
        sl = Solver(); sl.set('timeout', timeout if ob.kind != 'smoke' else 3000)
        sl.add(ex.axioms); sl.add(ob.prem); sl.add(Not(ob.goal))
        t0 = time.time(); r = sl.check(); dt = time.time() - t0; tt += dt
        r = str(r)
        if ob.kind == 'smoke':
            if r == 'unsat': counts['VACUOUS'] = counts.get('VACUOUS', 0) + 1; print('   VACUOUS path', ob.name)
            else: counts['smoke-ok'] = counts.get('smoke-ok', 0) + 1
            continue
        counts[r] = counts.get(r, 0) + 1
        if r != 'unsat':
            failed.append((ob.name, r, dt))
            if verbose: print(f'   {r.upper():8} {dt:6.2f}s {ob.name}')
    return dict(counts=counts, time=tt, failed=failed)
