"""A verification unit: a set of real source files (+ declaration-only stubs), one contract file,
and the list of real functions that are verified against their contracts."""
import ast, hashlib, os, re, time, traceback
from . import engine as E

REPO = os.environ.get('VERIF_REPO', '/repo')
PKG = os.path.join(REPO, 'autobean_refactor')
VERIF = os.path.dirname(os.path.dirname(os.path.abspath(__file__)))


class Unit:
    def __init__(self, name, files, spec, targets, props, stubs=(), typevars=None, ghost=None, lemmas=(), field_types=None, note='', aspect=None, builtins=(), class_bases=None):
        self.name, self.files, self.spec, self.targets, self.props = name, list(files), spec, list(targets), list(props)
        self.stubs, self.typevars, self.ghost, self.lemmas = list(stubs), dict(typevars or {}), dict(ghost or {}), list(lemmas)
        self.field_types = dict(field_types or {}); self.note = note; self.aspect = aspect; self.builtins = list(builtins); self.class_bases = dict(class_bases or {})

    def paths(self):
        return [os.path.join(PKG, f) for f in self.files] + [os.path.join(VERIF, 'stubs', f) for f in self.stubs]

    def build(self):
        prog = E.Program(self.paths(), self.typevars)
        tys = {'IARR': E.IARR, 'INT': E.INT, 'BOOL': E.BOOL, 'STR': E.STR, 'THUNK_STR': E.Ty('thunk', E.STR)}
        def ty(x):
            if x in tys: return tys[x]
            if x.startswith('list['): return E.ListT(ty(x[5:-1]))
            return E.Ref(x)
        for cls, bs in self.class_bases.items(): prog.classes[cls].bases = list(bs)
        for cls, fs in self.ghost.items():
            for f, t in fs.items(): prog.classes[cls].fields[f] = ty(t)
        for cls, fs in self.field_types.items():
            for f, t in fs.items(): prog.classes[cls].fields[f] = ty(t); prog.classes[cls].field_defaults.setdefault(f, None)
        spec = E.Spec(os.path.join(VERIF, 'contracts', self.spec))
        from . import builtins as B
        for b in self.builtins: spec.builtins[b.split('#')[0]] = B.REGISTRY[b]
        ex = E.Exec(prog, spec); ex.aspect = self.aspect
        return prog, spec, ex

    def generate(self, outdir):
        """-> (obligations [dict], functions [dict], problems [dict])"""
        os.makedirs(outdir, exist_ok=True)
        obs, funcs, problems = [], [], []
        try:
            prog, spec, ex = self.build()
        except Exception as e:
            problems.append(dict(unit=self.name, function='*', kind='unit-build', detail=f'{type(e).__name__}: {e}', trace=traceback.format_exc()[-1500:]))
            return obs, funcs, problems
        seen = {}
        def emit(fn, o, text, focus_text=None):
            base = re.sub(r'@\d+', '', o.name)
            base = f'{self.name}:{base}'
            seen[base] = seen.get(base, 0) + 1
            name = base if seen[base] == 1 else f'{base}~{seen[base]}'
            path = os.path.join(outdir, f'{len(obs):05d}.smt2')
            open(path, 'w').write(text)
            fpath = None
            if focus_text is not None:
                fpath = os.path.join(outdir, f'{len(obs):05d}.focus.smt2'); open(fpath, 'w').write(focus_text)
                open(fpath.replace('.focus.', '.nohint.'), 'w').write(E.obligation_smt2(ex, o, focus='nohint'))
            obs.append(dict(name=name, kind=o.kind, path=path, focus_path=fpath, hash=hashlib.sha256(text.encode()).hexdigest()[:16], unit=self.name, function=fn, raw=o.name))
        lemma_ok = True
        for lname in self.lemmas:
            try:
                for o, text in E.lemma_obligations(ex, lname): emit(f'lemma {lname}', o, text)
            except Exception as e:
                lemma_ok = False
                problems.append(dict(unit=self.name, function=f'lemma {lname}', kind='spec-error', detail=f'{type(e).__name__}: {e}', trace=traceback.format_exc()[-1500:]))
        for tgt in self.targets:
            owner, fname, kind = (tuple(tgt) + (None,))[:3]
            q = (f'{owner}.{fname}' if owner else fname) + ('.setter' if kind == 'setter' else '')
            t0 = time.time()
            try:
                c_, fdef = (prog.method(owner, fname, kind) if owner else (None, prog.funcs.get(fname)))
                if fdef is None:
                    problems.append(dict(unit=self.name, function=q, kind='spec-binding', detail='function not found in source')); continue
                seg = ast.unparse(fdef)
                q2, obl = E.generate(ex, owner, fname, kind)
                for o in obl: emit(q, o, E.obligation_smt2(ex, o), E.obligation_smt2(ex, o, focus=True) if o.focus is not None else None)
                funcs.append(dict(unit=self.name, function=q, file=getattr(fdef, '_file', ''), lineno=fdef.lineno, src_sha=hashlib.sha256(seg.encode()).hexdigest()[:16],
                                  obligations=len(obl), gen_s=round(time.time() - t0, 2), has_contract=q in spec.contracts))
            except E.Unsupported as e:
                problems.append(dict(unit=self.name, function=q, kind='out-of-subset', detail=str(e)))
            except E.SpecBinding as e:
                problems.append(dict(unit=self.name, function=q, kind='spec-binding', detail=str(e)))
            except Exception as e:
                problems.append(dict(unit=self.name, function=q, kind='spec-binding', detail=f'{type(e).__name__}: {e}', trace=traceback.format_exc()[-1500:]))
        return obs, funcs, problems
