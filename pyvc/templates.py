"""L4: template contracts of the generated tree-model classes (DESIGN 3.4 'Template contracts', 4 L4).

For every class that declares slots with internal.<kind>_field[...] the slot list is read from the REAL class body (ast), and each
template method of the real class is symbolically evaluated (value semantics of and/or, type-directed truthiness, slot reads as
uninterpreted functions of the receiver, child first_token/last_token/clone/reattach/__eq__ as uninterpreted functions) and compared
by the SMT solver with the term the slot list prescribes.  A forgotten, duplicated or misordered slot, a wrong pivot, or a child class
that acquires __bool__/__len__ (so that `x and x.first_token` no longer tests presence) is one refuted obligation naming class, method, slot.

Methods whose body is outside the known shapes are reported out-of-template (undecided), never approximated."""
import ast, glob, hashlib, os
from z3 import *

I = IntSort()
KINDS = ('required_field', 'optional_left_field', 'optional_right_field', 'repeated_field')


class OutOfTemplate(Exception):
    pass


class TClass:
    def __init__(self, name, node, path):
        self.name, self.node, self.path = name, node, path
        self.slots = []          # (name, kind, type names)
        self.indent_by = False
        self.methods = {}
        self.mixin = False


def type_names(sub):
    out = []
    def go(x):
        if isinstance(x, ast.BinOp): go(x.left); go(x.right)
        elif isinstance(x, ast.Name): out.append(x.id)
        elif isinstance(x, ast.Attribute): out.append(x.attr)
        elif isinstance(x, ast.Subscript): go(x.value)
        elif isinstance(x, ast.Constant) and isinstance(x.value, str): out.append(x.value.split('.')[-1])
    go(sub)
    return out


def load_classes(pkg):
    """template classes + the set of model classes whose instances can be falsy (define __bool__ / __len__, directly or by inheritance)"""
    classes, all_defs = [], {}
    files = sorted(glob.glob(os.path.join(pkg, 'models', '*.py')) + glob.glob(os.path.join(pkg, 'models', 'generated', '*.py')) + glob.glob(os.path.join(pkg, 'models', 'internal', '*.py')))
    for path in files:
        tree = ast.parse(open(path).read())
        for n in tree.body:
            if not isinstance(n, ast.ClassDef): continue
            bases = []
            for b in n.bases:
                while isinstance(b, ast.Subscript): b = b.value
                bases.append(b.attr if isinstance(b, ast.Attribute) else getattr(b, 'id', '?'))
            own = {m.name for m in n.body if isinstance(m, ast.FunctionDef)}
            all_defs.setdefault(n.name, []).append((bases, own, path))
            tc = TClass(n.name, n, path)
            for m in n.body:
                if isinstance(m, ast.Assign) and isinstance(m.targets[0], ast.Name) and isinstance(m.value, ast.Call):
                    f = m.value.func
                    base = f.value if isinstance(f, ast.Subscript) else f
                    kind = base.attr if isinstance(base, ast.Attribute) else getattr(base, 'id', '')
                    if kind in KINDS:
                        tc.slots.append((m.targets[0].id, kind, type_names(f.slice) if isinstance(f, ast.Subscript) else []))
                    if kind == 'data_field' and m.targets[0].id == 'indent_by': tc.indent_by = True
                if isinstance(m, ast.FunctionDef): tc.methods.setdefault(m.name, m)
            tc.mixin = 'SurroundingCommentsMixin' in bases
            if tc.slots and 'generated' in path: classes.append(tc)
    def falsy(name, seen=()):
        if name in seen: return False
        for bases, own, _ in all_defs.get(name, []):
            if '__bool__' in own or '__len__' in own: return True
            if any(falsy(b, seen + (name,)) for b in bases): return True
        return False
    falsy_classes = {n for n in all_defs if falsy(n)}
    return classes, falsy_classes


class Ctx:
    def __init__(self, tc, falsy):
        self.tc, self.falsy = tc, falsy
        self.slots = list(tc.slots)
        if tc.mixin:
            self.slots = [('_leading_comment', 'optional_right_field', ['BlockComment'])] + self.slots + [('_trailing_comment', 'optional_left_field', ['BlockComment'])]
        self.kind = {n: k for n, k, _ in self.slots}
        self.types = {n: t for n, _, t in self.slots}
        self.self_, self.other, self.ts, self.tt = Int('self'), Int('other'), Int('token_store'), Int('token_transformer')
        self.SLOT = {n: Function('slot' + n, I, I) for n, _, _ in self.slots}
        self.FIRST, self.LAST = Function('first_token', I, I), Function('last_token', I, I)
        self.CLONE, self.REATT = Function('clone', I, I, I, I), Function('reattach', I, I, I, I)
        self.EQ = Function('eq', I, I, BoolSort())
        self.TRUTHC = Function('bool_of', I, BoolSort())
        self.INDENT = Function('indent_by', I, I)
        x = Int('x')
        self.axioms = [ForAll([x], Implies(x != 0, And(self.FIRST(x) != 0, self.LAST(x) != 0)))]
        for n, k, _ in self.slots:
            if k in ('required_field', 'repeated_field'): self.axioms += [self.SLOT[n](self.self_) != 0, self.SLOT[n](self.other) != 0]
        self.axioms += [self.self_ != 0]

    def present(self, n, obj=None):
        return self.SLOT[n](obj if obj is not None else self.self_) != 0

    # value-semantics evaluation: returns (term, kind) with kind in {'ref:<slot>', 'ref', 'bool'}
    def truth(self, v):
        t, k = v
        if k == 'bool': return t
        if k.startswith('ref:'):
            slot = k[4:]
            if any(ty in self.falsy for ty in self.types.get(slot, [])): return And(t != 0, self.TRUTHC(t))
        return t != 0

    def ev(self, e, env):
        if isinstance(e, ast.Name):
            if e.id in env: return env[e.id]
            raise OutOfTemplate(f'name {e.id}')
        if isinstance(e, ast.Constant) and e.value is None: return (IntVal(0), 'ref')
        if isinstance(e, ast.Attribute):
            if isinstance(e.value, ast.Name) and e.value.id in ('self', 'other') and e.attr in self.SLOT:
                return (self.SLOT[e.attr](env[e.value.id][0]), 'ref:' + e.attr)
            if isinstance(e.value, ast.Name) and e.value.id in ('self', 'other') and e.attr == 'indent_by':
                return (self.INDENT(env[e.value.id][0]), 'val')
            if e.attr in ('first_token', 'last_token'):
                b = self.ev(e.value, env)
                return ((self.FIRST if e.attr == 'first_token' else self.LAST)(b[0]), 'ref')
            raise OutOfTemplate(f'attribute {ast.unparse(e)}')
        if isinstance(e, ast.BoolOp):
            vals = [self.ev(v, env) for v in e.values]
            acc = vals[-1]
            for v in reversed(vals[:-1]):
                tv = self.truth(v)
                if isinstance(e.op, ast.And):   # v and acc -> acc if truthy(v) else v
                    if acc[1] == 'bool' or v[1] == 'bool': acc = (And(tv, self.truth(acc)), 'bool')
                    else: acc = (If(tv, acc[0], v[0]), 'ref')
                else:
                    if acc[1] == 'bool' or v[1] == 'bool': acc = (Or(tv, self.truth(acc)), 'bool')
                    else: acc = (If(tv, v[0], acc[0]), 'ref')
            return acc
        if isinstance(e, ast.Compare) and len(e.ops) == 1:
            a, b = self.ev(e.left, env), self.ev(e.comparators[0], env)
            if isinstance(e.ops[0], ast.Eq):
                if a[1] == 'val': return (a[0] == b[0], 'bool')
                return (self.EQ(a[0], b[0]), 'bool')
            if isinstance(e.ops[0], ast.Is): return (a[0] == b[0], 'bool')
            if isinstance(e.ops[0], ast.IsNot): return (a[0] != b[0], 'bool')
            raise OutOfTemplate('compare')
        if isinstance(e, ast.Call) and isinstance(e.func, ast.Name) and e.func.id == 'isinstance':
            if ast.unparse(e.args[0]) == 'other' and getattr(e.args[1], 'id', None) == self.tc.name: return (Bool('other_is_' + self.tc.name), 'bool')
            raise OutOfTemplate('isinstance')
        if isinstance(e, ast.Call) and isinstance(e.func, ast.Attribute) and e.func.attr in ('clone', 'reattach'):
            # type(self)._x.clone(self._x, token_store, token_transformer)
            f = e.func.value
            if isinstance(f, ast.Attribute) and ast.unparse(f.value) == 'type(self)' and f.attr in self.SLOT:
                args = [self.ev(a, env)[0] for a in e.args]
                if len(args) != 3: raise OutOfTemplate('field method arity')
                fn = self.CLONE if e.func.attr == 'clone' else self.REATT
                k = self.kind[f.attr]
                if k in ('required_field', 'repeated_field'): return (fn(*args), 'ref')
                return (If(args[0] != 0, fn(*args), IntVal(0)), 'ref')
            raise OutOfTemplate(f'call {ast.unparse(e.func)}')
        raise OutOfTemplate(f'expression {type(e).__name__}: {ast.unparse(e)[:60]}')

    # template terms
    def chain(self, names, fn):
        """first present slot of `names` (in that order): required/repeated always present"""
        t = None
        for n in reversed(names):
            v = fn(self.SLOT[n](self.self_))
            if self.kind[n] in ('required_field', 'repeated_field'): t = v
            else:
                if t is None: t = IntVal(0)
                t = If(self.present(n), v, t)
        return t if t is not None else IntVal(0)


def single_return(fdef):
    body = [s for s in fdef.body if not (isinstance(s, ast.Expr) and isinstance(s.value, ast.Constant))]
    if len(body) == 1 and isinstance(body[0], ast.Return) and body[0].value is not None: return body[0].value
    raise OutOfTemplate(f'{fdef.name}: not a single return')


def obligations_for(tc, falsy):
    """-> list of (name, kind, smt2 | None, precomputed verdict | None, detail)"""
    out = []
    c = Ctx(tc, falsy)
    env = {'self': (c.self_, 'ref'), 'other': (c.other, 'ref'), 'token_store': (c.ts, 'ref'), 'token_transformer': (c.tt, 'ref')}
    names = [n for n, _, _ in c.slots]

    def smt(goal):
        sl = Solver(); sl.add(c.axioms); sl.add(Not(goal)); return '(set-logic ALL)\n' + sl.to_smt2()

    def add(name, goal=None, verdict=None, detail=''):
        out.append((f'{tc.name}.{name}', 'template' if goal is not None else 'template-syntactic', smt(goal) if goal is not None else None, verdict, detail))

    def guarded(mname, fn):
        m = tc.methods.get(mname)
        if m is None:
            add(f'{mname}#present', verdict='open', detail='method missing'); return
        try: fn(m)
        except OutOfTemplate as e: add(f'{mname}#in-template', verdict='open', detail=str(e))

    # ---- first_token / last_token
    def first_last(m, which):
        v = c.ev(single_return(m), env)
        order = names if which == 'first_token' else list(reversed(names))
        add(f'{which}#post[result == {which} of the first present slot in {"slot" if which == "first_token" else "reverse slot"} order]',
            v[0] == c.chain(order, c.FIRST if which == 'first_token' else c.LAST))
    guarded('first_token', lambda m: first_last(m, 'first_token'))
    guarded('last_token', lambda m: first_last(m, 'last_token'))

    # ---- pivots
    for i, (n, k, _) in enumerate(c.slots):
        if not k.startswith('optional_'): continue
        pm = tc.methods.get(f'{n}_pivot')
        if pm is None:
            if n in ('_leading_comment', '_trailing_comment') or tc.methods.get(f'{n}_pivot') is None:
                # mixin pivots are declared in the class too; a slot without pivot is only legal if no node property uses it
                add(f'{n}_pivot#present', verdict='open', detail='no pivot method') if any(isinstance(x, ast.Name) and x.id == f'{n}_pivot' for x in ast.walk(tc.node)) else None
            continue
        def pv(m, i=i, n=n, k=k):
            v = c.ev(single_return(m), env)
            if k == 'optional_left_field': exp = c.chain(list(reversed(names[:i])), c.LAST)
            else: exp = c.chain(names[i + 1:], c.FIRST)
            add(f'{n}_pivot#post[result == {"last token of the nearest preceding" if k == "optional_left_field" else "first token of the nearest following"} present slot]', v[0] == exp)
        guarded(f'{n}_pivot', pv)

    # ---- _eq
    def eq(m):
        v = c.ev(single_return(m), env)
        exp = [Bool('other_is_' + tc.name)] + [c.EQ(c.SLOT[n](c.self_), c.SLOT[n](c.other)) for n in names]
        if tc.indent_by: exp.append(c.INDENT(c.self_) == c.INDENT(c.other))
        add('_eq#post[result == (isinstance(other, C) and every slot equal' + (' and indent_by equal' if tc.indent_by else '') + ')]', c.truth(v) == And(exp))
    guarded('_eq', eq)

    # ---- clone
    def clone(m):
        call = single_return(m)
        if not (isinstance(call, ast.Call) and ast.unparse(call.func) == 'type(self)'): raise OutOfTemplate('clone: not type(self)(...)')
        args = call.args
        if len(args) != len(names) + 1:
            add('clone#arity', verdict='sat', detail=f'{len(args) - 1} positional children for {len(names)} slots'); return
        goals = [c.ev(args[0], env)[0] == c.ts]
        for a, n in zip(args[1:], names):
            k = c.kind[n]; s = c.SLOT[n](c.self_)
            exp = c.CLONE(s, c.ts, c.tt) if k in ('required_field', 'repeated_field') else If(s != 0, c.CLONE(s, c.ts, c.tt), IntVal(0))
            goals.append(c.ev(a, env)[0] == exp)
        kws = {k.arg: k.value for k in call.keywords}
        if tc.indent_by:
            if 'indent_by' not in kws: add('clone#indent_by', verdict='sat', detail='indent_by not passed'); return
            goals.append(c.ev(kws['indent_by'], env)[0] == c.INDENT(c.self_))
        add('clone#post[result == C(token_store, clone of every slot in slot order' + (', indent_by=self.indent_by' if tc.indent_by else '') + ')]', And(goals))
    guarded('clone', clone)

    # ---- _reattach
    def reattach(m):
        state = {}
        ts_set = None
        for s in m.body:
            if isinstance(s, ast.Expr) and isinstance(s.value, ast.Constant): continue
            if not (isinstance(s, ast.Assign) and len(s.targets) == 1 and isinstance(s.targets[0], ast.Attribute) and ast.unparse(s.targets[0].value) == 'self'):
                raise OutOfTemplate(f'_reattach statement {ast.unparse(s)[:50]}')
            tgt = s.targets[0].attr
            if tgt == '_token_store': ts_set = c.ev(s.value, env)[0]; continue
            if tgt not in c.SLOT: raise OutOfTemplate(f'_reattach assigns {tgt}')
            if tgt in state: add(f'_reattach#slot[{tgt}] assigned once', verdict='sat', detail='assigned twice'); return
            state[tgt] = c.ev(s.value, env)[0]
        goals = [ts_set == c.ts if ts_set is not None else BoolVal(False)]
        for n in names:
            k = c.kind[n]; s0 = c.SLOT[n](c.self_)
            exp = c.REATT(s0, c.ts, c.tt) if k in ('required_field', 'repeated_field') else If(s0 != 0, c.REATT(s0, c.ts, c.tt), IntVal(0))
            goals.append(state[n] == exp if n in state else BoolVal(False))
        add('_reattach#post[_token_store == token_store and every slot == reattach(old slot)]', And(goals))
    guarded('_reattach', reattach)

    # ---- syntactic coverage of the enumerating methods
    def slot_mentions(m, pattern):
        seq = []
        for x in ast.walk(m):
            if isinstance(x, ast.Call) and isinstance(x.func, ast.Attribute) and x.func.attr == pattern:
                f = x.func.value
                if isinstance(f, ast.Attribute) and f.attr in c.SLOT and ast.unparse(f.value) in ('type(self)', 'cls'): seq.append((x.lineno, x.col_offset, f.attr))
        return [n for _, _, n in sorted(seq)]

    def icf(m):
        got = slot_mentions(m, 'iter_children_formatted')
        add('iter_children_formatted#order[every slot exactly once, in slot order]', verdict='unsat' if got == names else 'sat', detail=f'got {got}, slots {names}')
    guarded('iter_children_formatted', icf)

    def acc(m):
        # slots that can hold comments are the ones exposed through a public node property; repeated ones are claimed through that property's wrapper
        prop_slot = {}
        for st_ in tc.node.body:
            if isinstance(st_, ast.Assign) and isinstance(st_.targets[0], ast.Name) and isinstance(st_.value, ast.Call) and st_.value.args:
                a0 = st_.value.args[0]
                sl_ = a0.id if isinstance(a0, ast.Name) else (a0.attr if isinstance(a0, ast.Attribute) else None)
                fn_ = st_.value.func.value if isinstance(st_.value.func, ast.Subscript) else st_.value.func
                if sl_ in c.SLOT and ast.unparse(fn_).endswith('_property'): prop_slot[st_.targets[0].id] = sl_
        public = [n for n in names if n in prop_slot.values()]
        seq = []
        for x in ast.walk(m):
            if isinstance(x, ast.Call) and isinstance(x.func, ast.Attribute) and x.func.attr == 'auto_claim_comments':
                f = x.func.value
                if isinstance(f, ast.Attribute) and f.attr in c.SLOT and ast.unparse(f.value) == 'type(self)': seq.append((x.lineno, x.col_offset, f.attr))
                elif isinstance(f, ast.Attribute) and ast.unparse(f.value) == 'self' and f.attr in prop_slot: seq.append((x.lineno, x.col_offset, prop_slot[f.attr]))
                else: raise OutOfTemplate(f'auto_claim_comments call on {ast.unparse(f)}')
        got = [n for _, _, n in sorted(seq)]
        exp = list(reversed(public))
        add('auto_claim_comments#order[every comment-bearing slot exactly once, last slot first]', verdict='unsat' if got == exp else 'sat', detail=f'got {got}, expected {exp}')
        if tc.mixin:
            first2 = [ast.unparse(s_.value.func) for s_ in m.body[:2] if isinstance(s_, ast.Expr) and isinstance(s_.value, ast.Call)]
            add('auto_claim_comments#own[claims its own leading, then trailing comment first]', verdict='unsat' if first2 == ['self.claim_leading_comment', 'self.claim_trailing_comment'] else 'sat', detail=str(first2))
    guarded('auto_claim_comments', acc)

    def fc(m):
        det = slot_mentions(m, 'detach_with_separators')
        rea = slot_mentions(m, 'reattach')
        direct = [a for a in ast.walk(m) if isinstance(a, ast.Starred)]
        ret = [s for s in ast.walk(m) if isinstance(s, ast.Return) and isinstance(s.value, ast.Call) and ast.unparse(s.value.func) == 'cls']
        ok_rea = rea == names
        # required slots are detached by `*x.detach()`; optional/repeated ones through the field: the union, in order of appearance, must be the slot list
        order = []
        for x in sorted([x for x in ast.walk(m) if isinstance(x, ast.Starred)], key=lambda x: (x.lineno, x.col_offset)):
            v = x.value
            if isinstance(v, ast.Call) and isinstance(v.func, ast.Attribute) and v.func.attr == 'detach_with_separators': order.append(v.func.value.attr)
            elif isinstance(v, ast.Call) and isinstance(v.func, ast.Attribute) and v.func.attr == 'detach' and isinstance(v.func.value, ast.Name): order.append('_' + v.func.value.id)
        exp = names
        norm = lambda l: [n.replace('_repeated_', '_') for n in l]
        ok_det = norm(order) == exp
        nargs = len(ret[0].value.args) if ret else -1
        add('from_children#layout[tokens list mentions every slot once in slot order; every slot reattached; constructor gets every slot]',
            verdict='unsat' if (ok_det and ok_rea and nargs == len(names) + 1) else 'sat', detail=f'detach order {order}; reattach {rea}; ctor args {nargs}; slots {names}')
    if 'from_children' in tc.methods: guarded('from_children', fc)
    return [o for o in out if o is not None]


class TemplateUnit:
    """duck-types pyvc.unit.Unit for main.py"""
    def __init__(self, name, props, only=None):
        self.name, self.props, self.only = name, list(props), only
        self.stubs, self.note, self.builtins = [], ('child first_token/last_token/clone/reattach/__eq__ are uninterpreted (virtual methods, one contract on the base class); '
                                                  'the field-descriptor methods (fields.py) are used through their L2 contracts'), []

    def generate(self, outdir):
        from .unit import PKG
        os.makedirs(outdir, exist_ok=True)
        obs, funcs, problems = [], [], []
        try:
            classes, falsy = load_classes(PKG)
        except Exception as e:
            return obs, funcs, [dict(unit=self.name, function='*', kind='unit-build', detail=f'{type(e).__name__}: {e}')]
        for tc in classes:
            if self.only and tc.name not in self.only: continue
            try:
                res = obligations_for(tc, falsy)
            except Exception as e:
                problems.append(dict(unit=self.name, function=tc.name, kind='spec-binding', detail=f'{type(e).__name__}: {e}')); continue
            n0 = len(obs)
            for name, kind, text, verdict, detail in res:
                full = f'{self.name}:{name}'
                path = None
                if text is not None:
                    path = os.path.join(outdir, f'{len(obs):05d}.smt2'); open(path, 'w').write(text)
                h = hashlib.sha256((text or (verdict or '') + detail).encode()).hexdigest()[:16]
                obs.append(dict(name=full, kind=kind, path=path, focus_path=None, hash=h, unit=self.name, function=name.split('#')[0], raw=name, precomputed=verdict, detail=detail))
            src = ast.unparse(tc.node)
            funcs.append(dict(unit=self.name, function=f'class {tc.name} (template methods)', file=tc.path, lineno=tc.node.lineno, src_sha=hashlib.sha256(src.encode()).hexdigest()[:16],
                              obligations=len(obs) - n0, gen_s=0, has_contract=True))
        return obs, funcs, problems
