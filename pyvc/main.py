"""./check Cnn [--tier quick|thorough] [--replay file] [--update-ledger]

Decides one property: regenerates the verification conditions of every real function under contract that
is tagged with the property from the current /repo working tree, discharges them (z3 -> cvc5), runs the
bounded stand-ins of the property on the real code, writes evidence/Cnn.json.

exit 0  property held on everything explored (KNOWN-FINDING lines possible)
exit 1  violation: a line `VIOLATION property=Cnn replay=<file>` was printed
exit 3  checker problem (never printed as a violation)
"""
import argparse, fnmatch, json, os, re, shutil, subprocess, sys, time, traceback

VERIF = os.path.dirname(os.path.dirname(os.path.abspath(__file__)))
REPO = os.environ.get('VERIF_REPO', '/repo')
sys.path.insert(0, VERIF)


def load_known():
    try:
        return json.load(open(os.path.join(VERIF, 'known_findings.json')))
    except FileNotFoundError:
        return {'open': [], 'fixed': []}


def known_match(known, prop, key):
    for k in known.get('open', []):
        if k['property'] == prop and re.fullmatch('.*'.join(re.escape(p_) for p_ in k['match'].split('*')), key, re.S):
            return k
    return None


def run_drivers(prop, tier, seed, workdir, only=None):
    """bounded stand-ins: run on the real code under /venv/bin/python; each returns a JSON report"""
    from drivers import REGISTRY
    from concurrent.futures import ThreadPoolExecutor
    names = [n for n in REGISTRY.get(prop, []) if not only or only == n]
    SHARDS = dict(docops=6, docprops=4, store_small_scope=3, special=2, comments=2)       # slow drivers run as several processes over disjoint case sets
    jobs = [(n, i, SHARDS.get(n, 1)) for n in names for i in range(SHARDS.get(n, 1))]
    def one(job):
        name, shard, nshards = job
        out = os.path.join(workdir, f'driver-{name}-{shard}.json')
        if os.path.exists(out): os.remove(out)
        env = dict(os.environ, PYTHONPATH=f'{REPO}:{VERIF}', PYTHONHASHSEED='0')
        if nshards > 1: env['VERIF_SHARD'] = f'{shard}/{nshards}'
        t0 = time.time()
        p = subprocess.run(['/venv/bin/python', '-m', f'drivers.{name}', '--prop', prop, '--tier', tier, '--seed', str(seed), '--out', out],
                           cwd=VERIF, env=env, capture_output=True, text=True)
        try:
            rep = json.load(open(out))
        except Exception:
            rep = dict(driver=name, crashed=True, detail=(p.stdout + p.stderr)[-3000:], failures=[], evaluations=0, distinct_nontrivial=0)
        rep['driver'] = name; rep['wall_s'] = round(time.time() - t0, 2)
        return rep
    # the drivers are independent single-threaded processes (own seed, own report file): run them side by side, report in registry order
    with ThreadPoolExecutor(max_workers=max(1, min(len(jobs), 10))) as pool:
        parts = list(pool.map(one, jobs))
    merged = []
    for name in names:
        ps = [p_ for p_, j_ in zip(parts, jobs) if j_[0] == name]
        m = dict(ps[0])
        if len(ps) > 1:
            m['evaluations'] = sum(p_.get('evaluations', 0) for p_ in ps); m['distinct_nontrivial'] = sum(p_.get('distinct_nontrivial', 0) for p_ in ps)
            m['samples'] = [x for p_ in ps for x in p_.get('samples', [])][:5]
            seen_, fs = set(), []
            for p_ in ps:
                for f_ in p_.get('failures', []):
                    if f_['key'] not in seen_: seen_.add(f_['key']); fs.append(f_)
            m['failures'] = fs[:40]; m['wall_s'] = max(p_.get('wall_s', 0) for p_ in ps); m['shards'] = len(ps)
            if any(p_.get('crashed') for p_ in ps): m['crashed'] = True; m['detail'] = ' | '.join(str(p_.get('detail', ''))[-800:] for p_ in ps if p_.get('crashed'))
        merged.append(m)
    return merged


def replay(path):
    r = json.load(open(path))
    if r.get('kind') == 'obligation':
        from pyvc import solve
        smt = os.path.join(os.path.dirname(path), r['smt2'])
        v, dt, extra = solve.run_z3(smt, 60)
        if v == 'unknown' or v == 'timeout':
            v, dt, extra = solve.run_cvc5(smt, 60)
        print(f"obligation {r['obligation']}: solver says {v} ({dt:.1f}s) on the recorded VC (unsat = proved)")
        print(r.get('explanation', ''))
        return 0 if v == 'unsat' else 1
    env = dict(os.environ, PYTHONPATH=f'{REPO}:{VERIF}', PYTHONHASHSEED='0')
    p = subprocess.run(['/venv/bin/python', '-m', f"drivers.{r['driver']}", '--replay', path], cwd=VERIF, env=env)
    return p.returncode


def main():
    ap = argparse.ArgumentParser()
    ap.add_argument('prop')
    ap.add_argument('--tier', default=os.environ.get('VERIF_TIER', 'quick'))
    ap.add_argument('--replay')
    ap.add_argument('--update-ledger', action='store_true')
    ap.add_argument('--unit')
    ap.add_argument('--no-drivers', action='store_true')
    ap.add_argument('--no-vc', action='store_true')
    ap.add_argument('--driver')
    ap.add_argument('--budget', type=float)
    ap.add_argument('-v', action='store_true')
    a = ap.parse_args()
    if a.replay:
        sys.exit(replay(a.replay))
    prop, tier = a.prop, ('thorough' if a.tier == 'thorough' else 'quick')
    seed = int(os.environ.get('VERIF_SEED', '0') or 0)
    t_start = time.time()
    # one scratch directory per run (two checks of the same property may run side by side); removed at exit unless VERIF_KEEP_WORK is set
    work = os.path.join(VERIF, '.work', f'{prop}-{os.getpid()}')
    if not os.environ.get('VERIF_KEEP_WORK'):
        import atexit
        atexit.register(lambda: shutil.rmtree(work, ignore_errors=True))
    shutil.rmtree(work, ignore_errors=True); os.makedirs(work)
    os.makedirs(os.path.join(VERIF, 'evidence'), exist_ok=True); os.makedirs(os.path.join(VERIF, 'replays'), exist_ok=True)
    from pyvc import solve
    import units as U
    known = load_known()
    ledger = solve.Ledger(os.path.join(VERIF, 'obligations.lock.json'))
    violations, known_hits, notes = [], [], []

    # ------------------------------------------------------------------ deductive part
    obs, funcs, problems = [], [], []
    my_units = [u for u in U.UNITS if (prop in u.props or prop == 'ALL') and (not a.unit or a.unit == u.name)]
    if not a.no_vc:
        for u in my_units:
            o, f, p = u.generate(os.path.join(work, u.name))
            obs += o; funcs += f; problems += p
    budget = a.budget or (120 if tier == 'thorough' else 60)
    def progress(i, r):
        if a.v and r['kind'] != 'smoke' and r['verdict'] != 'unsat': print('   ', r['verdict'], r['tries'], r['name'][:150], flush=True)
    results = solve.discharge_all(obs, ledger, budget=budget, smoke_budget=(4 if tier == 'thorough' else 1.5), thorough=(tier == 'thorough' or a.update_ledger), progress=progress, jobs=max(2, (os.cpu_count() or 4) - 3))
    by_name = {o['name']: o for o in obs}
    proved, refuted, undecided, vacuous, unreachable = [], [], [], [], []
    for r in results:
        if r['kind'] == 'smoke':
            if r['verdict'] == 'vacuous':
                (vacuous if 'SMOKE-precondition' in r['name'] else unreachable).append(r)
            continue
        {'unsat': proved, 'sat': refuted}.get(r['verdict'], undecided).append(r)
    real = [r for r in results if r['kind'] != 'smoke']
    regressions, flakes, open_known, open_new = [], [], [], []
    fn_status = {}      # function (unit:qualified name) -> were all its obligations discharged on the reference tree?
    for name_, le_ in ledger.d.items():
        fn_ = name_.split('#', 1)[0]; fn_status[fn_] = fn_status.get(fn_, True) and le_.get('verdict') == 'unsat'
    for r in undecided:
        le = ledger.get(r['name'])
        if le is None:
            # an obligation the reference tree did not have (the function gained a path, a loop, a call): if every obligation of that function was
            # discharged there, the function as a whole no longer verifies -> regression; functions that were never fully proved stay 'new'
            if fn_status.get(r['name'].split('#', 1)[0]): r['new_in_proved_function'] = True; regressions.append(r)
            else: open_new.append(r)
        elif le.get('verdict') != 'unsat': open_known.append(r)
        elif le.get('hash') == r['hash']: flakes.append(r)
        else: regressions.append(r)
    # obligations proved on the reference tree that were not even generated this time (function out of subset / gone)
    missing = []
    if not a.unit and not a.no_vc:
        unit_names = {u.name for u in my_units}
        for name, le in ledger.d.items():
            if name.split(':', 1)[0] in unit_names and le.get('verdict') == 'unsat' and name not in by_name and prop in le.get('props', [prop]):
                missing.append(name)

    def write_obligation_replay(r, why):
        ob = by_name[r['name']]
        base = f"{prop}-{re.sub(r'[^A-Za-z0-9_.]+', '_', r['name'])[:80]}-{r['hash']}"
        smt_copy = base + '.smt2'
        shutil.copy(ob['path'], os.path.join(VERIF, 'replays', smt_copy))
        path = os.path.join(VERIF, 'replays', base + '.json')
        json.dump(dict(kind='obligation', property=prop, obligation=r['name'], function=ob['function'], unit=ob['unit'], smt2=smt_copy,
                       solver_tries=r['tries'], model=r.get('model', ''), explanation=why), open(path, 'w'), indent=1)
        return path

    # ------------------------------------------------------------------ bounded stand-ins (real code, run-time contracts)
    reports = [] if a.no_drivers else run_drivers(prop, tier, seed, work, a.driver)
    driver_fail = []
    for rep in reports:
        if rep.get('crashed'):
            problems.append(dict(unit='driver', function=rep['driver'], kind='driver-crash', detail=rep.get('detail', '')))
        for f in rep.get('failures', []):
            f['driver'] = rep['driver']; driver_fail.append(f)

    # ------------------------------------------------------------------ verdicts
    for f in driver_fail:
        key = f"driver:{f['driver']}:{f['key']}"
        k = known_match(known, prop, key)
        if k: known_hits.append((k, key)); continue
        path = os.path.join(VERIF, 'replays', f"{prop}-{f['driver']}-{re.sub(r'[^A-Za-z0-9_.]+', '_', f['key'])[:80]}.json")
        json.dump(dict(kind='driver', property=prop, driver=f['driver'], key=f['key'], case=f.get('case'), message=f.get('message'),
                       obligations=[r['name'] for r in refuted + regressions][:20]), open(path, 'w'), indent=1)
        violations.append((path, f"{f['key']}: {f.get('message', '')[:300]}", ''))
    have_input = bool(violations)
    for r in refuted + regressions:
        key = f"obligation:{r['name']}"
        k = known_match(known, prop, key)
        if k: known_hits.append((k, key)); continue
        le = ledger.get(r['name'])
        if r['verdict'] != 'sat' and le is None and not r.get('new_in_proved_function'): continue
        if r['verdict'] == 'sat': why = 'refuted: the solver produced a counter-model of the verification condition'
        elif r.get('new_in_proved_function'):
            why = ('regression: every obligation of this function was discharged on the reference tree; on the current tree the function generates this further obligation and it is not provable '
                   f"(solver answers {[t[1] for t in r['tries']]})")
        else:
            why = ('regression: this obligation was discharged on the reference tree; on the current tree its verification condition changed and is no longer provable '
                   f"(solver answers {[t[1] for t in r['tries']]})")
        path = write_obligation_replay(r, why)
        violations.append((path, f"{r['name']} -- {why}", '' if have_input else ' no-failing-input-found'))
    for name in missing:
        key = f'obligation:{name}'
        if known_match(known, prop, key): continue
        notes.append(f'spec-binding: obligation {name} of the reference tree was not generated on this tree (undecided, bounded stand-in decides)')

    # ------------------------------------------------------------------ evidence
    n_ob, n_dis = len(real), len(proved)
    try:
        claimed = {c['property_id']: c['level_claimed']['category'] for c in json.load(open(os.path.join(VERIF, 'MANIFEST.json')))['checks']}.get(prop, 'other')
    except Exception:
        claimed = 'other'
    level = 'proof' if (claimed == 'proof' and n_ob and n_ob == n_dis and not problems) else 'other'
    ev_total = sum(rep.get('evaluations', 0) for rep in reports)
    dn_total = sum(rep.get('distinct_nontrivial', 0) for rep in reports)
    samples = []
    for r in (proved[:3] + refuted[:2] + undecided[:2]):
        samples.append(dict(obligation=r['name'], verdict=r['verdict'], solver=r.get('solver'), time_s=round(r['time'], 2)))
    for rep in reports: samples += [dict(driver=rep['driver'], case=s) for s in rep.get('samples', [])[:3]]
    by_solver = {}
    for r in proved: by_solver[r.get('solver', '?')] = by_solver.get(r.get('solver', '?'), 0) + 1
    from pyvc.assumptions import assumptions_for
    cov = dict(
        obligations=n_ob, discharged=n_dis,
        checker_cmd=f'./check {prop} --tier {tier}  (pyvc VC generator over the real source -> z3-new 5.1.0 / cvc5 1.0.3 in killable subprocesses)',
        trusted_base=assumptions_for(prop, my_units)['trusted'],
        discharged_by=by_solver, solver_time_s=round(sum(r['time'] for r in results), 1),
        refuted=[r['name'] for r in refuted], undecided=[dict(name=r['name'], tries=r['tries']) for r in undecided][:60],
        undecided_split=dict(regressions=len(regressions), solver_flakes_same_vc=len(flakes), open_in_ledger=len(open_known), new_unproved=len(open_new)),
        smoke=dict(checked=len([r for r in results if r['kind'] == 'smoke']), vacuous_contracts=[r['name'] for r in vacuous], unreachable_paths=[r['name'] for r in unreachable]),
        functions_under_contract=funcs, problems=[{k: v for k, v in p.items() if k != 'trace'} for p in problems], missing_obligations=missing[:40],
        evaluations=max(ev_total, 0), distinct_nontrivial=dn_total,
        rule='deductive part: one obligation per contract clause, path and loop-invariant step of each listed function; bounded part: see bounded[].rule',
        samples=samples or [dict(note='no obligations and no driver cases')],
        bounded=[{k: v for k, v in rep.items() if k not in ('failures',)} for rep in reports],
        exhaustive=False,
        explanation=('Contract-based deductive verification: verification conditions generated from the real source by pyvc and discharged by SMT solvers '
                     f'({n_dis}/{n_ob} discharged this run), plus bounded run-time-contract stand-ins on the real code (labelled bounded, not counted as proved).'),
        notes=notes,
    )
    evidence = dict(property_id=prop, tier=tier, seed=seed, level=level, coverage=cov, assumptions=assumptions_for(prop, my_units)['assumptions'],
                    wall_s=round(time.time() - t_start, 2), violations=len(violations))
    json.dump(evidence, open(os.path.join(VERIF, 'evidence', f'{prop}.json'), 'w'), indent=1, default=str)

    if a.update_ledger:
        entries = {}
        for r in real:
            ob = by_name[r['name']]
            old = ledger.get(r['name']) or {}
            props = sorted((set(old.get('props', [])) | ({prop} if prop != 'ALL' else set(next((u.props for u in my_units if u.name == ob['unit']), [])))) - {'ALL'})
            if r['verdict'] == 'unsat':
                entries[r['name']] = dict(verdict='unsat', hash=r['hash'], solver=r.get('solver'), time=round(r.get('win_time', min(r['time'], 30)), 2), props=props)
            elif old.get('verdict') == 'unsat' and old.get('hash') == r['hash']:
                pass   # solver flake: keep the proved record
            else:
                entries[r['name']] = dict(verdict='open', hash=r['hash'], answer=r['verdict'], props=props)
        if not a.no_vc:
            unit_names = {u.name for u in my_units}
            for name in [n_ for n_ in ledger.d if n_.split(':', 1)[0] in unit_names and n_ not in by_name]: del ledger.d[name]     # obligations that no longer exist
        ledger.save(entries)
        print(f'ledger updated: {len(entries)} entries')

    # ------------------------------------------------------------------ report
    print(f'{prop} [{tier}] obligations={n_ob} discharged={n_dis} refuted={len(refuted)} undecided={len(undecided)} '
          f'(regressions={len(regressions)} flakes={len(flakes)} open={len(open_known)} new={len(open_new)}) '
          f'functions={len(funcs)} driver-evaluations={ev_total} driver-failures={len(driver_fail)} wall={time.time() - t_start:.1f}s')
    for p in problems: print(f"  note: {p['kind']} {p['unit']}:{p['function']}: {p['detail'][:300]}")
    for n_ in notes[:10]: print('  note:', n_)
    for r in vacuous: print(f"  CHECKER-ERROR vacuous contract: {r['name']}")
    seen_k = set()
    for k, key in known_hits:
        if k['id'] in seen_k: continue
        seen_k.add(k['id'])
        print(f"KNOWN-FINDING: property={prop} {k['id']}: {k['what']}")
    for path, msg, suffix in violations:
        print(f'  violation: {msg}')
        print(f'VIOLATION property={prop} replay={path}{suffix}')
    if violations: sys.exit(1)
    unexpected_dead = [r['name'] for r in unreachable if r['name'] not in U.EXPECTED_UNREACHABLE and (ledger.get(r['name'].replace('SMOKE', 'SMOKEOK')) is None)]
    for n_ in unexpected_dead: print(f'  VACUITY-SUSPECT unreachable path (obligations on it are vacuous): {n_}')
    if vacuous or any(p['kind'] in ('driver-crash', 'unit-build') for p in problems): sys.exit(3)
    if unexpected_dead and a.update_ledger: sys.exit(3)
    sys.exit(0)


if __name__ == '__main__':
    try:
        main()
    except SystemExit:
        raise
    except Exception:
        traceback.print_exc()
        sys.exit(3)
