"""Assumed contracts of library functions (each is an entry of the assumption register and is listed in the evidence of the units using it)."""
import ast
from z3 import *
from . import engine as E

REGISTRY = {}
ASSUMPTION = {}

def builtin(name, assumption):
    def deco(f):
        REGISTRY[name] = f; ASSUMPTION[name] = assumption; return f
    return deco

@builtin('bisect.bisect_left', 'A-bisect: bisect.bisect_left(a, x) on a sorted list returns r with a[:r] < x <= a[r:] (sortedness is a proved call-precondition)')
def bisect_left(ex, st, args):
    lst, x = args; n = ex.llen(st.heap, lst); arr = ex.lelem(st.heap, lst)
    j, k = Int('j!b'), Int('k!b')
    ex.oblige(st, 'call-pre[bisect_left: list is sorted]', ForAll([j, k], Implies(And(0 <= j, j <= k, k < n), Select(arr, j) <= Select(arr, k))), 'call-pre')
    r = E.fresh('bis', E.I)
    st.defs.append(And(0 <= r, r <= n, ForAll([k], Implies(And(0 <= k, k < r), Select(arr, k) < x.t)), ForAll([k], Implies(And(r <= k, k < n), Select(arr, k) >= x.t))))
    return E.SV(r, E.INT)


@builtin('copy.deepcopy', 'A-copy: copy.deepcopy of a tuple of free tokens yields as many fresh, pairwise distinct, free tokens (their classes and texts are those of the originals: checked by the L1 _clone contracts and the bounded drivers)')
def deepcopy_tokens(ex, st, args):
    src = args[0]; n = ex.llen(st.heap, src)
    l = ex.alloc(st, 'list'); arr = E.fresh('arr', E.IA); k, j = Int('k!'), Int('j!')
    hi = E.fresh('alloc', E.I); st.defs.append(hi >= st.heap.alloc + n)
    st.defs.append(ForAll([k], Implies(And(0 <= k, k < n), And(Select(arr, k) >= st.heap.alloc, Select(arr, k) < hi))))
    st.defs.append(ForAll([j, k], Implies(And(0 <= j, j < k, k < n), Select(arr, j) != Select(arr, k))))
    try:
        gs = ex.hget(st.heap, ('RawTokenModel', 'g_store'), E.Ref('TokenStore'))
        st.defs.append(ForAll([k], Implies(And(0 <= k, k < n), Select(gs, Select(arr, k)) == 0)))
    except Exception: pass
    st.heap.alloc = hi
    ex.set_list(st, l, n, arr, src.ty); return ex.list_sv(st, l, src.ty)


@builtin('copy.deepcopy#node', 'A-copy: copy.deepcopy of a free-standing node yields a fresh node of the same class with the same value (val); checked by the clone/_clone contracts of L1/L4 and the deep-copy driver')
def deepcopy_node(ex, st, args):
    src = args[0]
    if src.ty.kind == 'list': return deepcopy_tokens(ex, st, args)
    r = ex.alloc(st, 'copy')
    val = ex.spec.ufuns['val'][0]
    st.defs.append(ex.typ(r) == ex.typ(src.t)); st.defs.append(val(r) == val(src.t))
    return E.SV(r, src.ty)


@builtin('copy.deepcopy#token', 'A-copy-token: copy.deepcopy(token) with ONE argument runs RawTokenModel.__deepcopy__ = _clone(): a fresh free token of the same class, RULE and text (the _clone contracts of l1.tokens); with a memo argument CPython consults the memo first, so the result may be any earlier copy: nothing but its class is known')
def deepcopy_token(ex, st, args):
    src = args[0]
    if src.ty.kind != 'ref': raise E.Unsupported('copy.deepcopy of a non-token')
    if len(args) > 1:
        r = E.fresh('memoised', E.I); st.defs.append(And(r > 0, ex.typ(r) == ex.typ(src.t))); return E.SV(r, src.ty)
    r = ex.alloc(st, 'copy'); st.defs.append(ex.typ(r) == ex.typ(src.t))
    for f in ('_raw_text', 'RULE'):
        if ex.p.field_ty('RawTokenModel', f) is not None: ex.write(st, r, 'RawTokenModel', f, ex.read(st, src.t, 'RawTokenModel', f).t)
    for f in ('g_store', 'g_pos'):
        if ex.p.field_ty('RawTokenModel', f) is not None: ex.write(st, r, 'RawTokenModel', f, IntVal(0))
    return E.SV(r, src.ty)
deepcopy_token.fresh_classes = ('RawTokenModel',)


# ---------------------------------------------------------------- abstract file system (A-fs) for editor.py
# FS is one ghost array path -> content kept in the field ('Editor', 'g_fs') of the editor object (`self`); a text-mode open WITH newline=''
# hands out / stores the content verbatim; WITHOUT it the content is translated (universal newlines) - an uninterpreted function nl_translate.
def _fs(ex, st):
    slf = st.env['self']
    return slf, ex.read(st, slf.t, slf.ty.arg, 'g_fs').t

def _wants_call(f):
    f.wants_call = True; return f

@builtin('pathlib.Path', 'A-fs: pathlib.Path(p) denotes the same file as p')
def path_of(ex, st, args):
    return E.SV(args[0].t, E.STR)

@builtin('p.open', 'A-fs: Path.open(mode, newline=\'\') yields a handle on that path; reading returns the stored content verbatim, writing replaces it verbatim; without newline=\'\' the content passes through universal-newline translation')
@_wants_call
def p_open(ex, st, e):
    p = ex.ev(st, e.func.value)
    kws = {k.arg: k.value for k in e.keywords}
    verbatim = 'newline' in kws and isinstance(kws['newline'], ast.Constant) and kws['newline'].value == ''
    mode = e.args[0].value if e.args else 'r'
    h = E.SV(p.t, E.STR); h.fs_handle = (p.t, mode, verbatim)
    return h

@builtin('f.read', 'A-fs: see p.open')
@_wants_call
def f_read(ex, st, e):
    f = ex.ev(st, e.func.value); path, mode, verbatim = f.fs_handle
    slf, fs = _fs(ex, st)
    c = Select(fs, path)
    if not verbatim: c = Function('nl_translate', E.I, E.I)(c)
    return E.SV(c, E.STR)

@builtin('f.write', 'A-fs: see p.open')
@_wants_call
def f_write(ex, st, e):
    f = ex.ev(st, e.func.value); path, mode, verbatim = f.fs_handle
    v = ex.ev(st, e.args[0])
    slf, fs = _fs(ex, st)
    c = v.t if verbatim else Function('nl_translate_out', E.I, E.I)(v.t)
    ex.write(st, slf.t, slf.ty.arg, 'g_fs', Store(fs, path, c))
    return E.SV(IntVal(0), E.NONE)

@builtin('self._parser.parse', 'A-lark: Parser.parse(text, File) returns a fresh File model whose printed text is `text` (C01; bounded-checked)')
@_wants_call
def parser_parse(ex, st, e):
    text = ex.ev(st, e.args[0])
    r = ex.alloc(st, 'file')
    printed = ex.spec.ufuns['printed'][0]
    st.defs.append(printed(r, Select(ex.hget(st.heap, ('File', 'g_version'), E.INT), r)) == text.t)
    return E.SV(r, E.Ref('File'))

@builtin('printer.print_model(file, io.StringIO()).getvalue', 'printed(file, version): the text print_model writes for the model in its current state (g_version changes whenever the caller\'s block edits it)')
@_wants_call
def print_getvalue(ex, st, e):
    file = ex.ev(st, e.func.value.args[0])
    printed = ex.spec.ufuns['printed'][0]
    return E.SV(printed(file.t, Select(ex.hget(st.heap, ('File', 'g_version'), E.INT), file.t)), E.STR)
