"""Assumed contracts of library functions (each is an entry of the assumption register and is listed in the evidence of the units using it)."""
from z3 import *
from . import engine as E

REGISTRY = {}
ASSUMPTION = {}

def builtin(name, assumption):
    def deco(f):
        REGISTRY[name] = f; ASSUMPTION[name] = assumption; return f
    return deco

@builtin('bisect.bisect_left', 'A-bisect: bisect.bisect_left(a, x) on a sorted list returns r with a[:r] < x <= a[r:] (sortedness is a proved call-precondition)')
def bisect_left(ex, st, args):
    lst, x = args; n = ex.llen(st.heap, lst); arr = ex.lelem(st.heap, lst)
    j, k = Int('j!b'), Int('k!b')
    ex.oblige(st, 'call-pre[bisect_left: list is sorted]', ForAll([j, k], Implies(And(0 <= j, j <= k, k < n), Select(arr, j) <= Select(arr, k))), 'call-pre')
    r = E.fresh('bis', E.I)
    st.defs.append(And(0 <= r, r <= n, ForAll([k], Implies(And(0 <= k, k < r), Select(arr, k) < x.t)), ForAll([k], Implies(And(r <= k, k < n), Select(arr, k) >= x.t))))
    return E.SV(r, E.INT)
