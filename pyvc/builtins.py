"""Assumed contracts of library functions (each is an entry of the assumption register and is listed in the evidence of the units using it)."""
from z3 import *
from . import engine as E

REGISTRY = {}
ASSUMPTION = {}

def builtin(name, assumption):
    def deco(f):
        REGISTRY[name] = f; ASSUMPTION[name] = assumption; return f
    return deco

@builtin('bisect.bisect_left', 'A-bisect: bisect.bisect_left(a, x) on a sorted list returns r with a[:r] < x <= a[r:] (sortedness is a proved call-precondition)')
def bisect_left(ex, st, args):
    lst, x = args; n = ex.llen(st.heap, lst); arr = ex.lelem(st.heap, lst)
    j, k = Int('j!b'), Int('k!b')
    ex.oblige(st, 'call-pre[bisect_left: list is sorted]', ForAll([j, k], Implies(And(0 <= j, j <= k, k < n), Select(arr, j) <= Select(arr, k))), 'call-pre')
    r = E.fresh('bis', E.I)
    st.defs.append(And(0 <= r, r <= n, ForAll([k], Implies(And(0 <= k, k < r), Select(arr, k) < x.t)), ForAll([k], Implies(And(r <= k, k < n), Select(arr, k) >= x.t))))
    return E.SV(r, E.INT)


@builtin('copy.deepcopy', 'A-copy: copy.deepcopy of a tuple of free tokens yields as many fresh, pairwise distinct, free tokens (their classes and texts are those of the originals: checked by the L1 _clone contracts and the bounded drivers)')
def deepcopy_tokens(ex, st, args):
    src = args[0]; n = ex.llen(st.heap, src)
    l = ex.alloc(st, 'list'); arr = E.fresh('arr', E.IA); k, j = Int('k!'), Int('j!')
    hi = E.fresh('alloc', E.I); st.defs.append(hi >= st.heap.alloc + n)
    st.defs.append(ForAll([k], Implies(And(0 <= k, k < n), And(Select(arr, k) >= st.heap.alloc, Select(arr, k) < hi))))
    st.defs.append(ForAll([j, k], Implies(And(0 <= j, j < k, k < n), Select(arr, j) != Select(arr, k))))
    try:
        gs = ex.hget(st.heap, ('RawTokenModel', 'g_store'), E.Ref('TokenStore'))
        st.defs.append(ForAll([k], Implies(And(0 <= k, k < n), Select(gs, Select(arr, k)) == 0)))
    except Exception: pass
    st.heap.alloc = hi
    ex.set_list(st, l, n, arr, src.ty); return ex.list_sv(st, l, src.ty)


@builtin('copy.deepcopy#node', 'A-copy: copy.deepcopy of a free-standing node yields a fresh node of the same class with the same value (val); checked by the clone/_clone contracts of L1/L4 and the deep-copy driver')
def deepcopy_node(ex, st, args):
    src = args[0]
    if src.ty.kind == 'list': return deepcopy_tokens(ex, st, args)
    r = ex.alloc(st, 'copy')
    val = ex.spec.ufuns['val'][0]
    st.defs.append(ex.typ(r) == ex.typ(src.t)); st.defs.append(val(r) == val(src.t))
    return E.SV(r, src.ty)
