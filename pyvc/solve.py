"""Back end: discharge SMT-LIB obligations in killable solver subprocesses.

Every query is a file; each solver runs as a child process with a hard wall-clock limit
(z3 has been seen to ignore its in-process timeout).  Portfolio per obligation:
the solver that won last time (ledger) first, then the others.  `unknown`, timeouts and
crashes are never turned into `sat`.
"""
import hashlib, json, os, subprocess, time
from concurrent.futures import ThreadPoolExecutor

Z3 = 'z3-new'
CVC5 = 'cvc5'


def _run(cmd, limit):
    t0 = time.time()
    try:
        p = subprocess.run(cmd, capture_output=True, text=True, timeout=limit)
        out = (p.stdout or '').strip().splitlines()
        verdict = out[0].strip() if out else 'error'
        if verdict not in ('sat', 'unsat', 'unknown'):
            verdict = 'timeout' if 'timeout' in (p.stdout + p.stderr) else 'error:' + (p.stdout + p.stderr)[:200].replace('\n', ' ')
        return verdict, time.time() - t0, '\n'.join(out[1:])[:4000]
    except subprocess.TimeoutExpired:
        return 'timeout', time.time() - t0, ''


def run_z3(path, budget, seed=None, model=False):
    cmd = [Z3, f'-T:{max(1, int(budget))}']
    if seed is not None:
        cmd += [f'smt.random_seed={seed}', f'sat.random_seed={seed}']
    if model:
        cmd += ['-model']
    return _run(cmd + [path], budget + 5)


def run_cvc5(path, budget, model=False):
    cmd = [CVC5, f'--tlimit={int(budget * 1000)}', '--lang=smt2']
    if model:
        cmd += ['--produce-models', '--dump-models']
    return _run(cmd + [path], budget + 5)


def sha(text):
    return hashlib.sha256(text.encode()).hexdigest()[:16]


class Ledger:
    """committed record of what was proved on the reference tree: name -> {hash, solver, time}"""
    def __init__(self, path):
        self.path = path
        try:
            self.d = json.load(open(path))
        except Exception:
            self.d = {}

    def get(self, name):
        return self.d.get(name)

    def save(self, entries):
        self.d.update(entries)
        json.dump(self.d, open(self.path, 'w'), indent=0, sort_keys=True)


# Once several obligations whose VC differs from the reference tree have stayed undecided, the verdict of the run is settled (regression): the remaining
# obligations are then tried with a short budget and without the premise variants, so that a check on a broken tree ends in minutes, not hours.
# On the reference tree, and on a tree with harmless edits, nothing stays undecided and this never triggers.
DEGRADE_AFTER = 6
_state = dict(undecided_changed=0)
_state_lock = __import__('threading').Lock()

def degraded():
    return _state['undecided_changed'] >= DEGRADE_AFTER

def discharge_one(ob, budget, smoke_budget, ledger_entry, thorough):
    """ob: dict(name, kind, path, hash). Returns result dict."""
    res = _discharge_one(ob, budget, smoke_budget, ledger_entry, thorough)
    if res.pop('counted', False) and res['verdict'] in ('unsat', 'sat'):
        with _state_lock: _state['undecided_changed'] -= 1          # a premise variant decided it after all
    return res

def _discharge_one(ob, budget, smoke_budget, ledger_entry, thorough):
    res = dict(name=ob['name'], kind=ob['kind'], hash=ob['hash'], tries=[])
    if ob.get('precomputed') is not None:      # obligations decided by direct comparison (syntactic template coverage)
        v = ob['precomputed'] if ob['precomputed'] in ('sat', 'unsat') else 'unknown'
        res.update(verdict=v, time=0.0, solver='syntactic', model=ob.get('detail', ''), tries=[('syntactic', v, 0.0)]); return res
    if ob['kind'] == 'smoke':
        v, dt, _ = run_z3(ob['path'], smoke_budget)
        res['tries'].append(('z3', v, round(dt, 2)))
        res['verdict'] = 'vacuous' if v == 'unsat' else 'reachable-or-unknown'
        res['time'] = dt
        return res
    b = budget
    proved_before = bool(ledger_entry and ledger_entry.get('verdict') == 'unsat')
    if ledger_entry and ledger_entry.get('time'):
        b = min(max(budget, 4 * ledger_entry['time']), 4 * budget)
    if proved_before and not thorough:
        # the reference run knows how long this proof takes: 20x that (at least 15 s) is ample even with every core busy, and a proof that does not
        # come back within it on a changed VC is not going to (keeps a check on a broken tree to minutes)
        b = min(b, max(15.0, 20 * ledger_entry.get('time', 0)))
    if ledger_entry is None and not thorough:
        b = min(b, 30.0)        # an obligation the reference tree does not have: one short attempt per solver (the ledger is built with the thorough treatment)
    fast = degraded()
    if fast:
        b = min(b, max(8.0, 3 * (ledger_entry or {}).get('time', 0)))
        res['tries'].append(('degraded-budget', '', round(b, 1)))
    order = ['z3', 'cvc5']
    if ledger_entry and ledger_entry.get('solver') == 'cvc5':
        order = ['cvc5', 'z3']
    if ledger_entry and '/' in str(ledger_entry.get('solver', '')) and ob.get('focus_path'):
        sname, variant = ledger_entry['solver'].split('/')[:2]
        if variant in ('focus', 'nohint'):
            v, dt, extra = (run_z3 if sname == 'z3' else run_cvc5)(ob['focus_path'].replace('.focus.', f'.{variant}.'), b)
            res['tries'].append((f'{sname}/{variant}', v, round(dt, 2)))
            if v == 'unsat':
                res.update(verdict='unsat', solver=f'{sname}/{variant}', time=dt, model=''); return res
    total = 0.0
    verdict = 'unknown'
    model = ''
    for sname in order:
        v, dt, extra = (run_z3 if sname == 'z3' else run_cvc5)(ob['path'], b)
        total += dt
        res['tries'].append((sname, v, round(dt, 2)))
        if v == 'unsat':
            verdict = 'unsat'; res['solver'] = sname; res['win_time'] = dt; break
        if v == 'sat':
            verdict = 'sat'; res['solver'] = sname
            v2, dt2, model = (run_z3 if sname == 'z3' else run_cvc5)(ob['path'], b, model=True)
            break
    if verdict == 'unknown' and not (ledger_entry and ledger_entry.get('hash') == ob['hash']):
        with _state_lock: _state['undecided_changed'] += 1           # both solvers gave up on the full VC of a changed obligation
        res['counted'] = True
    fast = fast or degraded()
    if verdict == 'unknown' and ob.get('focus_path') and not fast and thorough:
        # sound retry with a SUBSET of the premises (quantifier-free path facts, definitions, hint assertions)
        for sname, variant in (('z3', 'focus'), ('z3', 'nohint'), ('cvc5', 'focus'), ('cvc5', 'nohint')):
            v, dt, extra = (run_z3 if sname == 'z3' else run_cvc5)(ob['focus_path'].replace('.focus.', f'.{variant}.'), b)
            total += dt
            res['tries'].append((f'{sname}/{variant}', v, round(dt, 2)))
            if v == 'unsat':
                verdict = 'unsat'; res['solver'] = f'{sname}/{variant}'; break
    if verdict == 'unknown' and thorough and not fast:
        # second round: other seeds / longer budget before an obligation is declared undecided
        for seed in (7, 31):
            v, dt, _ = run_z3(ob['path'], b * 2, seed=seed)
            total += dt
            res['tries'].append((f'z3/seed{seed}', v, round(dt, 2)))
            if v == 'unsat':
                verdict = 'unsat'; res['solver'] = 'z3'; break
            if v == 'sat':
                verdict = 'sat'; res['solver'] = 'z3'; break
    res['verdict'] = verdict
    res['time'] = total
    res['model'] = model
    return res


def portfolio(ob, budget):
    """all solver/premise-variant combinations at once; the first `unsat` (or `sat` on the full VC) wins, the rest is killed"""
    import threading
    variants = [('z3', ob['path'], 'full'), ('cvc5', ob['path'], 'full'), ('z3', ob['path'], 'seed7')]
    if ob.get('focus_path'):
        for v in ('focus', 'nohint'):
            p = ob['focus_path'].replace('.focus.', f'.{v}.')
            variants += [('z3', p, v), ('cvc5', p, v)]
    procs, lock, out = [], threading.Lock(), dict(verdict='unknown', tries=[], solver=None)
    t0 = time.time()
    def run(sname, path, variant):
        if sname == 'z3':
            cmd = [Z3, f'-T:{int(budget)}'] + (['smt.random_seed=7', 'sat.random_seed=7'] if variant == 'seed7' else []) + [path]
        else:
            cmd = [CVC5, f'--tlimit={int(budget * 1000)}', '--lang=smt2', path]
        try:
            p = subprocess.Popen(cmd, stdout=subprocess.PIPE, stderr=subprocess.PIPE, text=True)
        except Exception:
            return
        with lock: procs.append(p)
        try:
            so, se = p.communicate(timeout=budget + 5)
        except subprocess.TimeoutExpired:
            p.kill(); so = ''
        first = (so or '').strip().splitlines()[:1]
        v = first[0].strip() if first else 'timeout'
        with lock:
            out['tries'].append((f'{sname}/{variant}', v if v in ('sat', 'unsat', 'unknown') else 'timeout', round(time.time() - t0, 2)))
            if v == 'unsat' and out['verdict'] != 'unsat':
                out['verdict'] = 'unsat'; out['solver'] = sname if variant in ('full', 'seed7') else f'{sname}/{variant}'
                for q in procs:
                    if q is not p and q.poll() is None: q.kill()
            elif v == 'sat' and variant == 'full' and out['verdict'] == 'unknown':
                out['verdict'] = 'sat'; out['solver'] = sname
    ths = [threading.Thread(target=run, args=v) for v in variants]
    for t in ths: t.start()
    for t in ths: t.join()
    out['time'] = time.time() - t0
    return out


def discharge_all(obs, ledger, budget=30, smoke_budget=2, thorough=False, jobs=None, progress=None):
    jobs = jobs or (os.cpu_count() or 4)
    results = []
    with ThreadPoolExecutor(max_workers=jobs) as pool:
        futs = [pool.submit(discharge_one, ob, budget, smoke_budget, ledger.get(ob['name']), thorough) for ob in obs]
        for i, f in enumerate(futs):
            r = f.result()
            results.append(r)
            if progress:
                progress(i, r)
    # retry round: what stayed undecided while all cores were busy is re-tried on a quiet machine, all variants in parallel
    retry = [i for i, r in enumerate(results) if r['kind'] != 'smoke' and r['verdict'] not in ('unsat', 'sat') and obs[i].get('path')]
    if retry and len(retry) <= 6 and not degraded():
        with ThreadPoolExecutor(max_workers=2) as pool:
            futs = {i: pool.submit(portfolio, obs[i], min(budget * 2, max(30.0, 40 * (ledger.get(obs[i]['name']) or {}).get('time', 0)))) for i in retry}
            for i, f in futs.items():
                pr = f.result()
                r = results[i]
                r['tries'] = r['tries'] + [('retry-round', '', 0)] + pr['tries']
                r['time'] += pr['time']
                if pr['verdict'] in ('unsat', 'sat'):
                    r['verdict'] = pr['verdict']; r['solver'] = pr['solver']
                if progress: progress(i, r)
    return results
