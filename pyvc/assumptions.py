"""Assumption register (DESIGN.md section 6): what every check leaves unchecked, reported in the evidence."""
COMMON = [
    'A-py: Python semantics as encoded by pyvc (mathematical ints, left-to-right evaluation, type-directed truthiness, CPython slice clamping, '
    'no __getattr__/metaclass tricks in verified classes, only explicit raise / failed assert / modelled builtin failures raise)',
    'Meta: soundness of the pyvc VC generator itself (mitigated: seeded-mutant self test, smoke obligations, bounded stand-ins on the real code)',
    'Meta: the history induction (constructors establish Inv, every operation preserves Inv and refines the abstract view => all finite histories)',
    'Solvers: z3 5.1.0 and cvc5 1.0.3 answers `unsat` are trusted',
    'A-callback: a bound method passed as a value (store.get_next / get_prev) is a snapshot function of the heap at that moment, given by its contract; valid because the receiving callee has a proved frame that excludes what that contract reads',
    'A-abs: units above L0 see the token store through its abstract interface (view, vlen, per-token store/pos); these interface contracts restate the proved L0 contracts and the restatement is not machine-checked (monitored by the store driver)',
    'Assumed contracts stated in sidecar files for functions that are not targets of the same unit (virtual methods clone/reattach/first_token/last_token/token_store, indexes.range_from_index = CPython range normalisation, copy.deepcopy) are listed per unit below',
]
PER_PROP = {
    'C07': ['callers of the TokenStore API pass tokens of this store / pairwise distinct token lists (preconditions, proved at the L2 call sites under contract only)'],
    'C08': ['A-str: str.count/rfind/len as uninterpreted functions with the axioms count>=0, -1<=rfind<len, count==0 <=> rfind==-1',
            'Lean lemma tsize_append over the List Char model of str ties the fold of token sizes to (line, column) in the concatenated text'],
}

def _qual(t):
    owner, name = t[0], t[1]
    return (f'{owner}.{name}' if owner else name) + ('.setter' if len(t) > 2 and t[2] == 'setter' else '')

def assumed_contracts(u):
    """contracts of the unit's spec file that are NOT verified by this unit: callers use them as given. Split into those proved by another unit
    (against the real body, possibly under a differently shaped but corresponding contract) and those proved nowhere (virtual methods, abstract store, library)."""
    import os, re
    from . import unit as U_
    try:
        import units as ALL
        spec = open(os.path.join(os.path.dirname(os.path.dirname(os.path.abspath(__file__))), 'contracts', u.spec)).read()
    except Exception: return None
    names = re.findall(r"@contract\('([^']+)'\)", spec)
    mine = {_qual(t) for t in getattr(u, 'targets', [])}
    elsewhere = {_qual(t) for v in ALL.UNITS if v is not u for t in getattr(v, 'targets', [])}
    rest = [n for n in dict.fromkeys(names) if n not in mine]
    return [n for n in rest if n in elsewhere], [n for n in rest if n not in elsewhere]

def assumptions_for(prop, units):
    trusted = []
    for u in units:
        ac = assumed_contracts(u) if hasattr(u, 'targets') else None
        if ac and (ac[0] or ac[1]):
            trusted.append(f'unit {u.name}: contracts used as given here - verified against the real body by another unit: {", ".join(ac[0]) or "none"}; verified by no unit (assumed): {", ".join(ac[1]) or "none"}')
        if u.stubs: trusted.append(f'unit {u.name}: declaration-only stubs {u.stubs} stand for classes outside the verified files (fields/types only, no behaviour)')
        if u.note: trusted.append(f'unit {u.name}: {u.note}')
        if getattr(u, 'builtins', None):
            from . import builtins as B
            for b in u.builtins: trusted.append(f'unit {u.name}: {B.ASSUMPTION[b]}')
    return dict(assumptions=COMMON + PER_PROP.get(prop, []), trusted=trusted + ['pyvc VC generator', 'z3-new 5.1.0', 'cvc5 1.0.3'])
