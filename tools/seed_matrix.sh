#!/bin/sh
# for each confirmed seeded change: git apply in /repo, run the check of the property it breaks, undo straight afterwards; prints one summary line per seed
cd /verif; mkdir -p .work/matrix
for d in ${@:-$(ls seeded)}; do
  P=$(python3 -c "import json; print(json.load(open('seeded/$d/meta.json'))['property'])")
  git -C /repo apply /verif/seeded/$d/patch.diff || { echo "$d: patch does not apply"; continue; }
  ./check $P > .work/matrix/$d.log 2>&1; rc=$?
  git -C /repo checkout -- .
  nv=$(grep -c "^VIOLATION" .work/matrix/$d.log)
  first=$(grep -m1 "^  violation:" .work/matrix/$d.log | cut -c1-230)
  echo "$d prop=$P rc=$rc violations=$nv | $first"
done
git -C /repo status --short | head -3
