#!/bin/sh
# usage: try_seed.sh <seed name> <driver module> <prop> [tier]  -- run one driver against a seeded change in a scratch worktree (never touches /repo)
S=$1; D=$2; P=$3; T=${4:-quick}
WT=/tmp/tryseed_$S
rm -rf $WT; git -C /repo worktree add --detach $WT HEAD -q || exit 2
(cd $WT && git apply /verif/seeded/$S/patch.diff) || { echo "patch does not apply"; git -C /repo worktree remove --force $WT; exit 2; }
cd /verif && PYTHONPATH=$WT:/verif PYTHONHASHSEED=0 /venv/bin/python -m drivers.$D --prop $P --tier $T --out /tmp/tryseed_$S.json
python3 -c "
import json; r=json.load(open('/tmp/tryseed_$S.json')); print('$S via $D/$P:', r['evaluations'], 'evaluations,', len(r['failures']), 'failures')
for f in r['failures'][:4]: print('   ', f['key'][:90], '|', f['message'][:200])"
git -C /repo worktree remove --force $WT
