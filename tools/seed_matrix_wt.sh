#!/bin/sh
# like seed_matrix.sh but in scratch worktrees (VERIF_REPO), leaving /repo untouched; evidence files written during these runs describe the mutated trees:
# re-run tools/run_all.sh afterwards to refresh them from /repo
cd /verif; mkdir -p .work/matrix
for d in ${@:-$(ls seeded)}; do
  P=$(python3 -c "import json; print(json.load(open('seeded/$d/meta.json'))['property'])")
  WT=/tmp/mx_$d; rm -rf $WT; git -C /repo worktree add --detach $WT HEAD -q || continue
  (cd $WT && git apply /verif/seeded/$d/patch.diff) || { echo "$d: patch does not apply"; git -C /repo worktree remove --force $WT; continue; }
  VERIF_REPO=$WT ./check $P > .work/matrix/$d.log 2>&1; rc=$?
  git -C /repo worktree remove --force $WT
  nv=$(grep -c "^VIOLATION" .work/matrix/$d.log)
  ob=$(grep "^  violation: l[0-9]" .work/matrix/$d.log | head -1 | cut -c14-150)
  dr=$(grep "^  violation:" .work/matrix/$d.log | grep -v "^  violation: l[0-9]" | head -1 | cut -c14-150)
  echo "$d|$P|rc=$rc|violations=$nv|obligation: $ob|driver: $dr"
done
