#!/bin/sh
# usage: confirm_seed.sh <property id> <seed dir containing _seed/patch.diff,demo.py,notes.md> <name>
# Confirms a seeded property-breaking change in a scratch worktree of /repo HEAD and stores it under /verif/seeded/<name>/
P=$1; SRC=$2; NAME=$3
WT=/tmp/confirm/$NAME
rm -rf $WT; mkdir -p /tmp/confirm
git -C /repo worktree add --detach $WT HEAD -q || exit 2
mkdir -p $WT/_seed && cp $SRC/_seed/demo.py $WT/_seed/
cd $WT
PYTHONPATH=$WT /venv/bin/python _seed/demo.py > /tmp/confirm/$NAME.clean.log 2>&1; CLEAN=$?
git apply $SRC/_seed/patch.diff; APPLY=$?
PYTHONPATH=$WT /venv/bin/python _seed/demo.py > /tmp/confirm/$NAME.mut.log 2>&1; MUT=$?
PYTHONPATH=$WT /venv/bin/python -m pytest -q -p no:cacheprovider --timeout=900 -x > /tmp/confirm/$NAME.tests.log 2>&1; TESTS=$?
SUMMARY=$(tail -1 /tmp/confirm/$NAME.tests.log)
cd /
if [ $CLEAN = 0 ] && [ $APPLY = 0 ] && [ $MUT = 1 ] && [ $TESTS = 0 ]; then
  D=/verif/seeded/$NAME; mkdir -p $D
  cp $SRC/_seed/patch.diff $SRC/_seed/demo.py $D/; cp $SRC/_seed/notes.md $D/notes.md
  HEAD=$(git -C /repo rev-parse --short HEAD)
  python3 - "$P" "$NAME" "$HEAD" "$SUMMARY" <<'PY'
import json, sys
p, name, head, summary = sys.argv[1:5]
notes = open(f'/verif/seeded/{name}/notes.md').read()
json.dump(dict(property=p, name=name, needs=notes[:1500], confirmed_against_repo_commit=head,
               ran=[f'git worktree add /tmp/confirm/{name} {head}', 'demo.py on the clean worktree -> exit 0', 'git apply patch.diff', 'demo.py -> exit 1',
                    f'full suite with the change: {summary}'], source='independent sub-agent given only the property text'),
          open(f'/verif/seeded/{name}/meta.json', 'w'), indent=1)
PY
  echo "CONFIRMED $NAME clean=$CLEAN mut=$MUT tests=$TESTS ($SUMMARY)"
else
  echo "REJECTED $NAME clean=$CLEAN apply=$APPLY mut=$MUT tests=$TESTS ($SUMMARY)"
fi
git -C /repo worktree remove --force $WT
