#!/bin/sh
# runs every registered check once (quick), validates the evidence files; usage: tools/run_all.sh [extra args e.g. --update-ledger]
cd /verif
for p in $(python3 -c "import json; print(' '.join(c['property_id'] for c in json.load(open('MANIFEST.json'))['checks']))"); do
  ./check $p "$@" > .work/run_$p.log 2>&1; rc=$?
  echo "$p rc=$rc $(grep -E "^$p \[" .work/run_$p.log | cut -c1-230)"
  grep -E "^VIOLATION|^KNOWN-FINDING|VACUITY|CHECKER-ERROR|note: (driver-crash|unit-build|out-of-subset|spec-binding)" .work/run_$p.log | cut -c1-250
done
python3-vt - <<'PY'
import json, jsonschema, glob
sch = json.load(open('/root/.vp/EVIDENCE.schema.json'))
for f in sorted(glob.glob('/verif/evidence/C*.json')):
    try: jsonschema.validate(json.load(open(f)), sch)
    except Exception as e: print('EVIDENCE INVALID', f, str(e)[:200])
print('evidence validated')
PY
