#!/usr/bin/env python3
"""regenerates /verif/MANIFEST.json from the table below (single source of truth for what is claimed)"""
import json, os
V = os.path.dirname(os.path.dirname(os.path.abspath(__file__)))
props = [json.loads(l) for l in open(os.path.join(V, 'properties.jsonl'))]

TECH = 'contract-based deductive verification: VCs generated from the real source by pyvc against sidecar contracts, discharged by z3/cvc5; bounded run-time-contract stand-in on the real code (labelled bounded)'

# id -> (category, text, level_note, design_ref)
CLAIMS = {
 'C07': ('proof', 'Every function of token_store.py that implements the sequence behaviour (24 functions: observers, _splice, _update_block, _merge_blocks, _split_block, _build_blocks, from_tokens, '
         'splice/insert_after/insert_before/replace/remove) is verified against contracts stating Inv and view\' = view[:a] ++ tokens ++ view[b:] for a symbolic load factor L >= 2 and unbounded sizes; '
         'all obligations are discharged on every run. The property statement follows by induction over the history (DESIGN 4.0). A bounded small-scope differential driver (L in {2,3}) runs as stand-in and counter-example finder.',
         'pyvc VC generator, z3/cvc5, Python semantics as encoded (A-py), caller preconditions (tokens of this store, distinct offered tokens), history induction meta-argument', '5 C07'),
}

NA_REASON = 'check not built yet (framework under construction; see DESIGN.md section 10)'

checks, na = [], []
for p in props:
    pid = p['id']
    if pid in CLAIMS:
        cat, text, note, ref = CLAIMS[pid]
        checks.append(dict(property_id=pid, quick_cmd=f'./check {pid} --tier quick', thorough_cmd=f'./check {pid} --tier thorough', evidence_file=f'evidence/{pid}.json',
                           replay_cmd_template='./check ' + pid + ' --replay {path}', engine='pyvc', level_claimed=dict(category=cat, text=text, design_ref=ref), level_note=note, technique=TECH))
    else:
        na.append(dict(property_id=pid, reason=NA_REASON))
m = dict(version=1, setup_cmd='python3-vt -m compileall -q pyvc drivers rtc units.py >/dev/null 2>&1; true',
         hooks=dict(guard='AUTOBEAN_REFACTOR_VERIF', enable='no source hooks are needed: contracts, monitors and drivers are sidecar files under /verif that read /repo at run time',
                    baseline_off_cmd='cd /repo && /venv/bin/python -m pytest -ra -q -p no:cacheprovider --timeout=900 --continue-on-collection-errors', source_commits=[], add_only=True),
         engines=[dict(name='pyvc', path='pyvc/', serves_properties=sorted(CLAIMS), kind_free_text='verification-condition generator for a Python subset over the real source + SMT back ends (z3 5.1, cvc5 1.0.3)')],
         checks=checks, not_applicable=na,
         notes='genuine defects found by the checks were repaired in /repo as fix: commits and are listed in known_findings.json (fixed:); see DESIGN.md section 8')
json.dump(m, open(os.path.join(V, 'MANIFEST.json'), 'w'), indent=1)
print(len(checks), 'claimed;', len(na), 'not applicable')
