#!/usr/bin/env python3
"""regenerates /verif/MANIFEST.json from the table below (single source of truth for what is claimed)"""
import json, os
V = os.path.dirname(os.path.dirname(os.path.abspath(__file__)))
props = [json.loads(l) for l in open(os.path.join(V, 'properties.jsonl'))]

TECH = 'contract-based deductive verification: VCs generated from the real source by pyvc against sidecar contracts, discharged by z3/cvc5; bounded run-time-contract stand-in on the real code (labelled bounded)'

# id -> (category, text, level_note, design_ref)
B = ' A bounded run-time-contract driver on the real code runs as stand-in and counter-example finder (labelled bounded, never counted as proved).'
TB = 'pyvc VC generator; z3 5.1 / cvc5 1.0.3 `unsat` answers; Python semantics as encoded (A-py); history induction meta-argument (DESIGN 4.0); '

CLAIMS = {
 'C01': ('other', 'Proved: for all 34 slot-template classes first_token/last_token/pivots are the template terms (so every sub-model spans exactly its children; presence tests are not fooled by falsy children). '
         'Not yet under contract: ModelBuilder/PostLex (parser.py) and print_model; the lark half (token values concatenate to the input) is an assumed dependency contract.' + B,
         TB + 'A-lark-0/1 (lexer stream concatenates to the input; tree leaves are the fed tokens); bounded: corpus x both attribution modes x every sub-model x own-class re-parse', '5 C01'),
 'C02': ('proof', 'Proved for all inputs: every text setter of the token layer (Token.raw_text/_update_raw_text, SingleValueRawTokenModel.raw_text/value, BlockComment.raw_text/value/indent) and TokenStore.update '
         'modify only that token\'s _raw_text/size/value fields and the line/column caches of its own block (semantic frame obligations), never a token list, a handle or another token; with C07 (iteration = view) the printed text differs exactly in that token\'s span.' + B,
         TB + 'codecs parse/fmt uninterpreted (the frame holds for every codec); bounded: every token of the corpus x 5 replacements', '5 C02'),
 'C03': ('other', 'Proved: the window postconditions of the store mutators (view\' = view[:a] ++ tokens ++ view[b:], FR frame), of optional_left/right_field._create_node/_remove_node against the abstract store interface, '
         'the index-table maintenance of filtered views (handle_splice re-establishes RI), and that every pivot is the template term. Not yet under contract: RepeatedNodeWrapper mutators and the node properties (bounded only).' + B,
         TB + 'abstract store interface restates the proved L0 contracts (bridge not machine-checked); Gap invariant from parsing (A-lark-4); bounded: corpus x every property x list ops at all boundary indices + aliasing-view histories', '5 C03'),
 'C04': ('other', 'Proved: every TokenStore observer (get_index/next/prev/first/last/__len__/__iter__/iter) has an empty write set on pre-existing objects; _find_spacing only builds a fresh list. '
         'Not yet under contract: property getters of L2/L3 and the claim/unclaim family (bounded only).' + B,
         TB + 'bounded: corpus x read of every public attribute, eq/hash/deepcopy/print, claim/unclaim in all orders and random sequences', '5 C04'),
 'C05': ('other', 'Proved: _reattach/clone cover every slot and first/last_token are the template terms for all 34 classes; optional field create/remove put the node into the destination store (value.g_ts is token_store) with the stated window; '
         '_find_spacing returns a contiguous run of Newline/Whitespace tokens only (a spacing edit cannot swallow a structural token). Not yet under contract: RepeatedNodeWrapper, replace_node, detach (bounded only).' + B,
         TB + 'lemmas WINDOW/SHIFT are meta-arguments; bounded: executable Valid(root) after every operation of the document driver and after every spacing assignment', '5 C05'),
 'C06': ('other', 'Model side proved in part (window + index-table contracts as for C03/C10); that the printed text re-parses to an isomorphic tree is a statement about beancount.lark and lark: assumed (A-lark-2) and checked bounded by re-parsing after every operation.' + B,
         TB + 'A-lark-2; bounded: re-parse + structural comparison after every document-driver operation', '5 C06'),
 'C07': ('proof', 'Every function of token_store.py that implements the sequence behaviour (24 functions: observers, _splice, _update_block, _merge_blocks, _split_block, _build_blocks, from_tokens, '
         'splice/insert_after/insert_before/replace/remove) is verified against contracts stating Inv and view\' = view[:a] ++ tokens ++ view[b:] for a symbolic load factor L >= 2 and unbounded sizes; '
         'all obligations are discharged on every run. The property statement follows by induction over the history (DESIGN 4.0).' + B,
         TB + 'caller preconditions (offered tokens free or of this store, pairwise distinct); bounded: L in {2,3} small-scope differential driver', '5 C07'),
 'C08': ('other', 'Proved: the cache conjunct I6 (block.size / last_newline_index = folds over token sizes) for _StoreBlock.rebuild and from_tokens, with the frame lemma; TI (cached token size = size of its text, fresh Position) after every text setter, '
         'and that _raw_text is only written through Token._update_raw_text; TokenStore.update only touches the caches of the token\'s block. Not yet proved: the cache aspect of update/get_position/_splice fast path (bounded only); Lean lemma tsize_append ties folds to text positions.' + B,
         TB + 'A-str (count/rfind/len uninterpreted with axioms); bounded: L in {2,3} store driver with positions checked against the concatenated text after every step; document-level token edits', '5 C08'),
 'C09': ('other', 'Proved for all inputs: the three getters of the dependent group (CostSpec.raw_number_per / raw_number_total / raw_currency) are the abstraction functions, and each of the three setters sets its own field, leaves the other two and date/label/merge as they were (up to value-preserving copies), re-establishes the canonical-form invariant, or refuses with nothing changed - from every concrete form of the component list (634 obligations over the match/walrus code of cost_spec.py, seen through the seven typed component slots). Not under contract: Transaction payee/narration, the generic value properties, survival of re-parse (bounded only).' + B,
         'bounded only: every initial cost form x assignment sequences <= 2 (quick) / 3 (thorough) against the record-of-optionals model, Transaction payee/narration, generic value properties; survives re-parse', '5 C09'),
 'C10': ('other', 'Proved for all inputs: _RepeatedValueWrapperUpdateHandler.handle_splice re-establishes the index-table invariant RI (soundness and completeness, stated with the recursive rank function and 6 induction lemmas) for every l <= r, every value list and every table. '
         'Not yet under contract: the notification postconditions of the raw wrapper mutators and the list/dict semantics of the view methods (bounded only).' + B,
         TB + 'A-bisect; bounded: every cached view against the same view of a deep copy after every operation, aliasing-view histories', '5 C10'),
 'C11': ('other', 'Proved: clone of every template class passes token_store, the clone of every slot in slot order and indent_by; _clone of every token class yields a fresh free token with the same text/value/indent/claimed. '
         'Not yet under contract: RawTreeModel.__deepcopy__ (id map, from_tokens) - bounded only.' + B,
         TB + 'bounded: every sub-model of the corpus: equal, exact text, disjoint tokens, valid in own store, edits on either side', '5 C11'),
 'C12': ('other', 'Proved: the class invariant VT for abstract codecs (value/raw_text/indent setters, from_value, from_raw_text keep value and text describing each other, refusal before any write). '
         'Concrete codecs (re.sub, Decimal, strftime, the lark lexer) are outside the verifier: exhaustive/bounded with the real lexer.' + B,
         TB + 'bounded/exhaustive: Date over a calendar sample (quick) / all dates (thorough), flags, Bool; strings <= 3-4 over the distinguishing alphabet for EscapedString/BlockComment/InlineComment; lexeme acceptance via Parser.parse_token', '5 C12'),
 'C13': ('other', "Proved: NumberMulExpr.value and NumberAddExpr.value are the left folds of their operators over the operand values (uninterpreted Decimal arithmetic), i.e. usual precedence and associativity for a tree of the grammar's shape; the in-place operator helpers (_wrap_paren, _as_mul_expr, _as_atom_expr, _imuldiv, _iaddsub) build exactly the tree: old operands and operators in their order, then the new operator, then the new operand, a sum being parenthesised before it becomes a factor. That value(result) = value(self) op value(other) follows from these two by the fold lemma (meta-argument); non-in-place frames, _unary/_add_expr_from_value and the re-parse are bounded only." + B,
         'bounded only: expression trees of depth <= 1 (quick) / 2 (thorough) x all operators x operand kinds incl. operands attached inside a posting; independent evaluator; re-parse', '5 C13'),
 'C14': ('other', 'Proved: auto_claim_comments of every template class claims its own leading, then trailing comment and then every comment-bearing slot exactly once, last slot first. '
         'Not yet under contract: _claim_comment / claimer (ownership ghost). The correspondence with the documented layout rule depends on lark tokenisation: bounded.' + B,
         TB + 'A-lark-4; bounded: layouts of <= 3 comment blocks x <= 2 models per level vs an independent implementation of the documented rule; known finding C14-leading-comment-with-different-indentation', '5 C14'),
 'C15': ('other', 'Proved (syntactic template obligations): from_children of every template class detaches every slot in slot order into one store, reattaches every slot and passes every slot to the constructor. Parse-back is bounded (A-lark-2).' + B,
         TB + 'bounded: 27 classes with from_value x all presence subsets of optional arguments (<= 256 per class quick) with representative values, alone and assembled into a File', '5 C15'),
 'C16': ('other', "Proved over an abstract file system (A-fs): Editor.edit_file does not touch the file system before the yield (a raising block leaves every file as it was); afterwards the path holds exactly the printed model, no other path changed, and an unchanged model is not rewritten; reading and writing are verbatim because both opens pass newline=''. edit_file_recursive (queue, dict, set difference, glob) is not under contract: bounded driver on a real directory." + B,
         'bounded only (exhaustive over the stated finite space): 6 include graphs x LF/CRLF x 5 path spellings x {none, edit-all, edit-one, remove, add, respell, raise} x recursive/single; bytes and mtime_ns compared', '5 C16'),
 'C17': ('other', 'Proved: _find_spacing (for an arbitrary successor function) skips zero-width tokens, then returns exactly the visible tokens of the maximal run of Newline/Whitespace tokens, in order, nothing else in between. '
         'The four accessor properties that pass store.get_prev/get_next are bounded only.' + B,
         TB + 'Nbh from parsing (A-lark-4); bounded: corpus x every model/token x both sides x 6-7 spacing strings; two-sides agreement for visible neighbours', '5 C17'),
 'C18': ('other', "Proved: RepeatedMetaItemWrapper._get_indent is pure and returns the indentation of the first existing item, else the owner's default; mapping[key] = value updates an existing key in place (no item created, no indentation changed) and otherwise appends exactly one fresh item whose indent is that rule's value at that moment. Not under contract: _get_default_indent (descriptor calls), the leading/trailing comment route, raw inserts (bounded only)." + B,
         'bounded only: entries and postings x 4 meta layouts x 5 indent_by values x action sequences <= 3 incl. layout changes between two value insertions', '5 C18'),
 'C19': ('other', 'Proved: exceptional postconditions (state unchanged) of TokenStore._splice/splice/insert_after/insert_before/replace/remove/from_tokens and of the raw_text setters (parse before write); '
         'must-refuse posts: a normal return of _splice/splice/replace implies every offered token was free or strictly inside the removed range. Not yet under contract: L2+ refusal sites (bounded only).' + B,
         TB + 'bounded: every refused call of the document driver, cost/transaction state machines, store re-insertion cases', '5 C19'),
 'C20': ('other', 'Proved: _eq of every template class is exactly isinstance(other, C) and every slot equal (and indent_by equal); RawTokenModel.__eq__ is RULE and raw-text equality and __hash__ is a pure function of (RULE, current raw text), so equal tokens hash equally at any time. Not yet under contract: RawTreeModel.__eq__, Repeated._eq (bounded only).' + B,
         TB + 'bounded: parse twice, deepcopy, token eq/hash, single-token / child / ownership perturbations over the corpus', '5 C20'),
}

NA_REASON = 'check not built yet (framework under construction; see DESIGN.md section 10)'

checks, na = [], []
for p in props:
    pid = p['id']
    if pid in CLAIMS:
        cat, text, note, ref = CLAIMS[pid]
        checks.append(dict(property_id=pid, quick_cmd=f'./check {pid} --tier quick', thorough_cmd=f'./check {pid} --tier thorough', evidence_file=f'evidence/{pid}.json',
                           replay_cmd_template='./check ' + pid + ' --replay {path}', engine='pyvc', level_claimed=dict(category=cat, text=text, design_ref=ref), level_note=note, technique=TECH))
    else:
        na.append(dict(property_id=pid, reason=NA_REASON))
m = dict(version=1, setup_cmd='python3-vt -m compileall -q pyvc drivers rtc units.py >/dev/null 2>&1; true',
         hooks=dict(guard='AUTOBEAN_REFACTOR_VERIF', enable='no source hooks are needed: contracts, monitors and drivers are sidecar files under /verif that read /repo at run time',
                    baseline_off_cmd='cd /repo && /venv/bin/python -m pytest -ra -q -p no:cacheprovider --timeout=900 --continue-on-collection-errors', source_commits=[], add_only=True),
         engines=[dict(name='pyvc', path='pyvc/', serves_properties=sorted(CLAIMS), kind_free_text='verification-condition generator for a Python subset over the real source + SMT back ends (z3 5.1, cvc5 1.0.3)')],
         checks=checks, not_applicable=na,
         notes='genuine defects found by the checks were repaired in /repo as fix: commits and are listed in known_findings.json (fixed:); see DESIGN.md section 8')
json.dump(m, open(os.path.join(V, 'MANIFEST.json'), 'w'), indent=1)
print(len(checks), 'claimed;', len(na), 'not applicable')
