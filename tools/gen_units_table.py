#!/usr/bin/env python3
"""prints the markdown table of DESIGN.md section 0.1 from units.py and the ledger (run with: PYTHONPATH=/verif python3-vt tools/gen_units_table.py)"""
import json, collections, os, sys
V = os.path.dirname(os.path.dirname(os.path.abspath(__file__))); sys.path.insert(0, V)
import units
led = json.load(open(os.path.join(V, 'obligations.lock.json'))); led = led.get('obligations', led)
cnt = collections.Counter(k.split(':', 1)[0] for k in led)
print('| unit | real functions under contract | obligations | serves |'); print('|---|---|---|---|')
tot = 0; nf = 0
for u in units.UNITS:
    if hasattr(u, 'targets'):
        fs = ', '.join('`' + (f'{t[0]}.' if t[0] else '') + t[1] + ('=' if len(t) > 2 else '') + '`' for t in u.targets); nf += len(u.targets)
        lem = f' + {len(u.lemmas)} lemmas' if getattr(u, 'lemmas', None) else ''
    else:
        fs, lem = '34 generated classes x {first_token, last_token, pivots, `_eq`, `clone`, `_reattach`, `iter_children_formatted`, `auto_claim_comments`, `from_children`}', ''
    print(f"| {u.name}{' (aspect cache)' if getattr(u, 'aspect', None) else ''} | {fs}{lem} | {cnt[u.name]} | {' '.join(u.props)} |"); tot += cnt[u.name]
print(f'\ntotal obligations {tot}; functions {nf}')
