"""debug: generate the obligations of one function and discharge them through the killable CLI back end"""
import sys, os, tempfile, shutil
sys.path.insert(0, '/verif')
import units as U
from pyvc import engine as E, solve
from concurrent.futures import ThreadPoolExecutor
uname, owner, fn = sys.argv[1], sys.argv[2], sys.argv[3]
kind = sys.argv[4] if len(sys.argv) > 4 and sys.argv[4] in ('setter','getter') else None
pat = sys.argv[5] if len(sys.argv) > 5 else None
u = [u for u in U.UNITS if u.name == uname][0]
prog, spec, ex = u.build()
ex.debug_mods = bool(os.environ.get('DBGMODS'))
d = f'/verif/.work/dbg{os.getpid()}'; os.makedirs(d)
import atexit; atexit.register(lambda: shutil.rmtree(d, ignore_errors=True))
obs = []
for l in u.lemmas:
    for o, t in E.lemma_obligations(ex, l): obs.append((o, t))
if owner == 'lemma': pass
else:
    q, obls = E.generate(ex, owner if owner != '-' else None, fn, kind)
    obs += [(o, E.obligation_smt2(ex, o)) for o in obls]
VAR = {}
for i_, (o_, t_) in enumerate(obs):
    if o_.focus is not None and (not pat or pat in o_.name): VAR[i_] = (E.obligation_smt2(ex, o_, focus=True), E.obligation_smt2(ex, o_, focus='nohint'))
to = float(os.environ.get('TO', '10'))
def run(i):
    o, t = obs[i]
    if pat and pat not in o.name: return None
    if o.kind == 'smoke' and not os.environ.get('SMOKE'): return None
    p = f'{d}/{i}.smt2'; open(p, 'w').write(t)
    v, dt, _ = solve.run_z3(p, to)
    tries = [('z3', v, round(dt, 1))]
    if v not in ('sat', 'unsat'):
        v2, dt2, _ = solve.run_cvc5(p, to); tries.append(('cvc5', v2, round(dt2, 1)))
        if v2 in ('sat', 'unsat'): v = v2
    if v not in ('sat', 'unsat') and o.focus is not None:
        pf = f'{d}/{i}.focus.smt2'; open(pf, 'w').write(VAR[i][0])
        pn = f'{d}/{i}.nohint.smt2'; open(pn, 'w').write(VAR[i][1])
        for nm, fn_, pp in (('z3/focus', solve.run_z3, pf), ('z3/nohint', solve.run_z3, pn), ('cvc5/focus', solve.run_cvc5, pf), ('cvc5/nohint', solve.run_cvc5, pn)):
            v3, dt3, _ = fn_(pp, to); tries.append((nm, v3, round(dt3, 1)))
            if v3 == 'unsat': v = v3; break
    return (i, v, tries, o.kind, o.name)
with ThreadPoolExecutor(16) as ex_:
    for r in ex_.map(run, range(len(obs))):
        if r is None: continue
        if r[1] == 'unsat' and not os.environ.get('ALL'): continue
        print(r[0], r[1], r[2], r[3], r[4][:260])
print('total', len(obs))
