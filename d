#!/bin/sh
cd /verif && PYTHONHASHSEED=0 PYTHONPATH=/verif:/repo timeout ${TMO:-600} python3-vt dbg.py "$@"
