"""Registry of verification units: which real functions are under contract, for which properties."""
from pyvc.unit import Unit
from pyvc.templates import TemplateUnit

TS_GHOST = {'TokenStore': {'g_off': 'IARR', 'g_view': 'IARR', 'g_vlen': 'INT', 'g_boff': 'IARR'}}

# paths that are dead on the reference tree for a stated reason; any OTHER unreachable path makes the obligations on it vacuous and is reported
EXPECTED_UNREACHABLE = {
    'l0.structure:TokenStore._update_block#SMOKE-path3',       # the re-index guard after rebuild(): indexes are always fresh since fix c7e0fd9
    'l1.tokens:Position.__iadd__#SMOKE-path0',
    'l2.base:RawModel.detach#SMOKE-path0',                     # `return []` for a falsy store: the contract covers tree models, whose store holds >= 1 token
    'l2.base:RawModel.detach#SMOKE-path2',
    'l2.base:RawModel.tokens#SMOKE-path0',                     # `return []` for a falsy store / missing ends: excluded by the precondition (tree models)                     # `if tokens:` false: same reason                 # `return NotImplemented`: the contract restricts `other` to Position
}

UNITS = [
    Unit('l0.observers', ['token_store.py'], 'l0_token_store.py',
         [(None, '_check_store_handle'), ('TokenStore', 'get_index'), ('TokenStore', 'get_next'), ('TokenStore', 'get_prev'), ('TokenStore', 'get_first'),
          ('TokenStore', 'get_last'), ('TokenStore', '__len__'), ('TokenStore', '__iter__'), ('TokenStore', 'iter')],
         props=['C07', 'C04', 'C01'], typevars={'_T': 'Token'}, ghost=TS_GHOST),
    Unit('l0.structure', ['token_store.py'], 'l0_token_store.py',
         [('TokenStore', '_update_block_indexes'), ('_StoreBlock', 'rebuild'), ('TokenStore', '_merge_blocks'), ('TokenStore', '_splice'), ('TokenStore', '_update_block'),
          ('_StoreBlock', 'from_tokens'), (None, '_build_blocks'), ('TokenStore', '_split_block'), ('TokenStore', '__init__'), ('TokenStore', 'from_tokens')],
         props=['C07', 'C19', 'C03', 'C05', 'C06', 'C11'], typevars={'_T': 'Token'}, ghost=TS_GHOST),
    Unit('l0.mutators', ['token_store.py'], 'l0_token_store.py',
         [('TokenStore', 'splice'), ('TokenStore', 'insert_after'), ('TokenStore', 'insert_before'), ('TokenStore', 'replace'), ('TokenStore', 'remove')],
         props=['C07', 'C19', 'C03', 'C05', 'C06'], typevars={'_T': 'Token'}, ghost=TS_GHOST),
    Unit('l0.caches', ['token_store.py'], 'l0_token_store.py', [('_StoreBlock', 'rebuild'), ('_StoreBlock', 'from_tokens')], lemmas=['fold_frame'], aspect='cache',
         props=['C08'], typevars={'_T': 'Token'}, ghost=TS_GHOST),
    Unit('l1.tokens', ['token_store.py', 'models/base.py', 'models/internal/base_token_models.py', 'models/block_comment.py'], 'l1_tokens.py',
         [(None, '_token_size'), ('Position', '__iadd__'), ('Token', '__init__'), ('Token', '_update_raw_text'), ('Token', 'raw_text', 'setter'), ('TokenStore', 'update'),
          ('SingleValueRawTokenModel', '__init__'), ('SingleValueRawTokenModel', 'from_raw_text'), ('SingleValueRawTokenModel', 'from_value'),
          ('SingleValueRawTokenModel', 'raw_text', 'setter'), ('SingleValueRawTokenModel', 'value', 'setter'), ('SingleValueRawTokenModel', '_clone'),
          ('SimpleRawTokenModel', '_clone'),
          ('BlockComment', 'raw_text', 'setter'), ('BlockComment', 'value', 'setter'), ('BlockComment', 'indent', 'setter'), ('BlockComment', 'claimed', 'setter'),
          ('BlockComment', '_clone'), ('BlockComment', 'from_raw_text'), ('BlockComment', 'from_value')],
         props=['C02', 'C08', 'C12', 'C19', 'C11'], typevars={'_T': 'Token', '_V': 'object'},
         field_types={'SingleValueRawTokenModel': {'_value': 'INT'}, 'BlockComment': {'_value': 'STR', '_indent': 'STR', '_claimed': 'BOOL'}},
         note='parse/fmt/bc_* codecs are uninterpreted: the setters are verified for every codec; concrete codecs are checked under C12'),
    Unit('l3.views', ['models/internal/value_properties.py'], 'l3_views.py',
         [('_RepeatedValueWrapperUpdateHandler', 'handle_splice')],
         lemmas=['rank_nonneg', 'rank_mono', 'rank_prefix', 'rank_prefix_all', 'rank_shift_all', 'rank_lt_all'],
         props=['C10', 'C03', 'C06'], stubs=['l2_abstract.py'], typevars={'_M': 'RawModel', '_V': 'object', '_U': 'RawModel'},
         ghost={'_RepeatedValueWrapperUpdateHandler': {'g_a0': 'IARR', 'g_n0': 'INT', 'g_a1': 'IARR', 'g_n1': 'INT'}}, builtins=['bisect.bisect_left'],
         note='the raw list before/after the splice is ghost state (g_a0,g_n0 / g_a1,g_n1); that a1 == a0[:l] ++ values ++ a0[r:] is the notification postcondition of the raw wrapper (L2)'),
    Unit('l3.spacing', ['token_store.py', 'models/base.py', 'models/internal/base_token_models.py', 'models/spacing.py', 'models/internal/spacing_accessors.py'], 'l3_spacing.py',
         [(None, '_find_spacing')], lemmas=['chain_add'],
         props=['C17', 'C05', 'C04'], typevars={'_T': 'Token', '_V': 'object'},
         note='the successor callable of _find_spacing is an arbitrary total function (ghost array); the four accessor properties that pass store.get_prev/get_next are covered by the bounded driver only'),
    Unit('l2.fields', ['models/internal/fields.py'], 'l2_fields.py',
         [('optional_left_field', '_remove_node'), ('optional_right_field', '_remove_node'), ('optional_left_field', '_create_node'), ('optional_right_field', '_create_node')],
         props=['C03', 'C05', 'C06'], stubs=['l2_abstract.py'], typevars={'_M': 'RawModel', '_V': 'RawModel'}, builtins=['copy.deepcopy'],
         note='token store seen through its abstract interface (view, per-token store/pos): the interface contracts restate the proved L0 contracts under pos(t) = off[block.index]+index; this restatement (bridge) is not machine-checked, it is monitored at run time by the store driver'),
    Unit('l2.base', ['token_store.py', 'models/base.py'], 'l2_base.py',
         [('RawModel', 'detach'), ('RawModel', 'tokens'), ('RawTokenModel', '__eq__'), ('RawTokenModel', '__hash__')],
         props=['C05', 'C19', 'C03', 'C04', 'C20'], stubs=['l2_store_only.py'], typevars={'_T': 'RawTokenModel'},
         ghost={'RawModel': {'g_first': 'RawTokenModel', 'g_last': 'RawTokenModel', 'g_ts': 'TokenStore'}, 'RawTokenModel': {'g_store': 'TokenStore', 'g_pos': 'INT'}},
         note='token store seen through its abstract interface (bridge to L0 not machine-checked); first_token/last_token/token_store are virtual: contract on the base class, tied to the slots by the L4 template obligations'),
    Unit('l3.meta', ['models/meta_item_internal.py'], 'l3_meta.py',
         [('RepeatedMetaItemWrapper', '_get_indent'), ('RepeatedMetaItemWrapper', '__setitem__')],
         props=['C18'], stubs=['l3_meta.py'], typevars={'_V': 'object'},
         field_types={'RepeatedMetaItemWrapper': {'_default_indent_getter': 'THUNK_STR'}},
         note='the filtered view (RepeatedFilteredNodeWrapper) and MetaItem are abstract (declaration-only stubs with ghost fields); the default-indent thunk is a pure ghost value'),
    Unit('l5.cost', ['models/cost_spec.py'], 'l5_cost.py',
         [('CostSpec', 'raw_number_per'), ('CostSpec', 'raw_number_total'), ('CostSpec', 'raw_currency'),
          ('CostSpec', '__raw_number_per', 'setter'), ('CostSpec', '__raw_number_total', 'setter'), ('CostSpec', '__raw_currency', 'setter')],
         props=['C09', 'C19'], stubs=['l5_cost.py'], class_bases={'CostSpec': ['CostSpecGenerated']}, builtins=['copy.deepcopy#node'],
         field_types={'CostSpec': {'raw_compound_amount_comp': 'CompoundAmount', 'raw_amount_comp': 'Amount', 'raw_number_comp': 'NumberExpr', 'raw_currency_comp': 'Currency',
                                   'raw_date_comp': 'Date', 'raw_label_comp': 'EscapedString', 'raw_asterisk_comp': 'Asterisk'}},
         note='the cost component list is seen through its seven typed slots (assumed contract of unordered_node_property: at most one component per type; get/set address it); component classes are declaration-only stubs'),
    TemplateUnit('l4.templates', props=['C20', 'C11', 'C05', 'C15', 'C01', 'C03', 'C14']),
]
