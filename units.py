"""Registry of verification units: which real functions are under contract, for which properties."""
from pyvc.unit import Unit

TS_GHOST = {'TokenStore': {'g_off': 'IARR', 'g_view': 'IARR', 'g_vlen': 'INT', 'g_boff': 'IARR'}}

UNITS = [
    Unit('l0.observers', ['token_store.py'], 'l0_token_store.py',
         [(None, '_check_store_handle'), ('TokenStore', 'get_index'), ('TokenStore', 'get_next'), ('TokenStore', 'get_prev'), ('TokenStore', 'get_first'),
          ('TokenStore', 'get_last'), ('TokenStore', '__len__'), ('TokenStore', '__iter__'), ('TokenStore', 'iter')],
         props=['C07', 'C04'], typevars={'_T': 'Token'}, ghost=TS_GHOST),
    Unit('l0.structure', ['token_store.py'], 'l0_token_store.py',
         [('TokenStore', '_update_block_indexes'), ('_StoreBlock', 'rebuild'), ('TokenStore', '_merge_blocks'), ('TokenStore', '_splice'), ('TokenStore', '_update_block'),
          ('_StoreBlock', 'from_tokens'), (None, '_build_blocks'), ('TokenStore', '_split_block'), ('TokenStore', '__init__'), ('TokenStore', 'from_tokens')],
         props=['C07'], typevars={'_T': 'Token'}, ghost=TS_GHOST),
    Unit('l0.mutators', ['token_store.py'], 'l0_token_store.py',
         [('TokenStore', 'splice'), ('TokenStore', 'insert_after'), ('TokenStore', 'insert_before'), ('TokenStore', 'replace'), ('TokenStore', 'remove')],
         props=['C07', 'C19'], typevars={'_T': 'Token'}, ghost=TS_GHOST),
    Unit('l0.caches', ['token_store.py'], 'l0_token_store.py', [('_StoreBlock', 'rebuild'), ('_StoreBlock', 'from_tokens')], lemmas=['fold_frame'], aspect='cache',
         props=['C08'], typevars={'_T': 'Token'}, ghost=TS_GHOST),
]
