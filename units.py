"""Registry of verification units: which real functions are under contract, for which properties."""
from pyvc.unit import Unit

TS_GHOST = {'TokenStore': {'g_off': 'IARR', 'g_view': 'IARR', 'g_vlen': 'INT', 'g_boff': 'IARR'}}

UNITS = [
    Unit('l0.observers', ['token_store.py'], 'l0_token_store.py',
         [(None, '_check_store_handle'), ('TokenStore', 'get_index'), ('TokenStore', 'get_next'), ('TokenStore', 'get_prev'), ('TokenStore', 'get_first'),
          ('TokenStore', 'get_last'), ('TokenStore', '__len__'), ('TokenStore', '__iter__'), ('TokenStore', 'iter')],
         props=['C07', 'C04'], typevars={'_T': 'Token'}, ghost=TS_GHOST),
    Unit('l0.structure', ['token_store.py'], 'l0_token_store.py',
         [('TokenStore', '_update_block_indexes'), ('_StoreBlock', 'rebuild'), ('TokenStore', '_merge_blocks'), ('TokenStore', '_splice'), ('TokenStore', '_update_block'),
          ('_StoreBlock', 'from_tokens'), (None, '_build_blocks'), ('TokenStore', '_split_block'), ('TokenStore', '__init__'), ('TokenStore', 'from_tokens')],
         props=['C07'], typevars={'_T': 'Token'}, ghost=TS_GHOST),
    Unit('l0.mutators', ['token_store.py'], 'l0_token_store.py',
         [('TokenStore', 'splice'), ('TokenStore', 'insert_after'), ('TokenStore', 'insert_before'), ('TokenStore', 'replace'), ('TokenStore', 'remove')],
         props=['C07', 'C19'], typevars={'_T': 'Token'}, ghost=TS_GHOST),
    Unit('l0.caches', ['token_store.py'], 'l0_token_store.py', [('_StoreBlock', 'rebuild'), ('_StoreBlock', 'from_tokens')], lemmas=['fold_frame'], aspect='cache',
         props=['C08'], typevars={'_T': 'Token'}, ghost=TS_GHOST),
    Unit('l1.tokens', ['token_store.py', 'models/base.py', 'models/internal/base_token_models.py', 'models/block_comment.py'], 'l1_tokens.py',
         [(None, '_token_size'), ('Position', '__iadd__'), ('Token', '__init__'), ('Token', '_update_raw_text'), ('Token', 'raw_text', 'setter'), ('TokenStore', 'update'),
          ('SingleValueRawTokenModel', '__init__'), ('SingleValueRawTokenModel', 'from_raw_text'), ('SingleValueRawTokenModel', 'from_value'),
          ('SingleValueRawTokenModel', 'raw_text', 'setter'), ('SingleValueRawTokenModel', 'value', 'setter'), ('SingleValueRawTokenModel', '_clone'),
          ('SimpleRawTokenModel', '_clone'),
          ('BlockComment', 'raw_text', 'setter'), ('BlockComment', 'value', 'setter'), ('BlockComment', 'indent', 'setter'), ('BlockComment', 'claimed', 'setter'),
          ('BlockComment', '_clone'), ('BlockComment', 'from_raw_text'), ('BlockComment', 'from_value')],
         props=['C02', 'C08', 'C12', 'C19'], typevars={'_T': 'Token', '_V': 'object'},
         field_types={'SingleValueRawTokenModel': {'_value': 'INT'}, 'BlockComment': {'_value': 'STR', '_indent': 'STR', '_claimed': 'BOOL'}},
         note='parse/fmt/bc_* codecs are uninterpreted: the setters are verified for every codec; concrete codecs are checked under C12'),
]
